"""Fingerprint of the library source the input generators were last tuned on.

The fingerprint is the sha256 of ast.dump() of every module with docstrings removed, so comments, blank lines and
formatting do not count.  It decides NOTHING about a property: when the working tree differs from the pinned tree the
correspondence merely searches harder (a larger case budget), because a changed tree is where a failing input is worth
looking for.  `python3 tools/vlib/srcpin.py --pin` rewrites the pin (only ever by hand, after a fix: commit)."""
import ast, hashlib, json, os, sys

ROOT = os.environ.get("VERIF_ROOT", "/verif")
PIN = os.path.join(ROOT, "tools", "srcpin.json")
VER = "%d.%d" % sys.version_info[:2]      # ast.dump differs between interpreter versions: one pin per version


def _strip_doc(tree):
    for n in ast.walk(tree):
        if isinstance(n, (ast.Module, ast.ClassDef, ast.FunctionDef, ast.AsyncFunctionDef)):
            b = n.body
            if b and isinstance(b[0], ast.Expr) and isinstance(getattr(b[0], "value", None), ast.Constant) and isinstance(b[0].value.value, str):
                n.body = b[1:] or [ast.Pass()]
    return tree


def fingerprints(repo):
    out = {}
    pkg = os.path.join(repo, "jsonpath_rfc9535")
    for d, _, fs in os.walk(pkg):
        for f in sorted(fs):
            if f.endswith(".py"):
                p = os.path.join(d, f)
                try:
                    h = hashlib.sha256(ast.dump(_strip_doc(ast.parse(open(p, encoding="utf8").read()))).encode()).hexdigest()
                except Exception as ex:
                    h = "unparsable: %r" % (ex,)
                out[os.path.relpath(p, repo)] = h
    return out


def changed(repo):
    """files whose code differs from the pinned tree (added, removed or edited)"""
    try:
        pin = json.load(open(PIN))[VER]
    except Exception:
        return ["<no pin for python %s>" % VER]
    now = fingerprints(repo)
    return sorted(k for k in set(pin) | set(now) if pin.get(k) != now.get(k))


if __name__ == "__main__":
    repo = os.environ.get("VERIF_REPO", "/repo")
    if "--pin" in sys.argv:
        try: allp = json.load(open(PIN))
        except Exception: allp = {}
        allp[VER] = fingerprints(repo)
        json.dump(allp, open(PIN, "w"), indent=1, sort_keys=True)
    print(changed(repo))
