"""Build steps shared by every check: pygen, coq make, Print Assumptions capture, audit, jpx."""
import fcntl, hashlib, os, re, shutil, subprocess, time

ROOT = os.environ.get("VERIF_ROOT", "/verif")      # the registered commands use /verif; scratch copies (tools/mutcamp.py) set VERIF_ROOT
COQ = os.path.join(ROOT, "coq")
BUILD = os.path.join(ROOT, "build")
REPO = os.environ.get("VERIF_REPO", "/repo")
NCPU = min(16, os.cpu_count() or 4)

FORBIDDEN = re.compile(
    r"\b(Admitted|admit|Axiom|Axioms|Parameter|Parameters|Conjecture|Conjectures|Admit Obligations|"
    r"bypass_check|native_compute)\b|Unset\s+Guard|Unset\s+Positivity|Unset\s+Universe|type-in-type|impredicative-set")


def sh(cmd, timeout=900, cwd=None):
    try:
        p = subprocess.run(cmd, shell=True, cwd=cwd, capture_output=True, text=True, timeout=timeout)
        return p.returncode, p.stdout + p.stderr
    except subprocess.TimeoutExpired as e:
        return 124, "TIMEOUT after %ss: %s\n%s" % (timeout, cmd, (e.stdout or b"").decode("utf8", "replace") if isinstance(e.stdout, bytes) else (e.stdout or ""))


class Lock:
    def __enter__(self):
        os.makedirs(BUILD, exist_ok=True)
        self.f = open(os.path.join(BUILD, ".lock"), "w")
        fcntl.flock(self.f, fcntl.LOCK_EX)
        return self

    def __exit__(self, *a):
        fcntl.flock(self.f, fcntl.LOCK_UN)
        self.f.close()


def strip_comments(text):
    out, depth, i = [], 0, 0
    while i < len(text):
        if text.startswith("(*", i):
            depth += 1; i += 2
        elif text.startswith("*)", i) and depth:
            depth -= 1; i += 2
        else:
            if not depth:
                out.append(text[i])
            i += 1
    return "".join(out)


def audit():
    """grep every .v file of the development for forbidden commands (comments stripped)."""
    bad = []
    for d, _, fs in os.walk(COQ):
        for f in fs:
            if f.endswith(".v"):
                p = os.path.join(d, f)
                body = strip_comments(open(p, encoding="utf8").read())
                for n, line in enumerate(body.split("\n"), 1):
                    if FORBIDDEN.search(line):
                        bad.append("%s: %s" % (os.path.relpath(p, COQ), line.strip()[:120]))
    proj = open(os.path.join(COQ, "_CoqProject")).read()
    if re.search(r"type-in-type|impredicative-set|-vos|-vok", proj):
        bad.append("_CoqProject: forbidden flag")
    return bad


def ensure_makefile():
    mk = os.path.join(COQ, "Makefile")
    proj = os.path.join(COQ, "_CoqProject")
    if not os.path.exists(mk) or os.path.getmtime(mk) < os.path.getmtime(proj):
        rc, out = sh("coq_makefile -f _CoqProject -o Makefile", cwd=COQ)
        if rc:
            raise RuntimeError("coq_makefile failed: " + out)


def make(targets, timeout=1500, keep_going=True):
    """Incremental .vo build of the given targets (full compilation, no -vos)."""
    ensure_makefile()
    cmd = "timeout %d make %s -j%d %s" % (timeout, "-k" if keep_going else "", NCPU, " ".join(targets))
    rc, out = sh(cmd, timeout=timeout + 30, cwd=COQ)
    return rc, out


def vo_fresh(rel_v):
    """True iff the .vo of a .v file exists and is newer than its source."""
    v = os.path.join(COQ, rel_v)
    vo = v + "o"
    return os.path.exists(vo) and os.path.getmtime(vo) >= os.path.getmtime(v)


THEOREM_RE = re.compile(r"^\s*(Theorem|Corollary)\s+([A-Za-z0-9_']+)", re.M)


def check_props(rel_v, timeout=600):
    """Compile a Props file directly with coqc and read back Print Assumptions for every theorem.
    Returns dict(ok, theorems=[{name, assumptions, closed}], log)."""
    src = open(os.path.join(COQ, rel_v), encoding="utf8").read()
    names = [m.group(2) for m in THEOREM_RE.finditer(strip_comments(src))]
    rc, out = sh("timeout %d coqc -Q . JP %s" % (timeout, rel_v), timeout=timeout + 30, cwd=COQ)
    res = {"ok": rc == 0, "theorems": [], "log": out[-4000:], "file": rel_v}
    if rc != 0:
        for n in names:
            res["theorems"].append({"name": n, "assumptions": None, "closed": False, "checked": False})
        return res
    # Print Assumptions output: either "Closed under the global context" or "Axioms:\n name : type ..."
    blocks = re.split(r"(?=Closed under the global context|Axioms:)", out)
    blocks = [b for b in blocks if b.startswith("Closed under") or b.startswith("Axioms:")]
    for i, n in enumerate(names):
        if i < len(blocks):
            b = blocks[i].strip()
            closed = b.startswith("Closed under")
            res["theorems"].append({"name": n, "assumptions": "Closed under the global context" if closed else b[:1500],
                                    "closed": closed, "checked": True})
        else:
            res["theorems"].append({"name": n, "assumptions": "no Print Assumptions output", "closed": False, "checked": True})
    if len(blocks) != len(names):
        res["ok"] = False
        res["log"] += "\n[check_props] %d theorems but %d Print Assumptions blocks" % (len(names), len(blocks))
    return res


def build_jpx(timeout=900):
    """Extract the executable model/spec and compile the OCaml driver. Returns path or None, log."""
    rc, out = make(["Extract/Extract.vo"], timeout=timeout)
    ml = os.path.join(COQ, "jpx.ml")
    if rc != 0 or not vo_fresh("Extract/Extract.v") or not os.path.exists(ml):
        return None, out[-6000:]
    odir = os.path.join(BUILD, "ocaml")
    os.makedirs(odir, exist_ok=True)
    exe = os.path.join(odir, "jpx")
    drv = os.path.join(ROOT, "ocaml", "driver.ml.src")
    h = hashlib.sha256()
    for p in (ml, ml + "i", drv):
        h.update(open(p, "rb").read())
    stamp = os.path.join(odir, "stamp")
    if os.path.exists(exe) and os.path.exists(stamp) and open(stamp).read() == h.hexdigest():
        return exe, out[-2000:]
    shutil.copy(ml, os.path.join(odir, "jpx.ml"))
    shutil.copy(ml + "i", os.path.join(odir, "jpx.mli"))
    shutil.copy(drv, os.path.join(odir, "driver.ml"))
    rc, out2 = sh("timeout 600 ocamlfind ocamlopt -O3 -w -a jpx.mli jpx.ml driver.ml -o jpx", cwd=odir, timeout=630)
    if rc != 0:
        return None, out2[-4000:]
    open(stamp, "w").write(h.hexdigest())
    return exe, out[-2000:]


def run_jpx(exe, requests, timeout=1800, shards=None):
    """Run requests (lists of ints) through jpx; returns list of replies (lists of ints)."""
    if not requests:
        return []
    shards = shards or (NCPU if len(requests) > 2000 else 1)
    n = len(requests)
    size = (n + shards - 1) // shards
    procs = []
    for k in range(0, n, size):
        chunk = requests[k:k + size]
        data = "\n".join(" ".join(fmt_int(x) for x in r) for r in chunk) + "\n"
        p = subprocess.Popen(["/bin/sh", "-c", "ulimit -s unlimited 2>/dev/null; exec " + exe], stdin=subprocess.PIPE, stdout=subprocess.PIPE,
                             stderr=subprocess.PIPE, text=True)
        procs.append((p, data, len(chunk)))
    import threading
    outs = [None] * len(procs)

    def work(i):
        p, data, _ = procs[i]
        try:
            outs[i] = p.communicate(data, timeout=timeout)
        except subprocess.TimeoutExpired:
            p.kill(); outs[i] = ("", "TIMEOUT")
    ths = [threading.Thread(target=work, args=(i,)) for i in range(len(procs))]
    for t in ths: t.start()
    for t in ths: t.join()
    replies = []
    for (p, data, cnt), (o, e) in zip(procs, outs):
        lines = o.split("\n")
        if lines and lines[-1] == "":
            lines.pop()
        got = [[int(t, 0) for t in ln.split()] for ln in lines]
        while len(got) < cnt:      # driver died (e.g. stack overflow): mark the rest
            got.append(None)
        replies.extend(got[:cnt])
    return replies


def fmt_int(x):
    x = int(x)
    if -(1 << 60) < x < (1 << 60):
        return str(x)
    return ("-0x%x" % -x) if x < 0 else ("0x%x" % x)


def coqchk(rel_v, timeout=2400):
    """independent re-check of a compiled Props file and everything it depends on; returns (ok, summary text).
    ok is None when coqchk did not finish within the time allowed: inconclusive, neither a pass nor a failure."""
    mod = "JP." + rel_v[:-2].replace("/", ".")
    t0 = time.time()
    rc, out = sh("timeout %d coqchk -silent -o -Q . JP %s" % (timeout, mod), timeout=timeout + 30, cwd=COQ)
    if rc == 124 or (rc != 0 and time.time() - t0 >= timeout - 1):
        return None, "coqchk did not finish within %d s (inconclusive: the coqc kernel accepted every file; coqchk is the optional second checker)" % timeout
    i = out.find("CONTEXT SUMMARY")
    summary = out[i:] if i >= 0 else out[-1500:]
    ok = rc == 0 and "Axioms: <none>" in summary.replace("* ", "") and "type-in-type: <none>" in summary and "unsafe (co)fixpoints: <none>" in summary \
        and "positivity is assumed: <none>" in summary
    return ok, " ".join(summary.split())[:1200]
