"""Deterministic replacement for the `random` functions the library uses, driven by a choice script, and a
depth-first enumeration of every outcome.  random.randrange(n) takes the next script number (mod n);
random.shuffle of n >= 2 items takes one number read as a factorial-base permutation index (as Model/NdVisit.v)."""
import math, random


class Runaway(BaseException):
    """more random choices than any terminating run on the input at hand can make: the code under test is not stopping
    (a BaseException, so that no `except Exception` on the way swallows it)"""


class Script:
    def __init__(self, prefix=(), max_choices=None):
        self.prefix = list(prefix); self.pos = 0; self.trace = []; self.max_choices = max_choices

    def take(self, n):
        if self.max_choices is not None and self.pos >= self.max_choices:
            raise Runaway(self.pos)
        v = self.prefix[self.pos] if self.pos < len(self.prefix) else 0
        self.pos += 1
        self.trace.append((v, n))
        return v % n


class Scripted:
    """context manager patching random.randrange / random.shuffle / random.choice / random.sample"""
    def __init__(self, script):
        self.s = script

    def __enter__(self):
        self.saved = (random.randrange, random.shuffle, random.choice, random.sample)
        s = self.s

        def randrange(n): return s.take(n)

        def shuffle(x):
            n = len(x)
            if n < 2: return
            idx = s.take(math.factorial(n))
            pool = list(x); out = []
            for k in range(n, 0, -1):
                j = idx % k; idx //= k
                out.append(pool.pop(j))
            x[:] = out

        def choice(seq): return seq[s.take(len(seq))]

        def sample(pop, k):
            pool = list(pop); out = []
            for _ in range(k): out.append(pool.pop(s.take(len(pool))))
            return out
        random.randrange, random.shuffle, random.choice, random.sample = randrange, shuffle, choice, sample
        return self

    def __exit__(self, *a):
        random.randrange, random.shuffle, random.choice, random.sample = self.saved


def enumerate_outcomes(run, limit=20000, max_choices=None):
    """run(script) -> outcome; yields (script values, outcome) for every path of the choice tree (up to limit); with max_choices, a run that
    asks for more choices than that gets chooser.Runaway raised from the random call"""
    prefix = []
    n = 0
    while True:
        s = Script(prefix, max_choices)
        with Scripted(s):
            out = run(s)
        vals = [v for v, _ in s.trace]
        yield vals, out
        n += 1
        if n >= limit: return
        i = len(s.trace) - 1
        while i >= 0 and s.trace[i][0] + 1 >= s.trace[i][1]: i -= 1
        if i < 0: return
        prefix = vals[:i] + [s.trace[i][0] + 1]
