"""Shared implementation-side helpers: environments with test doubles, find() cases, regex oracle recording."""
from . import wire, gen
from .runner import Case


def make_env(reg=None, nondeterministic=False, max_depth=100, record_rx=None):
    """reg entries: (name, [arg types 1/2/3], ret type, impl code list) with impl [0..4] builtin,
    [5, pyobj...] constant double (python value in entry[4]), [6] echo-first double"""
    import jsonpath_rfc9535 as jp
    from jsonpath_rfc9535.function_extensions import FilterFunction, ExpressionType
    from jsonpath_rfc9535.filter_expressions import NOTHING
    T = {1: ExpressionType.VALUE, 2: ExpressionType.LOGICAL, 3: ExpressionType.NODES}

    class Env(jp.JSONPathEnvironment):
        pass
    Env.nondeterministic = nondeterministic
    Env.max_recursion_depth = max_depth
    env = Env()
    if record_rx is not None:
        for nm, search in (("match", False), ("search", True)):
            orig = env.function_extensions[nm]

            class Rec(type(orig)):
                def __call__(self, s, p, _o=orig, _search=search):
                    r = _o(s, p)
                    if isinstance(s, str) and isinstance(p, str):
                        record_rx.append((_search, s, p, bool(r)))
                    return r
            env.function_extensions[nm] = Rec()
    for ent in (reg or []):
        name, args, ret, impl = ent[:4]
        if impl[0] < 5:
            continue

        def mk(args=args, ret=ret, impl=impl, ent=ent):
            class Double(FilterFunction):
                arg_types = [T[a] for a in args]
                return_type = T[ret]

                def __call__(self, *a):
                    if impl[0] == 6:
                        return a[0]
                    c = ent[4]
                    if c == "NOTHING": return NOTHING
                    if c == "EMPTYNODES": return jp.JSONPathNodeList()
                    return c
            return Double()
        env.function_extensions[name] = mk()
    return env


def rand_registry(rng):
    """builtins plus a few type-consistent test doubles"""
    reg = list(gen.BUILTINS)
    for i in range(rng.randint(0, 3)):
        arity = rng.choice([0, 1, 1, 2, 2, 3])
        args = [rng.choice([1, 2, 3]) for _ in range(arity)]
        ret = rng.choice([1, 2, 3])
        if args and args[0] == ret and rng.random() < 0.7:
            reg.append(("f%d" % i, args, ret, [6], None))
        else:
            if ret == 1: c = rng.choice(["NOTHING", 0, 1, "a", None, True, [1], {"a": 1}, 1.5])
            elif ret == 2: c = rng.random() < 0.5
            else: c = "EMPTYNODES"
            reg.append(("f%d" % i, args, ret, [5] + gen.enc_pyobj(c), c))
    return reg


def enc_nodes(nodes):
    return [0] + wire.enc_list(lambda nd: wire.enc_node(nd.location, nd.value), list(nodes))


def find_case(env, reg, q, text, v, kind, rx_rows, depth=100, spec=True, extra_desc=None):
    """run the implementation on (text, v) and build the model/spec requests from the AST q"""
    del rx_rows[:]
    try:
        nodes = env.find(text, v)
        out = enc_nodes(nodes)
        nontriv = len(nodes) > 0
    except Exception as ex:
        out = wire.enc_exception(ex)[:2]
        nontriv = True
    rows = list(dict.fromkeys(rx_rows))
    renc = gen.enc_registry([e[:4] for e in reg])
    tail = gen.enc_rxtable(rows) + gen.enc_segs(q) + wire.enc_json(v)
    desc = {"text": text, "value": v}
    if extra_desc: desc.update(extra_desc)
    return Case(desc, [3, depth] + renc + tail, out, ([103] + renc + tail) if spec else None, None, nontriv, kind)


def norm_reply(r):
    return r[:2] if r and r[0] in (1, 2) else r


LIM = (1 << 53) - 1


def impl_compile(env, text):
    """whole compiled structure, or error class + token index"""
    try:
        c = env.compile(text)
        return [0] + gen.enc_segs(gen.ast_of_query(c)), c
    except Exception as ex:
        return wire.enc_exception(ex), None


def compile_req(reg, text, lo=-LIM, hi=LIM):
    return [2, lo, hi] + gen.enc_registry([e[:4] for e in reg]) + wire.enc_str(text)


ALPH = list("$.[]()?@*,:'\"\\!=<>&|-+0123456789eE abct_\n\tufnrl") + [
    "\U0001F600", "é", "true", "false", "null", "&&", "||", "==", "..", "length(", "count(", "match(", "value(", "search(",
    "\\u0041", "\\uD83D\\uDE00", "$", "[?", "@.", "1.5", "-0", "01", "1e2", "0.0", "f0(", "TRUE", "Null", " ", "\r", "\\", "'", '"', "\\'", "!", "(", ")"]


STRUCT = list("[](),?:.*!&|=<>@$'\" ")


def mutate_struct(rng, q, k=None):
    """mutations at the structural characters of a query: a bracket, parenthesis, comma, colon, quote ... duplicated, dropped, swapped for
    another structural character, or a short structural suffix appended (stray closers after a complete construct)"""
    q = list(q)
    for _ in range(k or rng.randint(1, 2)):
        pos = [i for i, ch in enumerate(q) if ch in STRUCT]
        r = rng.random()
        if r < 0.3 or not pos:
            q += [rng.choice("])],),") for _ in range(rng.randint(1, 3))]
        else:
            i = rng.choice(pos)
            if r < 0.5: q.insert(i, q[i])
            elif r < 0.65: del q[i]
            elif r < 0.85: q[i] = rng.choice(STRUCT)
            else: q.insert(i + 1, rng.choice("])],(["))
    return "".join(q)


def mutate_text(rng, q, k=None):
    q = list(q)
    for _ in range(k or rng.randint(1, 2)):
        op = rng.random(); pos = rng.randint(0, len(q))
        if op < 0.35 and q: del q[min(pos, len(q) - 1)]
        elif op < 0.7: q.insert(pos, rng.choice(ALPH))
        elif op < 0.85 and q: q[min(pos, len(q) - 1)] = rng.choice(ALPH)
        elif op < 0.93 and q: q.insert(pos, q[min(pos, len(q) - 1)])
        elif len(q) > 1:
            i = min(pos, len(q) - 2); q[i], q[i + 1] = q[i + 1], q[i]
    return "".join(q)
