"""Generic check driver: build, proof obligations, correspondence, oracle sweep, classification, evidence."""
import importlib, json, os, random, sys, time
from . import build, srcpin

ROOT = build.ROOT


class Ctx:
    def __init__(self, pid, tier, seed):
        self.pid, self.tier, self.seed = pid, tier, seed
        self.rng = random.Random(seed)
        self.quick = tier == "quick"
        self.repo = build.REPO


class Case:
    """One correspondence case.
    desc       JSON-serialisable description of the input (goes into samples / replays)
    model_req  request for the executable model        impl_out  what the implementation did (wire ints)
    spec_req   request for the executable specification (or None)
    expect     function spec_reply -> expected impl_out (or None: spec reply is compared directly)
    nontrivial bool, kind str (distribution key)"""
    __slots__ = ("desc", "model_req", "impl_out", "spec_req", "expect", "nontrivial", "kind", "in_domain", "spec_check")

    def __init__(self, desc, model_req, impl_out, spec_req=None, expect=None, nontrivial=True, kind="", in_domain=True, spec_check=None):
        self.desc, self.model_req, self.impl_out = desc, model_req, impl_out
        self.spec_req, self.expect, self.nontrivial, self.kind, self.in_domain = spec_req, expect, nontrivial, kind, in_domain
        self.spec_check = spec_check     # optional: (impl_out, spec_reply) -> None if fine, else a message


def load_known_findings():
    p = os.path.join(ROOT, "known_findings.json")
    if not os.path.exists(p):
        return []
    return json.load(open(p)).get("findings", [])


def write_replay(pid, seed, n, payload):
    d = os.path.join(ROOT, "replays")
    os.makedirs(d, exist_ok=True)
    p = os.path.join(d, "%s-%d-%d.json" % (pid, seed, n))
    json.dump(payload, open(p, "w"), indent=1, default=str)
    return p


def main(argv=None):
    argv = argv or sys.argv[1:]
    if not argv or argv[0] in ("-h", "--help"):
        print("usage: bin/check <Cxx>|--setup [--tier quick|thorough] [--replay FILE]"); return 2
    if argv[0] == "--setup":
        return setup()
    pid = argv[0]
    tier = os.environ.get("VERIF_TIER", "quick")
    replay = None
    i = 1
    while i < len(argv):
        if argv[i] == "--tier": tier = argv[i + 1]; i += 2
        elif argv[i] == "--replay": replay = argv[i + 1]; i += 2
        else: i += 1
    seed = int(os.environ.get("VERIF_SEED", "20260930"))
    mod = importlib.import_module("checks." + pid.lower())
    ctx = Ctx(pid, tier, seed)
    if replay:
        return mod.replay(ctx, json.load(open(replay)))
    return run_check(mod, ctx)


def setup():
    t0 = time.time()
    with build.Lock():
        from pygen import gen_all
        g = gen_all.generate()
        rc, out = build.make(["all"], timeout=3000, keep_going=False)
        if rc != 0:
            print(out[-8000:]); print("SETUP FAILED: coq build"); return 1
        exe, log = build.build_jpx()
        if not exe:
            print(log); print("SETUP FAILED: jpx"); return 1
    print("setup ok in %.0fs" % (time.time() - t0))
    return 0


def run_check(mod, ctx):
    t0 = time.time()
    pid = ctx.pid
    violations = []      # (message, replay payload)
    broken = []          # names of obligations / correspondences that no longer check
    ev = {"property_id": pid, "tier": ctx.tier, "seed": ctx.seed, "level": "proof"}
    cov = {}
    # 1-2: regenerate, build, obligations
    with build.Lock():
        from pygen import gen_all
        gen = gen_all.generate()
        targets = [f + "o" for f in mod.PROPS] + ["Extract/Extract.vo"]
        if ctx.tier == "thorough":
            for f in mod.PROPS:
                try: os.remove(os.path.join(build.COQ, f + "o"))
                except OSError: pass
        rc, mlog = build.make(targets)
        props = [build.check_props(f) for f in mod.PROPS]
        exe, jlog = build.build_jpx()
    chk = None
    if ctx.tier == "thorough" and all(p["ok"] for p in props):
        chk = [build.coqchk(f) for f in mod.PROPS]
    aud = build.audit()
    theorems = [t for p in props for t in p["theorems"]]
    allowed_axioms = getattr(mod, "ALLOWED_AXIOMS", [])
    n_ob = len(theorems)
    n_ok = 0
    for p in props:
        for t in p["theorems"]:
            ok = p["ok"] and t["checked"] and (t["closed"] or all_allowed(t["assumptions"], allowed_axioms))
            t["discharged"] = bool(ok)
            if ok: n_ok += 1
            else: broken.append("theorem %s (%s)" % (t["name"], p["file"]))
        if not p["ok"] and not p["theorems"]:
            broken.append("file %s does not compile" % p["file"])
    gen_used = {k: v for k, v in gen.items() if k in getattr(mod, "GEN", [])}
    for k, v in gen_used.items():
        n_ob += 1
        if v["ok"]: n_ok += 1
        else: broken.append("translation %s: %s" % (k, v["reason"]))
    if aud:
        broken.append("audit: " + "; ".join(aud[:5]))
    if not exe:
        broken.append("executable model does not build (Extract/Extract.v or its dependencies)")
    if chk is not None:
        for (ok, summary), f in zip(chk, mod.PROPS):
            if ok is None: continue        # timed out: inconclusive, recorded in the evidence, not an obligation
            n_ob += 1
            if ok: n_ok += 1
            else: broken.append("coqchk %s: %s" % (f, summary[:300]))
    cov.update({"obligations": n_ob, "discharged": n_ok,
                "checker_cmd": "coq_makefile -f _CoqProject && make %s (coqc 8.16.1, full .vo); coqc -Q . JP %s (Print Assumptions)" % (" ".join(targets), " ".join(mod.PROPS)),
                "trusted_base": mod.TRUSTED_BASE,
                "theorems": [{k: t[k] for k in ("name", "assumptions", "discharged")} for t in theorems],
                "gen_files": gen_used, "audit": aud,
                "coqchk": [c[1] for c in chk] if chk is not None else "thorough tier only"})
    # 3-4: correspondence and oracle
    stats = {"evaluations": 0, "distinct_nontrivial": 0, "model_impl_disagreements": 0, "impl_spec_disagreements": 0,
             "kinds": {}, "samples": []}
    if exe or getattr(mod, "NEEDS_NO_MODEL", False):
        budget = 1 if not broken else 5
        src_changed = srcpin.changed(ctx.repo)
        if src_changed and ctx.quick:
            budget = max(budget, 6)      # a changed tree is where a failing input is worth a longer search
        cov["source_vs_pinned_tree"] = {"changed_files": src_changed, "case_budget_factor": budget}
        try:
            res = correspond(mod, ctx, exe, budget)
        except Exception as ex:       # harness failure must not look like a pass
            import traceback; traceback.print_exc()
            broken.append("harness error: %r" % (ex,))
            res = None
        if res:
            stats.update(res["stats"])
            for d in res["model_impl"][:3]:
                pass
            for d in res["impl_spec"]:
                violations.append(("implementation disagrees with the specification", d))
            if res["model_impl"]:
                # where model = spec is a theorem, a model/implementation disagreement inside the domain IS a failing input
                proved = getattr(mod, "MODEL_IS_SPEC", False) and not broken
                hits = [d for d in res["model_impl"] if proved and d.get("in_domain", True)]
                for d in hits:
                    violations.append(("implementation disagrees with the proved model", d))
                if not hits:
                    broken.append("correspondence %s: model and implementation differ on %d case(s), first: %s" % (
                        pid, len(res["model_impl"]), json.dumps(res["model_impl"][0].get("desc"), default=str)[:300]))
            if hasattr(mod, "extra"):
                pass
    cov.update({"evaluations": stats["evaluations"], "distinct_nontrivial": stats["distinct_nontrivial"],
                "rule": getattr(mod, "RULE", ""), "samples": stats["samples"][:8],
                "correspondence": {k: stats[k] for k in ("model_impl_disagreements", "impl_spec_disagreements", "kinds")}})
    for k in ("exhaustive", "extra"):
        if k in stats: cov[k] = stats[k]
    # 5: classify
    known = [f for f in load_known_findings() if f.get("property") == pid and f.get("status") == "open"]
    out_lines = []
    rc = 0
    nrep = 0
    real = []
    for msg, d in violations:
        kf = match_known(known, d)
        if kf:
            out_lines.append("KNOWN-FINDING: property=%s %s" % (pid, kf["what"]))
        else:
            real.append((msg, d))
    seen = set()
    out_lines = [l for l in out_lines if not (l in seen or seen.add(l))]
    if real:
        msg, d = real[0]
        path = write_replay(pid, ctx.seed, nrep, {"property": pid, "what": msg, "case": d, "seed": ctx.seed, "tier": ctx.tier,
                                                  "others": [x[1] for x in real[1:6]], "broken": broken})
        out_lines.append("VIOLATION property=%s replay=%s" % (pid, path))
        rc = 1
    elif broken:
        path = write_replay(pid, ctx.seed, nrep, {"property": pid, "what": "proof obligation or correspondence no longer checks",
                                                  "broken": broken, "make_log": mlog[-3000:] if rc is not None else "",
                                                  "props_logs": [p["log"][-1500:] for p in props if not p["ok"]], "seed": ctx.seed})
        out_lines.append("VIOLATION property=%s replay=%s no-failing-input-found" % (pid, path))
        rc = 1
    ev["coverage"] = cov
    ev["assumptions"] = getattr(mod, "ASSUMPTIONS", [])
    ev["wall_s"] = round(time.time() - t0, 2)
    ev["violations"] = len(real) + (1 if (broken and not real) else 0)
    ev["known_findings_hit"] = [l for l in out_lines if l.startswith("KNOWN")]
    ev["broken"] = broken
    os.makedirs(os.path.join(ROOT, "evidence"), exist_ok=True)
    json.dump(ev, open(os.path.join(ROOT, "evidence", pid + ".json"), "w"), indent=1, default=str)
    for l in out_lines: print(l)
    print("%s %s: obligations %d/%d, cases %d (nontrivial distinct %d), model/impl diffs %d, impl/spec diffs %d, %.1fs -> %s" % (
        pid, ctx.tier, n_ok, n_ob, stats["evaluations"], stats["distinct_nontrivial"], stats["model_impl_disagreements"],
        stats["impl_spec_disagreements"], time.time() - t0, "FAIL" if rc else "ok"))
    return rc


def all_allowed(assumptions, allowed):
    if not assumptions or not allowed:
        return False
    names = [ln.split(":")[0].strip() for ln in assumptions.split("\n")[1:] if ln and not ln.startswith(" ") and ":" in ln]
    return bool(names) and all(n in allowed for n in names)


def match_known(known, d):
    for f in known:
        if f.get("match") and all(d.get("desc", {}).get(k) == v for k, v in f["match"].items()):
            return f
    return None


class NoProgress(BaseException):
    """raised in the main thread (SIGUSR1 from the watchdog thread) when no case has been produced for too long"""


class Watchdog:
    """Every check runs the implementation on generated inputs; a change that makes it loop on one of them would make the check hang.  While the
    cases are being produced a thread watches the time since the last one; beyond the limit (VERIF_WATCHDOG_S, default 900 s, 1800 s in the thorough tier - a single case,
    the longest enumerations included, takes seconds to a few minutes) it interrupts the main thread, and what the check's frames were working
    on at that moment is reported as the input on which the implementation did not return."""
    NAMES = ("text", "qt", "query", "q", "pattern", "pat", "subject", "value", "v", "data", "doc", "cells", "limit", "script", "argv", "args", "name")

    def __init__(self, quick=True):
        self.limit = float(os.environ.get("VERIF_WATCHDOG_S", "900" if quick else "1800"))
        self.last = time.time(); self.on = False; self.fired = False

    def start(self):
        import signal, threading
        if threading.current_thread() is not threading.main_thread(): return
        self.saved = signal.signal(signal.SIGUSR1, self.handler)
        self.on = True; self.last = time.time(); self.main = threading.main_thread().ident
        threading.Thread(target=self.watch, daemon=True).start()

    def handler(self, *a):
        if self.on: raise NoProgress()

    def watch(self):
        import signal
        while self.on:
            time.sleep(1.0)
            if self.on and not self.fired and time.time() - self.last > self.limit:
                self.fired = True
                signal.pthread_kill(self.main, signal.SIGUSR1)

    def beat(self): self.last = time.time()

    def stop(self):
        import signal
        if self.on:
            self.on = False
            signal.signal(signal.SIGUSR1, self.saved)

    def describe(self, tb):
        """the locals, by the usual names, of the check's frames on the stack when the interrupt arrived (innermost last)"""
        out = {}
        while tb is not None:
            f = tb.tb_frame
            if os.sep + "checks" + os.sep in f.f_code.co_filename or os.sep + "vlib" + os.sep + "harness" in f.f_code.co_filename:
                for k in self.NAMES:
                    if k in f.f_locals:
                        try: out[k] = json.loads(json.dumps(f.f_locals[k], default=repr))
                        except Exception: out[k] = repr(f.f_locals[k])[:2000]
                out["where"] = "%s:%d in %s" % (os.path.basename(f.f_code.co_filename), tb.tb_lineno, f.f_code.co_name)
            tb = tb.tb_next
        for k, v in list(out.items()):
            if len(json.dumps(v, default=repr)) > 4000: out[k] = json.dumps(v, default=repr)[:4000] + "..."
        return out


def correspond(mod, ctx, exe, budget):
    cases = []
    ctx.exe = exe        # a check may consult the executable model while it produces its cases (C14: to find where a history goes wrong)
    wd = Watchdog(ctx.quick)
    try:
        wd.start()
        for c in mod.cases(ctx, budget):
            cases.append(c); wd.beat()
    except NoProgress as ex:
        wd.stop()
        d = wd.describe(ex.__traceback__)
        d["after_cases"] = len(cases)
        msg = "the implementation did not return within %d s on this input (the check's own frames were here when it was interrupted)" % wd.limit
        cases.append(Case(d, None, [9], [118, 0], None, True, "no-progress", True, lambda a, b, m=msg: m))
    finally:
        wd.stop()
    stats = {"evaluations": len(cases), "kinds": {}, "samples": []}
    model_reqs = [c.model_req for c in cases if c.model_req is not None]
    spec_reqs = [c.spec_req for c in cases if c.spec_req is not None]
    replies = build.run_jpx(exe, model_reqs + spec_reqs) if exe else []
    mrep = iter(replies[:len(model_reqs)])
    srep = iter(replies[len(model_reqs):])
    model_impl, impl_spec = [], []
    distinct = set()
    seen_nt = 0
    outcomes = {}
    norm = getattr(mod, "norm_reply", lambda r: r)
    for c in cases:
        m = norm(next(mrep)) if c.model_req is not None else None
        s = next(srep) if c.spec_req is not None else None
        stats["kinds"][c.kind] = stats["kinds"].get(c.kind, 0) + 1
        if c.impl_out:
            ok = {0: "returned", 1: "JSONPathError", 2: "other-exception"}.get(c.impl_out[0], str(c.impl_out[0])) if c.impl_out[0] in (0, 1, 2) and c.model_req and c.model_req[0] in (1, 2, 3) else None
            if ok:
                if c.impl_out[0] == 1 and len(c.impl_out) > 1: ok += ":%d" % c.impl_out[1]
                outcomes[ok] = outcomes.get(ok, 0) + 1
        if c.nontrivial:
            distinct.add(json.dumps(c.desc, sort_keys=True, default=str))
        exp = None
        why = None
        if s is not None and c.spec_check is not None:
            why = c.spec_check(c.impl_out, s)
        elif s is not None:
            exp = c.expect(s) if c.expect else s
        rec = {"desc": c.desc, "impl": c.impl_out, "model": m, "spec_expected": exp if c.spec_check is None else s, "in_domain": c.in_domain}
        if c.model_req is not None and m != c.impl_out:
            model_impl.append(rec)
        if why is not None and c.in_domain:
            rec = dict(rec); rec["why"] = why; impl_spec.append(rec)
        if exp is not None and c.in_domain and exp != c.impl_out:
            impl_spec.append(rec)
        if c.nontrivial:
            seen_nt += 1
            if len(stats["samples"]) < 8: stats["samples"].append(rec)
            else:
                j = ctx.rng.randrange(seen_nt)
                if j < 8: stats["samples"][j] = rec
    if not stats["samples"] and cases:
        c = cases[0]; stats["samples"].append({"desc": c.desc, "impl": c.impl_out})
    stats["distinct_nontrivial"] = len(distinct)
    stats["extra"] = {"impl_outcomes (error class codes: 1 syntax 2 type 3 index 4 name 5 lexer 6 recursion)": outcomes}
    stats["model_impl_disagreements"] = len(model_impl)
    stats["impl_spec_disagreements"] = len(impl_spec)
    if hasattr(mod, "post"):
        stats.update(mod.post(ctx, cases) or {})
    return {"stats": stats, "model_impl": model_impl[:20], "impl_spec": impl_spec[:20]}
