"""Python side of the integer wire format (see coq/Extract/Wire.v)."""
import math


def enc_bool(b): return [1 if b else 0]
def enc_opt(e, x): return [0] if x is None else [1] + e(x)
def enc_z(x): return [int(x)]
def enc_list(e, xs):
    out = [len(xs)]
    for x in xs: out += e(x)
    return out
def enc_str(s): return [len(s)] + [ord(c) for c in s]


def float_me(f):
    """finite non-zero float -> (m, e) with f == m * 2**e and m odd"""
    m, e = math.frexp(f)          # f = m * 2**e, 0.5 <= |m| < 1
    m = int(m * (1 << 53)); e -= 53
    while m % 2 == 0:
        m //= 2; e += 1
    return m, e


def enc_num(x):
    if isinstance(x, int): return [2, x]
    if math.isinf(x): return [5, 1 if x < 0 else 0]
    if math.isnan(x): raise ValueError("NaN is not JSON")
    if x == 0.0: return [4] if math.copysign(1.0, x) < 0 else [3, 0, 0]
    m, e = float_me(x)
    return [3, m, e]


def enc_json(v):
    if v is None: return [0]
    if v is True: return [1, 1]
    if v is False: return [1, 0]
    if isinstance(v, (int, float)): return enc_num(v)
    if isinstance(v, str): return [6] + enc_str(v)
    if isinstance(v, (list, tuple)):
        out = [7, len(v)]
        for x in v: out += enc_json(x)
        return out
    if isinstance(v, dict):
        out = [8, len(v)]
        for k, x in v.items(): out += enc_str(k) + enc_json(x)
        return out
    raise TypeError("not JSON: %r" % (v,))


def enc_key(k):
    return [0] + enc_str(k) if isinstance(k, str) else [1, int(k)]


def enc_node(loc, val):
    return enc_list(enc_key, list(loc)) + enc_json(val)


ERR = {"JSONPathSyntaxError": 1, "JSONPathTypeError": 2, "JSONPathIndexError": 3, "JSONPathNameError": 4,
       "JSONPathLexerError": 5, "JSONPathRecursionError": 6}
EXN = {"OverflowError": 1, "TypeError": 2, "KeyError": 3, "IndexError": 4, "AttributeError": 5, "ValueError": 6,
       "RecursionError": 7, "StopIteration": 8, "AssertionError": 9}


def enc_exception(ex):
    """Err class off | Crash exn, as Wire.enc_result does"""
    name = type(ex).__name__
    if name in ERR:
        tok = getattr(ex, "token", None)
        return [1, ERR[name]] + ([0] if tok is None else [1, tok.index])
    return [2, EXN.get(name, 99)]
