"""Structured generators: JSON values, query ASTs (filter-free and with well-typed filters),
lexical rendering of an AST in random legal spellings, wire encoding of ASTs."""
from . import wire

NAMES = ["a", "b", "c", "a", "b", "x", "", "0", "1", "-1", "a b", "'", '"', "\\", "é", "\U0001F600", "\U0001F600x", "a\U0001F600\U0001F600", "\n", "\u0000", "\x7f", " ", "length", "*", "ab", "_x", "A",
         # names that Unicode normalisation (NFC / NFKC) would rewrite: a query text must be taken as written, code point by code point
         "e\u0301", "\u212b", "\u1100\u1161", "\u2126",
         # ... and names that case folding, stripping, compatibility normalisation or a lossy re-encoding would change or conflate
         " a", "a ", "\u00df", "\u0130", "\ufb01", "\uff41", "a\u200b", "\ufeffa", "\u00e9".upper()]
SIMPLE_NAMES = ["a", "b", "c", "d", "x"]
LIM = (1 << 53) - 1
BUILTINS = [("length", [1], 1, [0]), ("count", [3], 1, [1]), ("match", [1, 1], 2, [3]), ("search", [1, 1], 2, [4]), ("value", [3], 1, [2])]


# ---------------------------------------------------------------- JSON
def rand_scalar(rng):
    r = rng.random()
    if r < 0.12: return None
    if r < 0.24: return rng.random() < 0.5
    if r < 0.5: return rng.choice([0, 1, -1, 2, 3, 10, 1 << 53, -(1 << 53), (1 << 53) + 1, rng.randint(-5, 5)])
    if r < 0.65: return rng.choice([0.0, -0.0, 1.0, 2.0, 0.5, -1.5, 1e16, 2.0 ** 53, 1e-7, 3.25, float(rng.randint(-3, 3))])
    return rng.choice(["", "a", "b", "ab", "a", "1", "0", "\U0001F600", "é", "true", "null", "a\nb", "x" * rng.randint(0, 3)])


def rand_json(rng, depth=3, fan=4, names=None, top=False):
    names = names or SIMPLE_NAMES
    if depth <= 0 or (not top and rng.random() < 0.3):
        return rand_scalar(rng)
    lo = 1 if top else 0
    if rng.random() < 0.5:
        return [rand_json(rng, depth - 1, fan, names) for _ in range(rng.randint(lo, fan))]
    d = {}
    for _ in range(rng.randint(lo, fan)):
        d[rng.choice(names)] = rand_json(rng, depth - 1, fan, names)
    return d


def nesting(v):
    if isinstance(v, list): return 1 + max([nesting(x) for x in v] + [0])
    if isinstance(v, dict): return 1 + max([nesting(x) for x in v.values()] + [0])
    return 0


# ---------------------------------------------------------------- AST generation
def rand_sel(rng, names, allow_filter, reg, depth):
    r = rng.random()
    if allow_filter and r < 0.3:
        return ("filter", gen_test(rng, names, reg, depth))
    if r < 0.5: return ("name", rng.choice(names))
    if r < 0.7: return ("index", rng.choice([0, 1, -1, 2, -2, 5, rng.randint(-4, 4)]))
    if r < 0.85:
        pick = lambda: None if rng.random() < 0.35 else rng.randint(-4, 5)
        return ("slice", pick(), pick(), rng.choice([None, 1, 2, -1, -2, 0, 3]))
    return ("wild",)


def rand_segments(rng, names, allow_filter, reg, depth, maxseg=3):
    segs = []
    for _ in range(rng.randint(0 if depth < 2 else 1, maxseg)):
        kind = "desc" if rng.random() < 0.25 else "child"
        n = 1 if rng.random() < 0.6 else rng.randint(1, 3)
        segs.append((kind, [rand_sel(rng, names, allow_filter and depth > 0, reg, depth - 1) for _ in range(n)]))
    return segs


def rand_singular(rng, names):
    return [("child", [("name", rng.choice(names)) if rng.random() < 0.7 else ("index", rng.randint(-2, 2))])
            for _ in range(rng.randint(0, 2))]


def rand_literal(rng):
    v = rand_scalar(rng)
    if isinstance(v, int) and not isinstance(v, bool) and abs(v) > (1 << 53):
        v = (1 << 53) if v > 0 else -(1 << 53)     # literals outside the exact range are out of every property's domain
    if isinstance(v, float) and rng.random() < 0.5:
        # floats with many significant digits and small magnitudes (repr with a negative exponent): str() must print them exactly
        v = rng.choice([rng.random(), round(rng.uniform(-1000, 1000), rng.randint(1, 10)), 1.0 / 3, 0.1 + 0.2, 1.5e-07, 1e-05, 2.5e-10, 123456.789, 0.1234567, -6.02e-05])
    if isinstance(v, float) and abs(v) >= 1e16:
        v = 0.5                                    # repr uses a positive exponent: the text is an integer literal, outside the stated range
    return ("lit", v)


def fns_returning(reg, rets):
    return [f for f in reg if f[2] in rets]


def gen_call(rng, names, reg, depth, rets):
    cands = fns_returning(reg, rets)
    if not cands: return None
    f = rng.choice(cands)
    return ("call", f[0], [gen_arg(rng, names, reg, depth - 1, t) for t in f[1]])


def gen_arg(rng, names, reg, depth, t):
    if t == 1: return gen_comparable(rng, names, reg, depth)
    if t == 2: return gen_test(rng, names, reg, depth)
    r = rng.random()
    if r < 0.2 and depth > 0:
        c = gen_call(rng, names, reg, depth, [3])
        if c: return c
    return (rng.choice(["rel", "abs"]), rand_segments(rng, names, depth > 0, reg, depth - 1, 2))


def gen_comparable(rng, names, reg, depth):
    r = rng.random()
    if r < 0.35: return rand_literal(rng)
    if r < 0.8 or depth <= 0: return (rng.choice(["rel", "rel", "abs"]), rand_singular(rng, names))
    c = gen_call(rng, names, reg, depth, [1])
    return c or rand_literal(rng)


def gen_test(rng, names, reg, depth):
    r = rng.random()
    if depth <= 0 or r < 0.3:
        if rng.random() < 0.5:
            return (rng.choice(["rel", "rel", "abs"]), rand_segments(rng, names, depth > 0, reg, depth - 1, 2))
        return ("cmp", rng.choice(["==", "!=", "<", "<=", ">", ">="]), gen_comparable(rng, names, reg, depth - 1), gen_comparable(rng, names, reg, depth - 1))
    if r < 0.45: return ("not", gen_test(rng, names, reg, depth - 1))
    if r < 0.6: return ("and", gen_test(rng, names, reg, depth - 1), gen_test(rng, names, reg, depth - 1))
    if r < 0.75: return ("or", gen_test(rng, names, reg, depth - 1), gen_test(rng, names, reg, depth - 1))
    if r < 0.9:
        c = gen_call(rng, names, reg, depth, [2, 3])
        if c: return c
    return ("cmp", rng.choice(["==", "!=", "<", "<=", ">", ">="]), gen_comparable(rng, names, reg, depth - 1), gen_comparable(rng, names, reg, depth - 1))


def rand_query(rng, names=None, filters=True, reg=None, depth=2, maxseg=3):
    names = names or SIMPLE_NAMES
    reg = BUILTINS if reg is None else reg
    return rand_segments(rng, names, filters, reg, depth, maxseg)


# ---------------------------------------------------------------- rendering
def is_shorthand(name):
    if not name: return False
    def first(c): return c.isascii() and (c.isalpha() or c == "_") or (0x80 <= ord(c) <= 0xD7FF or 0xE000 <= ord(c) <= 0x10FFFF)
    return first(name[0]) and all(first(c) or c in "0123456789" for c in name[1:])


def blank(rng, p=0.15):
    return rng.choice([" ", "  ", "\t", "\n", "\r", " \n "]) if rng.random() < p else ""


ESC = {"\b": "\\b", "\f": "\\f", "\n": "\\n", "\r": "\\r", "\t": "\\t", "\\": "\\\\"}


def render_str(rng, s, canonical=False):
    q = "'" if canonical or rng.random() < 0.5 else '"'
    out = [q]
    for c in s:
        o = ord(c)
        if c == q: out.append("\\" + c)
        elif c in ESC: out.append(ESC[c] if (canonical or rng.random() < 0.8) else "\\u%04x" % o)
        elif o < 0x20: out.append("\\u%04x" % o if (canonical or rng.random() < 0.5) else "\\u%04X" % o)
        elif c == "/" and not canonical and rng.random() < 0.3: out.append("\\/")
        elif not canonical and rng.random() < (0.5 if o >= 0x10000 else 0.08):
            if o < 0x10000 and not (0xD800 <= o <= 0xDFFF): out.append(("\\u%04x" if rng.random() < 0.5 else "\\u%04X") % o)
            elif o >= 0x10000:
                v = o - 0x10000
                out.append("\\u%04x\\u%04X" % (0xD800 + (v >> 10), 0xDC00 + (v & 0x3FF)))
            else: out.append(c)
        else: out.append(c)
    out.append(q)
    return "".join(out)


def render_int(rng, i): return str(i)


def render_num(rng, v):
    """any RFC spelling of the number: integer part, optional fraction, optional exponent in either case and sign"""
    if isinstance(v, int):
        if v == 0 and rng.random() < 0.5:
            return rng.choice(["0", "-0", "0e0", "0E1", "-0E2", "0e+3", "0E+0", "-0e0"])
        if rng.random() < 0.3 and v != 0 and v % 10 == 0:
            k = 0; m = v
            while m % 10 == 0 and m != 0: m //= 10; k += 1
            j = rng.randint(1, k)                      # move j of the k trailing zeros into the exponent
            return "%d%s%s%s%d" % (m, "0" * (k - j), rng.choice("eE"), rng.choice(["", "+"]), j)
        if rng.random() < 0.1:
            return "%d%s%s0" % (v, rng.choice("eE"), rng.choice(["", "+"]))
        return str(v)
    r = repr(v)
    if "inf" in r or "nan" in r: raise ValueError(r)
    if "e" not in r and "." not in r: r += ".0"
    if rng.random() < 0.5:
        import decimal, math
        with decimal.localcontext() as ctx:
            ctx.prec = 60
            d = decimal.Decimal(r)
            k = rng.randint(-3, 3)
            body = format(d.scaleb(-k), "f")
        if rng.random() < 0.3 and "." in body: body += "0" * rng.randint(1, 2)
        if k < 0: ex = rng.choice("eE") + str(k)
        elif k == 0: ex = rng.choice(["", "e0", "E+0", "e-0", "E-0"])
        else: ex = rng.choice("eE") + rng.choice(["", "+"]) + str(k)
        if "." not in body and "-" not in ex: body += ".0"          # without a fraction or a negative exponent it would be an integer literal
        t = body + ex
        try:
            if float(t) == v and math.copysign(1, float(t)) == math.copysign(1, v): return t
        except ValueError: pass
    return r.replace("e", rng.choice("eE")) if rng.random() < 0.3 else r


def render_lit(rng, v):
    if v is None: return "null"
    if v is True: return "true"
    if v is False: return "false"
    if isinstance(v, str): return render_str(rng, v)
    return render_num(rng, v)


def render_sel(rng, s):
    k = s[0]
    if k == "name": return render_str(rng, s[1])
    if k == "index": return str(s[1])
    if k == "wild": return "*"
    if k == "slice":
        a, b, c = s[1:]
        f = lambda x: "" if x is None else str(x)
        t = f(a) + blank(rng) + ":" + blank(rng) + f(b)
        if c is not None or rng.random() < 0.3: t += blank(rng) + ":" + blank(rng) + f(c)
        return t
    return "?" + blank(rng) + render_expr(rng, s[1], 0)


def render_segments(rng, segs, in_filter=False):
    out = []
    for kind, sels in segs:
        short = len(sels) == 1 and rng.random() < 0.6
        if short and sels[0][0] == "name" and is_shorthand(sels[0][1]):
            out.append(("." if kind == "child" else "..") + sels[0][1])
        elif short and sels[0][0] == "wild":
            out.append((".*" if kind == "child" else "..*"))
        else:
            body = (blank(rng) + "," + blank(rng)).join(render_sel(rng, s) for s in sels)
            out.append(("" if kind == "child" else "..") + "[" + blank(rng) + body + blank(rng) + "]")
        out[-1] = blank(rng, 0.12 if in_filter else 0.05) + out[-1]     # segments = *(S segment): also inside filters, after @ / $ and between segments
    return "".join(out)


PREC = {"or": 1, "and": 2, "not": 4, "cmp": 3}


def render_expr(rng, e, parent):
    """parent: 0 top / inside parens, 8 function argument, 1 operand of ||, 2 operand of &&, 4 operand of !, 9 comparand"""
    k = e[0]
    if k == "lit": return render_lit(rng, e[1])
    if k in ("rel", "abs"):
        t = ("@" if k == "rel" else "$") + render_segments(rng, e[1], True)
    elif k == "call":
        t = e[1] + "(" + blank(rng) + (blank(rng) + "," + blank(rng)).join(render_expr(rng, a, 8) for a in e[2]) + blank(rng) + ")"
    elif k == "cmp":
        t = render_expr(rng, e[2], 9) + blank(rng, 0.5) + e[1] + blank(rng, 0.5) + render_expr(rng, e[3], 9)
        if parent >= 4: return "(" + t + ")"
        return wrap(rng, t)
    elif k == "not":
        inner = render_expr(rng, e[1], 4)
        t = "!" + blank(rng) + inner
        if parent >= 4: return "(" + t + ")"
        return wrap(rng, t)
    else:
        p = PREC[k]
        op = " && " if k == "and" else " || "
        # the parser is left-associative: a right operand of the same operator needs parentheses
        l = render_expr(rng, e[1], p)
        r = render_expr(rng, e[2], p)
        t = l + op.strip().join([blank(rng, 0.7) or "", blank(rng, 0.7) or ""]) + r if False else l + (blank(rng, 0.7)) + op.strip() + (blank(rng, 0.7)) + r
        if parent > p or (parent == p + 0.5): return "(" + blank(rng) + t + blank(rng) + ")"
        if parent >= 4: return "(" + t + ")"
        return wrap(rng, t)
    if parent in (8, 9): return t     # comparable position, or a query / call / literal as function argument: parentheses would make it a
                                      # logical expression (RFC 9535 2.4.3), admitted for LogicalType parameters only
    return wrap(rng, t)


def wrap(rng, t):
    return "(" + t + ")" if rng.random() < 0.07 else t


def render_query(rng, segs):
    return "$" + render_segments(rng, segs)


# ---------------------------------------------------------------- wire coding of ASTs
OPS = {"==": 0, "!=": 1, "<": 2, "<=": 3, ">": 4, ">=": 5}


def enc_sel(s):
    k = s[0]
    if k == "name": return [0] + wire.enc_str(s[1])
    if k == "index": return [1, s[1]]
    if k == "slice": return [2] + wire.enc_opt(wire.enc_z, s[1]) + wire.enc_opt(wire.enc_z, s[2]) + wire.enc_opt(wire.enc_z, s[3])
    if k == "wild": return [3]
    return [4] + enc_expr(s[1])


def enc_expr(e):
    k = e[0]
    if k == "lit": return [0] + wire.enc_json(e[1])
    if k == "rel": return [1] + enc_segs(e[1])
    if k == "abs": return [2] + enc_segs(e[1])
    if k == "call": return [3] + wire.enc_str(e[1]) + wire.enc_list(enc_expr, e[2])
    if k == "not": return [4] + enc_expr(e[1])
    if k == "and": return [5] + enc_expr(e[1]) + enc_expr(e[2])
    if k == "or": return [6] + enc_expr(e[1]) + enc_expr(e[2])
    return [7, OPS[e[1]]] + enc_expr(e[2]) + enc_expr(e[3])


def enc_segs(q):
    out = [len(q)]
    for kind, sels in q:
        out += [0 if kind == "child" else 1] + wire.enc_list(enc_sel, sels)
    return out


def enc_pyobj(p):
    if p == "NOTHING": return [1]
    if p == "EMPTYNODES": return [2]
    return [0] + wire.enc_json(p)


def enc_registry(reg):
    """reg: list of (name, [arg types 1/2/3], ret type, impl code list)"""
    out = [len(reg)]
    for name, args, ret, impl in reg:
        out += wire.enc_str(name) + [len(args)] + list(args) + [ret] + list(impl)
    return out


def enc_rxtable(rows):
    out = [len(rows)]
    for search, s, p, b in rows:
        out += [1 if search else 0] + wire.enc_str(s) + wire.enc_str(p) + [1 if b else 0]
    return out


# ---------------------------------------------------------------- AST of a compiled query (implementation side)
def ast_of_query(q):
    return [ast_of_segment(s) for s in q.segments]


def ast_of_segment(s):
    kind = "desc" if type(s).__name__ == "JSONPathRecursiveDescentSegment" else "child"
    return (kind, [ast_of_selector(x) for x in s.selectors])


def ast_of_selector(s):
    n = type(s).__name__
    if n == "NameSelector": return ("name", s.name)
    if n == "IndexSelector": return ("index", s.index)
    if n == "SliceSelector": return ("slice", s.slice.start, s.slice.stop, s.slice.step)
    if n == "WildcardSelector": return ("wild",)
    if n == "FilterSelector": return ("filter", ast_of_expr(s.expression.expression))
    raise TypeError(n)


def ast_of_expr(e):
    n = type(e).__name__
    if n in ("BooleanLiteral", "StringLiteral", "IntegerLiteral", "FloatLiteral", "NullLiteral"): return ("lit", e.value)
    if n == "RelativeFilterQuery": return ("rel", ast_of_query(e.query))
    if n == "RootFilterQuery": return ("abs", ast_of_query(e.query))
    if n == "FunctionExtension": return ("call", e.name, [ast_of_expr(a) for a in e.args])
    if n == "PrefixExpression": return ("not", ast_of_expr(e.right))
    if n == "LogicalExpression": return ("and" if e.operator == "&&" else "or", ast_of_expr(e.left), ast_of_expr(e.right))
    if n == "ComparisonExpression": return ("cmp", e.operator, ast_of_expr(e.left), ast_of_expr(e.right))
    raise TypeError(n)


# ---------------------------------------------------------------- value-guided queries (more non-empty results)
def guided_sel(rng, cur, names, allow_filter, reg, depth):
    r = rng.random()
    if allow_filter and r < 0.3:
        return ("filter", gen_test(rng, (list(cur.keys()) if isinstance(cur, dict) and cur else names) if False else names, reg, depth))
    if isinstance(cur, dict) and cur and r < 0.75:
        return ("name", rng.choice(list(cur.keys())))
    if isinstance(cur, list) and cur and r < 0.8:
        n = len(cur)
        if rng.random() < 0.5: return ("index", rng.randint(-n, n - 1))
        pick = lambda: None if rng.random() < 0.4 else rng.randint(-n - 1, n + 1)
        return ("slice", pick(), pick(), rng.choice([None, 1, 2, -1, -2, 3, 0]))
    if r < 0.9: return ("wild",)
    return rand_sel(rng, names, False, reg, depth)


def step_into(rng, cur, sel):
    try:
        if sel[0] == "name": return cur[sel[1]] if isinstance(cur, dict) else None
        if sel[0] == "index": return cur[sel[1]] if isinstance(cur, list) else None
        if isinstance(cur, dict) and cur: return rng.choice(list(cur.values()))
        if isinstance(cur, list) and cur: return rng.choice(cur)
    except (KeyError, IndexError):
        return None
    return None


def guided_query(rng, v, names=None, filters=False, reg=None, depth=1, maxseg=4):
    names = names or SIMPLE_NAMES
    reg = BUILTINS if reg is None else reg
    segs, cur = [], v
    for _ in range(rng.randint(1, maxseg)):
        kind = "desc" if rng.random() < 0.25 else "child"
        n = 1 if rng.random() < 0.6 else rng.randint(1, 3)
        sels = [guided_sel(rng, cur, names, filters and depth > 0, reg, depth - 1) for _ in range(n)]
        segs.append((kind, sels))
        cur = step_into(rng, cur, sels[0])
        if kind == "desc" and cur is None: cur = v
    return segs


# ---------------------------------------------------------------- associativity normal form
def norm_assoc(x):
    """right-nest chains of && and of || (the grammar makes them flat lists; nesting carries no meaning)"""
    if isinstance(x, list): return [norm_assoc(y) for y in x]
    if not isinstance(x, tuple): return x
    if x and x[0] in ("and", "or"):
        op = x[0]
        items = []

        def flat(e):
            if isinstance(e, tuple) and e and e[0] == op: flat(e[1]); flat(e[2])
            else: items.append(norm_assoc(e))
        flat(x)
        acc = items[-1]
        for it in reversed(items[:-1]): acc = (op, it, acc)
        return acc
    return tuple(norm_assoc(y) for y in x)


# ---------------------------------------------------------------- grammatical but not necessarily well-typed
def loose_call(rng, names, reg, depth):
    if rng.random() < 0.08:
        name, arity = rng.choice(["nope", "f9", "lengthx"]), rng.randint(0, 2)
    else:
        f = rng.choice(reg)
        name = f[0]
        arity = len(f[1]) if rng.random() < 0.8 else rng.randint(0, 3)
    return ("call", name, [loose_arg(rng, names, reg, depth - 1) for _ in range(arity)])


def loose_arg(rng, names, reg, depth):
    r = rng.random()
    if r < 0.25: return rand_literal(rng)
    if r < 0.5: return (rng.choice(["rel", "abs"]), rand_singular(rng, names) if rng.random() < 0.5 else rand_segments(rng, names, False, reg, 0, 2))
    if r < 0.75 and depth > 0: return loose_call(rng, names, reg, depth)
    return loose_test(rng, names, reg, max(depth, 0))


def loose_comparable(rng, names, reg, depth):
    r = rng.random()
    if r < 0.35: return rand_literal(rng)
    if r < 0.7 or depth <= 0: return (rng.choice(["rel", "abs"]), rand_singular(rng, names))
    return loose_call(rng, names, reg, depth)


def loose_test(rng, names, reg, depth):
    r = rng.random()
    if depth <= 0 or r < 0.25:
        if rng.random() < 0.5: return (rng.choice(["rel", "abs"]), rand_segments(rng, names, False, reg, 0, 2))
        return ("cmp", rng.choice(list(OPS)), loose_comparable(rng, names, reg, depth - 1), loose_comparable(rng, names, reg, depth - 1))
    if r < 0.4: return ("not", loose_negatable(rng, names, reg, depth - 1))
    if r < 0.55: return ("and", loose_test(rng, names, reg, depth - 1), loose_test(rng, names, reg, depth - 1))
    if r < 0.7: return ("or", loose_test(rng, names, reg, depth - 1), loose_test(rng, names, reg, depth - 1))
    return loose_call(rng, names, reg, depth)


def loose_negatable(rng, names, reg, depth):
    # '!' may precede a query, a function call or a parenthesized logical expression
    return loose_test(rng, names, reg, depth)


def norm_slices(x):
    """an omitted slice step is the step 1 (RFC 9535 2.3.4.2.1 default)"""
    if isinstance(x, list): return [norm_slices(y) for y in x]
    if isinstance(x, tuple):
        if x and x[0] == "slice": return ("slice", x[1], x[2], 1 if x[3] is None else x[3])
        return tuple(norm_slices(y) for y in x)
    return x


# ---------------------------------------------------------------- single-fault ill-typed queries
def _calls(e, path=()):
    """paths to every call node inside expression e"""
    out = []
    if not isinstance(e, tuple): return out
    k = e[0]
    if k == "call":
        out.append(path)
        for i, a in enumerate(e[2]): out += _calls(a, path + (("arg", i),))
    elif k == "not": out += _calls(e[1], path + ((1,),))
    elif k in ("and", "or"): out += _calls(e[1], path + ((1,),)) + _calls(e[2], path + ((2,),))
    elif k == "cmp": out += _calls(e[2], path + ((2,),)) + _calls(e[3], path + ((3,),))
    return out


def _replace(e, path, f):
    if not path: return f(e)
    step = path[0]
    if step[0] == "arg":
        args = list(e[2]); args[step[1]] = _replace(args[step[1]], path[1:], f)
        return ("call", e[1], args)
    lst = list(e); lst[step[0]] = _replace(lst[step[0]], path[1:], f)
    return tuple(lst)


def inject_fault(rng, e, names, reg):
    """one well-typedness fault in an otherwise well-typed test expression (or None if it has no call)"""
    cs = _calls(e)
    if not cs: return None
    path = rng.choice(cs)

    def fault(call):
        name, args = call[1], list(call[2])
        f = [x for x in reg if x[0] == name][0]
        r = rng.random()
        if r < 0.2 or not args:           # wrong arity
            if args and rng.random() < 0.5: args.pop()
            else: args.append(rand_literal(rng))
            return ("call", name, args)
        i = rng.randrange(len(args))
        t = f[1][i]
        wrong = [x for x in (1, 2, 3) if x != t]
        w = rng.choice(wrong)
        # an expression of type w that is NOT acceptable for a parameter of type t
        if t == 1:      # ValueType parameter: give a non-singular query, a logical expression or a Logical/Nodes call
            cand = [("rel", [("child", [("wild",)])]), ("cmp", "==", ("rel", []), ("lit", 1)), gen_call(rng, names, reg, 1, [2, 3])]
        elif t == 2:    # LogicalType parameter: a literal or a ValueType call
            cand = [rand_literal(rng), gen_call(rng, names, reg, 1, [1])]
        else:           # NodesType parameter: a literal, a logical expression, a Value/Logical call
            cand = [rand_literal(rng), ("cmp", "==", ("rel", []), ("lit", 1)), gen_call(rng, names, reg, 1, [1]), gen_call(rng, names, reg, 1, [2]),
                    ("not", ("rel", [("child", [("name", "a")])]))]
        cand = [c for c in cand if c is not None]
        args[i] = rng.choice(cand)
        return ("call", name, args)
    return _replace(e, path, fault)
