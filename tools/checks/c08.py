"""C08 - locations and normalized paths."""
from vlib import gen, harness, wire
from vlib.runner import Case

PID = "C08"
PROPS = ["Props/C08.v"]
GEN = []
MODEL_IS_SPEC = False
RULE = ("(query, value) pairs where member names range over every code point U+0000-U+02FF, the BMP boundaries, DEL, U+2028, non-BMP and the empty name, and arrays are reached "
        "through negative indices and reverse slices; for every node returned: following node.location from the root reaches the identical object (is), node.path() equals the Coq "
        "normalized path of the location, find(path) on the same value returns exactly that node; values()/paths()/items() agree with the nodes; path text also compared with the "
        "serializer model; non-trivial = at least one node with a non-empty location; distinct = distinct (text, value)")
TRUSTED_BASE = [
    "Coq 8.16.1 kernel; theorems closed under the global context",
    "Spec/NormPath.v as a reading of RFC 9535 2.7",
    "Model/Serialize.v (m_path, m_canonical_string = json.dumps escaping + two replace passes) and Model/Eval.v locations; tied to the code by correspondence",
    "object identity (is) is checked by the harness only; the model has values, not objects",
    "extraction (ExtrOcamlBasic only) and the OCaml integer driver",
]
ASSUMPTIONS = ["member names are sequences of Unicode scalar values"]
TECHNIQUE = "Coq proofs that the location of every selected node addresses its value, that the serializer prints the RFC normalized path, and - end to end through the lexer, parser and evaluator models - that the printed path compiles and selects exactly that node; differential runs checking identity, path text and re-query on names over all code point classes"
LEVEL = "proof"
LEVEL_TEXT = ("Theorems C08_location (every node of every result, filters included, lies at its location), C08_path_canonical (node.path() is the RFC normalized path for every location) and "
              "C08_requery (for every location of every value, names over all scalar values: compile(path()) succeeds and find returns exactly that node - proved through Model/Lex.v, Model/Parse.v, Model/Eval.v). "
              "The models are tied to the code by differential testing on every generated node (identity, path text, re-query).")
LEVEL_NOTE = "Trusted: Coq kernel; Spec/NormPath.v; json.dumps model; correspondence; extraction and driver."
norm_reply = harness.norm_reply


def follow(v, loc):
    for k in loc:
        v = v[k]
    return v


def cases(ctx, budget):
    rng = ctx.rng
    env = harness.make_env()
    n = (2500 if ctx.quick else 100000) * budget
    sweep = [chr(c) for c in range(0, 0x300)] + ["퟿", "", "￿", "\U00010000", "\U0010FFFF", "\U0001F600", " ", "", "'\"\\", "\\'", "a'b\"c\\d", "\\\"", "\\\\'", "e\u0301", "\u212b", "\u1100\u1161", "\u2126", "A\u030a", "\u212a", "\uf900", "\u037e", " a", "a ", "\u00df", "\u0130", "\ufb01", "\uff41", "a\u200b", "\ufeffa", "\u00ad"]
    if not ctx.quick:
        sweep += [chr(rng.choice([rng.randint(0x300, 0xd7ff), rng.randint(0xe000, 0x10ffff)])) for _ in range(20000)]
    k = 0

    def one(text, v, kind):
        try:
            nodes = env.find(text, v)
        except Exception as ex:
            return Case({"text": text, "value": v}, None, wire.enc_exception(ex)[:2], None, None, True, kind)
        problems = []
        if nodes.values() != [nd.value for nd in nodes] or nodes.paths() != [nd.path() for nd in nodes] or \
                nodes.items() != [(nd.path(), nd.value) for nd in nodes]:
            problems.append("values()/paths()/items() disagree with the nodes")
        for nd in nodes[:12]:
            try:
                if follow(v, nd.location) is not nd.value: problems.append("location does not reach node.value")
            except Exception as ex:
                problems.append("location cannot be followed: %r" % (ex,))
            if any(isinstance(x, int) and x < 0 for x in nd.location): problems.append("negative index in a location")
            try:
                back = env.find(nd.path(), v)
                if len(back) != 1 or back[0].location != nd.location or back[0].value is not nd.value:
                    problems.append("re-querying the path does not return exactly this node")
            except Exception as ex:
                problems.append("normalized path does not compile: %s" % (ex,))
        locs = [nd.location for nd in nodes[:12]]
        out = wire.enc_list(lambda p: wire.enc_str(p), [nd.path() for nd in nodes[:12]])
        return locs, out, problems, len(nodes)

    def mk(text, v, kind):
        r = one(text, v, kind)
        if isinstance(r, Case): return [r]
        locs, out, problems, cnt = r
        res = []
        if problems:
            res.append(Case({"text": text, "value": v, "problems": problems}, None, [9], [118, 0], None, True, kind, True, lambda a, b, p=problems: "; ".join(p[:3])))
        for i, loc in enumerate(locs[:4]):
            enc = wire.enc_list(wire.enc_key, list(loc))
            path_out = wire.enc_str(env.find(text, v)[i].path())
            res.append(Case({"text": text, "value": v, "location": list(loc)}, [6] + enc, path_out, [118] + enc, None, len(loc) > 0, kind))
        return res
    # sweep: one object per name, reached by wildcard and by descendant
    for nm in sweep:
        v = {nm: [1, {nm: 2}], "z": 0}
        for c in mk("$..*", v, "sweep"): yield c
    for _ in range(n):
        names = gen.NAMES
        v = gen.rand_json(rng, depth=rng.randint(1, 4), fan=4, names=names, top=True)
        q = gen.guided_query(rng, v, names=names, filters=rng.random() < 0.3, depth=2, maxseg=4)
        if rng.random() < 0.3: q.append(("child", [rng.choice([("index", -1), ("slice", None, None, -1), ("slice", -1, None, -2), ("wild",)])]))
        text = gen.render_query(rng, q)
        for c in mk(text, v, "random"): yield c


def replay(ctx, data):
    import json
    print(json.dumps(data.get("case"), indent=1, default=str)); return 0
