"""C15 - all entry points agree."""
from vlib import gen, harness, wire
from vlib.runner import Case

PID = "C15"
PROPS = ["Props/C15.v"]
GEN = ["Api.v"]
MODEL_IS_SPEC = False
RULE = ("valid queries (filter-free and with filters), invalid queries (one per error class: syntax, type, index, name) and JSON values, including documents that are strings holding JSON text; each pair goes through the 11 public entry points "
        "(module find/finditer/find_one/compile, environment find/finditer/find_one/compile, compiled find/apply/finditer/find_one); the results are compared pairwise "
        "(find == list(finditer), find_one == first or None, same error class everywhere) and the list result with the model; each valid pair also runs a random HISTORY of 2-5 calls on one compiled query (find_one, abandoned iterators, two interleaved iterators, another value) whose every result must equal a fresh call; non-trivial = result non-empty or an error; "
        "distinct = distinct (text, value)")
TRUSTED_BASE = [
    "Coq 8.16.1 kernel; theorems closed under the global context",
    "tools/pygen/gen_api.py: fail-closed recognition of the entry-point method bodies (Gen/Api.v is regenerated on every run); Model/ApiLang.v gives the recognised shapes their meaning",
    "iterators are modelled by the sequence they yield when run to completion (laziness is not observable through these entry points except on evaluation errors)",
    "extraction (ExtrOcamlBasic only) and the OCaml integer driver",
]
ASSUMPTIONS = ["evaluation errors (JSONPathRecursionError) are outside this check: C18"]
TECHNIQUE = "entry-point definitions regenerated from the source by a fail-closed translator; Coq theorems (by computation on the regenerated terms) that all paths agree; differential run of the 11 entry points"
LEVEL_TEXT = ("Theorems C15_find_is_list_of_iter, C15_apply_is_find, C15_find_one_is_head, C15_paths_agree, C15_same_error over the regenerated entry points (an edit to any of the method bodies "
              "changes Gen/Api.v or makes the translator fail closed). All 11 entry points are also exercised against each other and the model on generated inputs.")
LEVEL_NOTE = "Trusted: Coq kernel; the translator gen_api.py and the meaning ApiLang.v gives to the shapes it recognises; correspondence; extraction and driver."
norm_reply = harness.norm_reply

INVALID = ["$[", "$.a.", "$[?length(@.a)]", "$[?count(1) == 1]", "$[9007199254740992]", "$[?nope(@)]", "$[?@.a == ]", "", "$..", "$[?@.* == 1]", "$['\\x']"]


def cases(ctx, budget):
    import jsonpath_rfc9535 as jp
    rng = ctx.rng
    n = (2500 if ctx.quick else 100000) * budget
    env = jp.JSONPathEnvironment()
    reg = gen.enc_registry(gen.BUILTINS)
    rx = []
    renv = harness.make_env(record_rx=rx)      # only to observe what match()/search() answered: the model takes the regex results as a table

    def run(fn):
        try:
            r = fn()
            if r is None: return ("none",)
            if isinstance(r, jp.JSONPathNode): return ("one", r.location, wire.enc_json(r.value))
            return ("list", [(nd.location, wire.enc_json(nd.value)) for nd in r])
        except Exception as ex:
            return ("err", type(ex).__name__)

    def compiled(e, text, f):
        return f(e.compile(text))
    for i in range(n):
        r = rng.random()
        names = gen.SIMPLE_NAMES
        v = gen.rand_json(rng, depth=rng.randint(0, 3), fan=4, names=names, top=rng.random() < 0.8)
        if i % 25 == 7:
            # a document that is a JSON string whose text is itself JSON: it is data, never decoded, on every entry point
            v = rng.choice(["1", "true", "null", "[1, 2]", '{"a": 1}', '"x"', "0", "[]", '{"a": {"b": [1]}}', " 1 ", "1e2"])
            text = rng.choice(["$", "$[0]", "$.a", "$..*", "$[*]", "$[?@ == 1]", "$.a.b[0]", "$[-1]", "$[0:1]"])
        elif r < 0.15:
            text = rng.choice(INVALID)
        elif r < 0.3:
            text = harness.mutate_text(rng, gen.render_query(rng, gen.rand_query(rng, names=names, depth=2)))
        else:
            q = gen.guided_query(rng, v, names=names, filters=rng.random() < 0.5, depth=2, maxseg=3) if rng.random() < 0.6 else gen.rand_query(rng, names=names, depth=2)
            text = gen.render_query(rng, q)
        paths = {
            "module.find": run(lambda: jp.find(text, v)),
            "module.finditer": run(lambda: list(jp.finditer(text, v))),
            "module.find_one": run(lambda: jp.find_one(text, v)),
            "module.compile.find": run(lambda: jp.compile(text).find(v)),
            "env.find": run(lambda: env.find(text, v)),
            "env.finditer": run(lambda: list(env.finditer(text, v))),
            "env.find_one": run(lambda: env.find_one(text, v)),
            "compiled.find": run(lambda: compiled(env, text, lambda c: c.find(v))),
            "compiled.apply": run(lambda: compiled(env, text, lambda c: c.apply(v))),
            "compiled.finditer": run(lambda: compiled(env, text, lambda c: list(c.finditer(v)))),
            "compiled.find_one": run(lambda: compiled(env, text, lambda c: c.find_one(v))),
        }
        ref = paths["env.find"]
        problems = []
        # histories on ONE compiled query: a compiled query holds no state between calls, so what it returned before (a find_one that
        # stopped early, an iterator abandoned half-way, a different value) cannot change what find() returns now
        if ref[0] != "err":
            v2 = gen.rand_json(rng, depth=rng.randint(0, 3), fan=4, names=names, top=True)
            fresh2 = run(lambda: env.find(text, v2))
            c = env.compile(text)
            hist = []
            for step in range(rng.randint(2, 5)):
                op = rng.choice(["find_one", "partial", "find", "find2", "two_iters"])
                hist.append(op)
                if op == "find_one": got, want = run(lambda: c.find_one(v)), (("none",) if not ref[1] else ("one", ref[1][0][0], ref[1][0][1]))
                elif op == "partial":
                    it = c.finditer(v); k = rng.randint(0, 2)
                    got = run(lambda: [nd for nd, _ in zip(it, range(k))]); want = ("list", ref[1][:k])
                elif op == "find": got, want = run(lambda: c.find(v)), ref
                elif op == "find2": got, want = run(lambda: c.find(v2)), fresh2
                else:
                    def two():
                        a, b = iter(c.finditer(v)), iter(c.finditer(v2)); out = []      # finditer returns an Iterable (a list for "$")
                        for _ in range(3):
                            out.append(next(a, None)); next(b, None)
                        return [nd for nd in out if nd is not None] + list(a)
                    got, want = run(two), ref
                if got != want:
                    problems.append("compiled query reused: after %s, %s returned %r instead of %r" % (hist[:-1], op, got, want)); break
        for k, p in paths.items():
            if ref[0] == "err":
                if p != ref: problems.append("%s: %r instead of %r" % (k, p, ref))
            elif k.endswith("find_one"):
                want = ("none",) if not ref[1] else ("one", ref[1][0][0], ref[1][0][1])
                if p != want: problems.append("%s is not the first element of find()" % k)
            elif p != ref:
                problems.append("%s differs from env.find" % k)
        if ref[0] == "err":
            out = [1, wire.ERR.get(ref[1], 0)] if ref[1] in wire.ERR else [2, wire.EXN.get(ref[1], 99)]
        else:
            out = [0, len(ref[1])]
            for loc, val in ref[1]: out += wire.enc_list(wire.enc_key, list(loc)) + val
        kind = "invalid" if ref[0] == "err" else "valid"
        del rx[:]
        try: renv.find(text, v)
        except Exception: pass
        yield Case({"text": text, "value": v}, [4, 100] + reg + gen.enc_rxtable(list(dict.fromkeys(rx))) + wire.enc_str(text) + wire.enc_json(v), out, None, None,
                   ref[0] == "err" or bool(ref[1]), kind)
        if problems:
            yield Case({"text": text, "value": v, "problems": problems[:4]}, None, [9], [118, 0], None, True, kind, True, lambda a, b, p=problems: "; ".join(p[:3]))


def replay(ctx, data):
    import json
    print(json.dumps(data.get("case"), indent=1, default=str)); return 0
