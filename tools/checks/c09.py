"""C09 - string literal decoding."""
from vlib import gen, harness, wire
from vlib.runner import Case

PID = "C09"
PROPS = ["Props/C09.v"]
GEN = ['LexConst.v']
MODEL_IS_SPEC = False
RULE = ("string literal bodies built from items: raw characters of every class (ASCII, DEL, Latin-1, U+2028, BMP boundaries D7FF/E000/FFFF, non-BMP, the other quote), "
        "each two-character escape, the escaped own quote, \\uXXXX in lower/upper/mixed hex case for sampled and boundary code points incl. U+0000-U+001F, surrogate pairs at all four "
        "range corners and sampled, and malformed items (raw control characters, unknown escapes, truncated \\u, the other quote escaped, unpaired/reversed surrogate escapes); both quote "
        "styles; in name-selector and in comparison-literal position; expected value computed by the Coq RFC decoder; non-trivial = body has at least one escape or non-ASCII item")
TRUSTED_BASE = [
    "Coq 8.16.1 kernel; theorems closed under the global context",
    "Spec/StringLit.v spec_decode as a reading of RFC 9535 2.3.1.2 / Table 4 / ABNF string-literal",
    "Model/Lex.v (string states) and Model/Parse.v (decode_string_literal and helpers) tied to the code by correspondence",
    "extraction (ExtrOcamlBasic only) and the OCaml integer driver",
]
ASSUMPTIONS = ["strings are sequences of Unicode scalar values"]
TECHNIQUE = "Coq proof that the model of _decode_string_literal/_unescape_string (index arithmetic, two str.replace passes) equals the RFC decoder on every lexer-accepted body; differential runs of compile() on generated literals"
LEVEL = "proof"
LEVEL_TEXT = ("Theorems in Props/C09.v: C09_decode (both quote styles, every body the lexer lets through: the parser model's decoding, including the two str.replace passes and the index arithmetic, "
              "equals the RFC value and rejects exactly the non-derivable bodies, never IndexError); C09_literal_end_to_end (from any lexer state the string states turn a body the RFC derives plus its closing quote "
              "into one token holding that body, and the parser decodes it to the RFC value); C09_lexer_rejects; surrogate-pair arithmetic for all 1024x1024 pairs. "
              "C09_name_selector_in_query / C09_comparison_in_query: the literal inside whole queries - compile of $[<lit>] and of $[?@==<lit>] returns the query holding the RFC value, for every derivable body in either quote style. "
              "The model itself is tied to the code by differential testing in both literal positions.")
LEVEL_NOTE = "Trusted: Coq kernel; Spec/StringLit.v as a reading of the RFC; correspondence; extraction and driver."

SIMPLE = ["\\b", "\\f", "\\n", "\\r", "\\t", "\\/", "\\\\"]
RAW = ["a", "b", "Z", "0", " ", "~", "\x7f", "é", " ", "퟿", "", "￿", "\U00010000", "\U0001F600", "\U0010FFFF", "/", "$", "[", "]", "?", "@", "*", ",", ":",
       # characters and sequences that Unicode normalisation would rewrite (combining marks after a base letter, compatibility characters, jamo)
       "e\u0301", "\u212b", "\u2126", "\u212a", "\u1100\u1161", "\uf900", "\u037e", "\u0301",
       "\u00df", "\u0130", "\ufb01", "\uff41", "\u200b", "\ufeff", "\u00ad", "\u1e9e"]
BADRAW = ["\x00", "\x01", "\x08", "\t", "\n", "\r", "\x1f"]


def hexcase(rng, s):
    m = rng.random()
    if m < 0.4: return s.lower()
    if m < 0.8: return s.upper()
    return "".join(c.upper() if rng.random() < 0.5 else c.lower() for c in s)


def item(rng, q):
    r = rng.random()
    other = '"' if q == "'" else "'"
    if r < 0.22: return rng.choice(RAW)
    if r < 0.27: return other
    if r < 0.32: return "\\" + q
    if r < 0.45: return rng.choice(SIMPLE)
    if r < 0.62:
        cp = rng.choice([0, 1, 8, 9, 10, 13, 0x1f, 0x20, 0x22, 0x27, 0x5c, 0x7f, 0x80, 0xff, 0x2028, 0xd7ff, 0xe000, 0xffff, rng.randint(0, 0xd7ff), rng.randint(0xe000, 0xffff)])
        return "\\u" + hexcase(rng, "%04x" % cp)
    if r < 0.75:
        h = rng.choice([0xd800, 0xdbff, rng.randint(0xd800, 0xdbff)]); l = rng.choice([0xdc00, 0xdfff, rng.randint(0xdc00, 0xdfff)])
        return "\\u" + hexcase(rng, "%04x" % h) + "\\u" + hexcase(rng, "%04x" % l)
    if r < 0.8: return rng.choice(BADRAW)
    if r < 0.85: return "\\" + rng.choice(["x", "a", "0", "U", "B", "N", " ", "é", other, "'" if q == '"' else '"'])
    if r < 0.9: return "\\u" + "".join(rng.choice("0123456789abcdefABCDEFg-") for _ in range(rng.randint(0, 4)))
    if r < 0.95:
        k = rng.random()
        h = "%04x" % rng.randint(0xd800, 0xdbff); l = "%04x" % rng.randint(0xdc00, 0xdfff)
        if k < 0.25: return "\\u" + h
        if k < 0.5: return "\\u" + l
        if k < 0.75: return "\\u" + l + "\\u" + h
        return "\\u" + h + rng.choice(["\\n", "a", "\\u0041", "\\u" + h])
    return rng.choice(RAW) + rng.choice(RAW)


def cases(ctx, budget):
    rng = ctx.rng
    env = harness.make_env()
    reg = gen.BUILTINS
    n = (5000 if ctx.quick else 250000) * budget

    def mk(q, body, pos):
        text = ("$[%s%s%s]" if pos == "name" else "$[?@==%s%s%s]") % (q, body, q)
        out, _ = harness.impl_compile(env, text)

        def chk(impl_out, spec, pos=pos):
            if spec[0] == 0:
                return None if impl_out[0] == 1 else "a literal the RFC does not allow was not rejected with a JSONPathError"
            val = "".join(chr(c) for c in spec[2:])
            want = [("child", [("name", val)])] if pos == "name" else [("child", [("filter", ("cmp", "==", ("rel", []), ("lit", val)))])]
            if impl_out != [0] + gen.enc_segs(want): return "literal decoded to a different string (or rejected)"
            return None
        nontriv = "\\" in body or any(ord(c) > 127 for c in body)
        return Case({"text": text, "quote": q, "position": pos}, harness.compile_req(reg, text), out, [110, ord(q)] + wire.enc_str(body), None, nontriv, pos, True, chk)
    # systematic: every escape alone, boundary code points, all four corners of the surrogate ranges
    for q in ("'", '"'):
        for pos in ("name", "literal"):
            for it in SIMPLE + ["\\" + q, "\\'", '\\"'] + RAW + BADRAW + ["\\u0000", "\\u001F", "\\u001f", "\\u0020", "\\uD7FF", "\\ud7ff", "\\uE000", "\\uFFFF", "\\uffff",
                                                                          "\\uD800\\uDC00", "\\uD800\\uDFFF", "\\uDBFF\\uDC00", "\\udbff\\udfff", "\\uD800", "\\uDC00", "\\uDC00\\uD800",
                                                                          "\\uD800\\u0041", "\\u12", "\\u", "\\", "\\x", "\\u00G0", "\\uD83D\\uDE00", "\\ud83d\\ude00"]:
                if q in it.replace("\\" + q, ""): continue
                yield mk(q, it, pos)
    for _ in range(n):
        q = rng.choice(["'", '"'])
        body = "".join(item(rng, q) for _ in range(rng.randint(0, 6)))
        if q in body.replace("\\\\", "").replace("\\" + q, ""):
            continue
        yield mk(q, body, rng.choice(["name", "literal"]))


def replay(ctx, data):
    import json
    print(json.dumps(data.get("case"), indent=1, default=str)); return 0
