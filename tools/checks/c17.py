"""C17 - nondeterministic mode."""
from vlib import gen, harness, wire, chooser
from vlib.runner import Case

PID = "C17"
PROPS = ["Props/C17.v"]
GEN = []
MODEL_IS_SPEC = False
RULE = ("(a) small JSON values (<= 7 nodes, object/array mixes, scalars and empty containers): EVERY outcome of the random choices of the descendant traversal is enumerated on the real code "
        "(random.randrange / random.shuffle replaced by an enumerating chooser); each outcome is compared, script by script, with the choice-script model, checked against the Coq "
        "predicate valid_order, every outcome must be in the Coq enumeration of all valid orders, and the set of container orders produced must equal the set of container orders of that enumeration (exhaustiveness: scalars are visited as soon as their turn comes, which cannot change any result); (b) random queries x values in nondeterministic mode with "
        "random seeds: the result must be a permutation of the deterministic RFC nodelist; (c) descendant queries with name / index / slice selectors on small values: every outcome of env.find is enumerated and the set of results must equal the set obtained by applying the selectors along every valid order; (d) whole queries whose selectors shuffle too (wildcard / filter on objects, child and descendant segments, several segments, queries nested in filters): every outcome of find() is enumerated; the complete set must equal the Coq enumeration nd_results of what RFC 9535 permits, and outcome by outcome the model m_find_nd, run on the scripts of that outcome regrouped per random episode (one shuffle of a selector, one traversal) and per segment, must return the same nodelist; non-trivial = value has an object with >= 2 members or nested containers; distinct = distinct (value, script)")
TRUSTED_BASE = [
    "Coq 8.16.1 kernel; theorems closed under the global context",
    "Spec/Nondet.v: valid_order / all_orders as a reading of RFC 9535 2.5.2.2 (parent before child, array elements in order, object members free)",
    "Model/NdVisit.v hand-written from _nondeterministic_visit / _nondeterministic_children; tied to the code script by script",
    "Model/NdEval.v hand-written from WildcardSelector.resolve / FilterSelector.resolve / the segments' resolve in nondeterministic mode: every random episode takes its own script from a supply; queries nested in filters are evaluated deterministically (only their truth value, count or single value is used); tied to the code outcome by outcome, the harness regrouping the recorded choices per episode (attribution through the callers' frames: self / node / root; when the frames do not have that shape only the outcome sets are compared)",
    "Spec/NondetQ.v: nd_permitted (relation, what the theorems are about) and nd_results (enumeration, what the check compares outcome sets with); C17_enumeration_exact: the enumeration lists exactly the nodelists the relation holds of",
    "tools/vlib/chooser.py replaces the random module's functions inside the harness process (no hook in the library)",
    "extraction (ExtrOcamlBasic only) and the OCaml integer driver",
]
ASSUMPTIONS = ["random.randrange / random.shuffle may return any value of their range (that is what 'every outcome' means)"]
TECHNIQUE = "choice-script model of the traversal and of whole-query evaluation; Coq proofs that every script yields a valid order (simulation by a frontier-of-queues relation, potential function for the loop bound) and that every valid order is reached by a constructed script; Coq enumeration of all valid orders; exhaustive enumeration of the real code's random outcomes on small inputs compared per script and as sets"
LEVEL = "proof"
LEVEL_TEXT = ("Props/C17.v: C17_valid - for every value, depth limit and script of random choices, whatever the traversal model returns is a valid order (every node once, parents first, "
              "array elements in index order); C17_exhaustive - conversely, for every valid order of a value within the depth limit there is a script on which the traversal visits the containers in exactly "
              "that order (the script is constructed: generator index for every randrange, permutation number for every shuffle), and C17_exhaustive_results - hence every nodelist a descendant segment may "
              "produce is produced; C17_loop_terminates; C17_frontier_sound; C17_valid_at / C17_exhaustive_at - both from any node of a value (relocation). Whole queries (the selectors' own shuffles, every segment, nested "
              "filters; every registry, every well-typed query): C17_query_valid - for every supply of scripts the nodelist find() returns is one RFC 9535 permits (nd_permitted); C17_query_same_nodes - it is a permutation of the "
              "deterministic RFC nodelist; C17_query_exhaustive - every permitted nodelist is returned for some supply; C17_enumeration_exact - the enumeration compared with is that relation; C17_nested_independent / C17_full_valid / C17_full_exhaustive - the same with the random choices made by queries nested in filters modelled too (Model/NdEval2.v): they never change the result. For every small value the real code's complete outcome set equals the specification's, outcome by outcome equal to the model.")
LEVEL_NOTE = "Trusted: Coq kernel; Spec/Nondet.v, Spec/NondetQ.v; Model/NdVisit.v, Model/NdEval.v, Model/NdEval2.v tied script by script (episodes attributed through the callers' frames); chooser; extraction and driver."
norm_reply = harness.norm_reply


def count_nodes(v):
    if isinstance(v, list): return 1 + sum(count_nodes(x) for x in v)
    if isinstance(v, dict): return 1 + sum(count_nodes(x) for x in v.values())
    return 1


def small_values(rng, n):
    fixed = [{"a": {"x": [1], "y": [2]}, "b": [3]}, [[[1]]], {"a": 1, "b": 2, "c": 3}, [1, [2, 3], {"a": 4}], {"a": [1, 2], "b": {"c": []}}, [], {}, 5, [{}, {}],
             {"a": {"b": {"c": 1}}}, [[1, 2], [3, 4]], {"x": [[], {}], "y": 0}, {"a": [1], "b": [2], "c": [3]}, {"a": {}, "b": [], "c": {}}, {"a": [], "b": {}, "c": [], "d": {}},
             [{"a": [], "b": [], "c": []}], {"p": {"a": {}, "b": {}, "c": {}}},
             # three or more visited nodes with unvisited container children at once: the choice among ALL pending nodes matters, not only oldest / newest
             [[[[1]], [2]], [3]], [[[1]], [[2]], [3]], [[[[1]]], [[2]], [3]], {"a": [[[1]], [2]], "b": [3]}]
    for v in fixed: yield v
    k = 0
    while k < n:
        v = gen.rand_json(rng, depth=rng.randint(1, 3), fan=3, names=["a", "b", "c"], top=True)
        if count_nodes(v) <= 7:
            k += 1
            yield v


def cases(ctx, budget):
    import jsonpath_rfc9535 as jp
    rng = ctx.rng
    env = harness.make_env(nondeterministic=True)
    seg = env.compile("$..*").segments[0]

    class Echo:
        def resolve(self, node): yield node
    echo_seg = type(seg)(env=seg.env, token=seg.token, selectors=(Echo(),))
    nvals = (40 if ctx.quick else 1500) * budget
    cap = 3000 if ctx.quick else 40000
    for v in small_values(rng, nvals):
        outcomes = set()
        full = True
        cnt = 0

        def run(s, v=v):
            # the visiting order is observed through the segment's resolve() with a selector that yields the visited node itself
            root = jp.JSONPathNode(value=v, location=(), root=v)
            try:
                return [0, [nd.location for nd in echo_seg.resolve([root])]]
            except jp.JSONPathRecursionError:
                return [1, 6]
            except chooser.Runaway:
                return [9, 8]
        for script, out in chooser.enumerate_outcomes(run, cap, max_choices=MAX_CHOICES):
            cnt += 1
            if out[0] == 9:
                yield nonstop({"value": v, "script": script[:200]}); full = False; break
            if out[0] == 0:
                enc = [0] + wire.enc_list(lambda l: wire.enc_list(wire.enc_key, list(l)), out[1])
                outcomes.add(tuple(tuple(l) for l in out[1]))
            else:
                enc = out
            if cnt <= 400 or rng.random() < 0.05:
                yield Case({"value": v, "script": script}, [10, 100, len(script)] + script + wire.enc_json(v), enc, None, None,
                           count_nodes(v) > 2, "script")
        if cnt >= cap: full = False

        def chk(impl_out, spec, outcomes=outcomes, full=full, v=v):
            # spec: n orders, each a list of locations.  Decode to tuples of location tuples.
            pos = 1; orders = set()
            for _ in range(spec[0]):
                m = spec[pos]; pos += 1
                order = []
                for _ in range(m):
                    k = spec[pos]; pos += 1
                    loc = []
                    for _ in range(k):
                        if spec[pos] == 0:
                            n = spec[pos + 1]; loc.append("".join(chr(c) for c in spec[pos + 2:pos + 2 + n])); pos += 2 + n
                        else:
                            loc.append(spec[pos + 1]); pos += 2
                    order.append(tuple(loc))
                orders.add(tuple(order))
            got = set(outcomes)
            if not got <= orders: return "an outcome of the random choices is not a valid order: %r" % (sorted(got - orders)[:1],)

            def containers(order):
                def at(loc):
                    x = v
                    for kk in loc: x = x[kk]
                    return x
                return tuple(l for l in order if isinstance(at(l), (list, dict)))
            # scalars are visited as soon as their turn comes (nothing can be selected from them): exhaustiveness is about containers
            if full and {containers(o) for o in orders} != {containers(o) for o in got}:
                return "a valid order of the containers is never produced (%d of %d)" % (len({containers(o) for o in got}), len({containers(o) for o in orders}))
            return None
        yield Case({"value": v, "outcomes": len(outcomes), "scripts": cnt, "enumeration_complete": full}, None, [len(outcomes)], [117] + wire.enc_json(v), None,
                   count_nodes(v) > 2, "outcome-set", True, chk)
    # (c) whole queries with a descendant segment whose selectors make no random choice of their own (names, indices, slices): every outcome of
    #     env.find in nondeterministic mode is enumerated; the set of results must be exactly { selectors applied along o : o a valid order }
    denv0 = harness.make_env()
    qtexts = ["$..[0]", "$..a", "$..['a', 0]", "$..[1:]", "$..['b']", "$..[-1]"]
    extra = [{"a": [1], "b": [2]}, {"p": {"a": 1}, "q": {"a": 2}}, [[[1]], [2]], {"a": {"b": [5]}, "b": [6, 7]}, [{"a": [0]}, {"a": [1]}]]
    for v in extra + list(small_values(rng, (12 if ctx.quick else 300) * budget)):
        if count_nodes(v) > 8: continue
        for qt in qtexts:
            sels = denv0.compile(qt).segments[0].selectors
            results = set(); cnt = 0; full = True

            def runq(s, v=v, qt=qt):
                try: return [0, tuple(nd.location for nd in env.find(qt, v))]
                except jp.JSONPathRecursionError: return [1, 6]
                except chooser.Runaway: return [9, 8]
            for script, out in chooser.enumerate_outcomes(runq, cap, max_choices=MAX_CHOICES):
                cnt += 1
                if out[0] == 9:
                    yield nonstop({"value": v, "query": qt, "script": script[:200]}); full = False; break
                if out[0] == 0: results.add(out[1])
            if cnt >= cap: full = False

            def chkq(impl_out, spec, results=results, full=full, v=v, sels=sels):
                pos = 1; expected = set()
                for _ in range(spec[0]):
                    m = spec[pos]; pos += 1
                    res = []
                    for _ in range(m):
                        k = spec[pos]; pos += 1
                        loc = []
                        for _ in range(k):
                            if spec[pos] == 0:
                                nn = spec[pos + 1]; loc.append("".join(chr(c) for c in spec[pos + 2:pos + 2 + nn])); pos += 2 + nn
                            else:
                                loc.append(spec[pos + 1]); pos += 2
                        x = v
                        for kk in loc: x = x[kk]
                        node = jp.JSONPathNode(value=x, location=tuple(loc), root=v)
                        for sel in sels:
                            res.extend(nd.location for nd in sel.resolve(node))
                    expected.add(tuple(res))
                if not results <= expected: return "a result of the nondeterministic query is not one RFC 9535 allows: %r" % (sorted(results - expected, key=repr)[:1],)
                if full and results != expected: return "a result RFC 9535 allows is never produced (%d of %d)" % (len(results), len(expected))
                return None
            yield Case({"value": v, "query": qt, "results": len(results), "scripts": cnt, "enumeration_complete": full}, None, [len(results)], [117] + wire.enc_json(v), None,
                       len(results) > 1, "query-outcome-set", True, chkq)
    # (d) whole queries whose selectors make random choices of their own (wildcard / filter on objects), child and descendant segments, several
    #     segments: every outcome of env.find is enumerated; its complete set must equal the Coq enumeration nd_results of what RFC 9535 permits
    #     (Spec/NondetQ.v), and, outcome by outcome, the model m_find_nd (Model/NdEval.v) run on the scripts of that outcome - regrouped per random
    #     episode and per segment - must return the same nodelist
    qtexts_d = ["$.*", "$[*]", "$.*.*", "$[*, *]", "$['a', *]", "$[?@]", "$[?@ != 1]", "$[?@.a]", "$.*[?@ != 1]", "$..*", "$..[?@ != 1]", "$..[*, 0]", "$..*.*",
                "$.a.*", "$.*.a", "$[?count(@.*) > 0]", "$[?@.*]", "$[?@..a].*", "$..a.*", "$.*..*", "$[*][?@ != 2]", "$..[?@.a]", "$[?length(@) > 0].*",
                "$[*]..[*]", "$['a', 'b']..[*]", "$.a[*]..[0]",
                # queries nested in filters that make random choices of their own, to depth 2, relative and absolute, several in one expression
                "$[?count(@..*) > 1]", "$[?@.* && @..a]", "$[?count($.*) > 1]", "$[?@[?@.*]]", "$..[?count(@.*) > 1]", "$[?@.*.*].*", "$[?value(@[?@.*]) == 1, ?@.*]"]
    dvals = [{"a": 1, "b": 2, "c": 3}, {"a": {"x": 1, "y": 2}, "b": {"z": 3}}, {"a": [1, 2], "b": {"a": 1}}, [{"a": 1, "b": 2}, {"a": 3}], [3, 1, 2], {"a": {"a": 1, "b": 2}},
             {"a": {}, "b": [], "c": 1}, [[1, 2], {"a": 1, "b": 2}], {"a": {"a": {"a": 1, "b": 2}}, "b": 1}, {"a": 1}, [], {}, 7,
             # two input nodes of a descendant segment, each with containers below it: their results must not interleave
             {"a": [[1]], "b": [[2]]}, [[[1]], [[2]]], {"a": [[[1]], [[2]]]}]
    regd = gen.enc_registry(gen.BUILTINS)
    nq = 0
    for v in dvals + [x for x in small_values(rng, (6 if ctx.quick else 150) * budget) if count_nodes(x) <= 6]:
        for qt in (qtexts_d if nq < 400 or not ctx.quick else rng.sample(qtexts_d, 6)):
            nq += 1
            cq = denv0.compile(qt); ast = gen.ast_of_query(cq)
            qnd = env.compile(qt)
            results = set(); cnt = 0; full = True

            def rund(s, v=v, qnd=qnd):
                with Episodes(s, qnd) as ep:
                    try: out = [0, tuple(nd.location for nd in qnd.find(v))]
                    except jp.JSONPathRecursionError: out = [1, 6]
                    except chooser.Runaway: return [9, 8]
                return out + [ep.supply(), ep.nested_supply()]
            for script, out in chooser.enumerate_outcomes(rund, cap, max_choices=MAX_CHOICES):
                cnt += 1
                if out[0] == 9:
                    yield nonstop({"value": v, "query": qt, "script": script[:200]}); full = False; break
                if out[0] == 0:
                    results.add(out[1])
                    if out[2] is not None and out[3] is not None and (cnt <= 60 or rng.random() < 0.02):
                        sup, nsup = out[2], out[3]
                        # the model with the episodes inside filter expressions too (Model/NdEval2.v): the same nodelist, and every script
                        # of either supply used up - it spends as many episodes as the library did, in the places the library did
                        enc = [0] + wire.enc_list(lambda l: wire.enc_list(wire.enc_key, list(l)), list(out[1])) + [0, 0]
                        encs = lambda sp: wire.enc_list(lambda x: [len(x)] + list(x), sp)
                        yield Case({"value": v, "query": qt, "script": script, "supply": sup, "nested_supply": nsup},
                                   [24, 100] + regd + gen.enc_rxtable([]) + encs(sup) + encs(nsup) + gen.enc_segs(ast) + wire.enc_json(v), enc, None, None,
                                   len(script) > 0, "query-script" if not nsup else "query-script-nested")
                        if cnt <= 20:
                            yield Case({"value": v, "query": qt, "script": script, "supply": sup},
                                       [23, 100] + regd + gen.enc_rxtable([]) + encs(sup) + gen.enc_segs(ast) + wire.enc_json(v), enc[:-2], None, None,
                                       len(script) > 0, "query-script-own")
            if cnt >= cap: full = False

            def chkd(impl_out, spec, results=results, full=full):
                expected = dec_loclists(spec)
                if not results <= expected: return "a result of the nondeterministic query is not one RFC 9535 allows: %r" % (sorted(results - expected, key=repr)[:1],)
                if full and results != expected: return "a result RFC 9535 allows is never produced (%d of %d): e.g. %r" % (len(results), len(expected), sorted(expected - results, key=repr)[:1])
                return None
            yield Case({"value": v, "query": qt, "results": len(results), "scripts": cnt, "enumeration_complete": full}, None, [len(results)],
                       [120] + regd + gen.enc_rxtable([]) + gen.enc_segs(ast) + wire.enc_json(v), None, len(results) > 1, "query-outcome-set-full", True, chkd)
    # (b) whole queries: nondeterministic result is a permutation of the deterministic one
    import random
    n = (1500 if ctx.quick else 60000) * budget
    reg = gen.enc_registry(gen.BUILTINS)
    rx = []
    denv = harness.make_env(record_rx=rx)
    for i in range(n):
        names = gen.SIMPLE_NAMES
        v = gen.rand_json(rng, depth=rng.randint(1, 4), fan=4, names=names, top=True)
        q = gen.guided_query(rng, v, names=names, filters=rng.random() < 0.4, depth=2, maxseg=3)
        if rng.random() < 0.6: q.append(("desc", [rng.choice([("wild",), ("name", rng.choice(names)), ("index", 0)])]))
        text = gen.render_query(rng, q)
        random.seed(rng.getrandbits(32))
        try:
            nd = env.find(text, v)
            got = sorted(wire.enc_node(x.location, x.value) for x in nd)
            out = [0, len(got)]
            for g in got: out += g
        except Exception as ex:
            out = wire.enc_exception(ex)[:2]
        del rx[:]
        try: denv.find(text, v)
        except Exception: pass
        rows = list(dict.fromkeys(rx))

        def expect(spec):
            # spec: 0, n, nodes... -> sort the nodes
            if spec[0] != 0: return spec
            nodes = []; pos = 2
            for _ in range(spec[1]):
                start = pos
                k = spec[pos]; pos += 1
                for _ in range(k):
                    if spec[pos] == 0: pos += 2 + spec[pos + 1]
                    else: pos += 2
                pos = skip_json(spec, pos)
                nodes.append(spec[start:pos])
            res = [0, len(nodes)]
            for g in sorted(nodes): res += g
            return res
        yield Case({"text": text, "value": v}, None, out, [103] + reg + gen.enc_rxtable(rows) + gen.enc_segs(q) + wire.enc_json(v), expect, len(out) > 2, "query-multiset")


MAX_CHOICES = 20000       # far more random choices than an evaluation that stops makes on the small values used here


def nonstop(desc):
    """the evaluation kept drawing random choices: it does not stop on this input - a failing input of the property (every outcome is a result)"""
    return Case(desc, None, [9], [118, 0], None, True, "does-not-stop", True,
                lambda a, b: "evaluation in nondeterministic mode does not stop (still drawing random choices after %d)" % MAX_CHOICES)


def dec_loclists(spec):
    """wire list of lists of locations -> set of tuples of location tuples"""
    pos = 1; out = set()
    for _ in range(spec[0]):
        m = spec[pos]; pos += 1
        res = []
        for _ in range(m):
            k = spec[pos]; pos += 1
            loc = []
            for _ in range(k):
                if spec[pos] == 0:
                    nn = spec[pos + 1]; loc.append("".join(chr(c) for c in spec[pos + 2:pos + 2 + nn])); pos += 2 + nn
                else:
                    loc.append(spec[pos + 1]); pos += 2
            res.append(tuple(loc))
        out.add(tuple(res))
    return out


class QRun:
    """one evaluation of a query: the top-level find(), or one FilterQuery.evaluate() of a query nested in a filter.  items: [key, payload] with
    payload a script (one random episode of this query's own selectors / traversals) or a QRun (a nested evaluation started by one of this
    query's filter selectors); key = (segment index, input-node group, 0 traversal / 1 selector, sequence number)."""
    def __init__(self, segments):
        self.segments = segments; self.items = []; self.groups = {}; self.visits = {}; self.children = {}


class Episodes:
    """random.randrange / random.shuffle driven by a chooser.Script, recording which random EPISODE every choice belongs to: one episode per
    random.shuffle of a selector (WildcardSelector / FilterSelector.resolve on an object), one per _nondeterministic_visit generator (its
    randrange calls and the shuffles of its _nondeterministic_children).  Episodes are attributed, through the callers' frames, to the query
    evaluation they belong to (the top-level find(), or a FilterQuery.evaluate() call nested in it to any depth), to the segment of that query
    they serve and to the input node of that segment being processed.
    The generator pipeline runs segment after segment for each node, the model segment by segment: per segment both process the input nodes in
    the same order, and for one input node of a descendant segment the model runs the traversal first; the evaluations nested in one filter
    selector follow its shuffle, member after member.  supply() is the list of the top-level query's own episodes in the model's order,
    nested_supply() that of all episodes inside filter expressions (Model/NdEval2.v); both are None when the frames do not have the expected
    shape (then only the outcome sets are compared)."""
    def __init__(self, script, query):
        self.s = script
        self.top = QRun(query.segments)
        self.keep = []; self.ok = True; self.seq = 0

    @staticmethod
    def seg_of_segment(qr, seg):
        for i, x in enumerate(qr.segments):
            if x is seg: return i
        return None

    @staticmethod
    def seg_of_selector(qr, sel):
        for i, x in enumerate(qr.segments):
            if any(y is sel for y in x.selectors): return i
        return None

    def group(self, qr, segidx, obj):
        if obj is None: self.ok = False
        self.keep.append(obj)
        g = qr.groups.setdefault(segidx, {})
        return g.setdefault(id(obj), len(g))

    def levels(self, f):
        """the frames of the library between the random call and the top, innermost first, cut into levels at FilterQuery.evaluate frames:
        [(frames of the innermost query evaluation), boundary frame, (frames of the enclosing one), boundary frame, ...]"""
        import jsonpath_rfc9535.selectors as S, jsonpath_rfc9535.segments as G, jsonpath_rfc9535.filter_expressions as F
        levels = [[]]; bounds = []
        while f is not None:
            slf = f.f_locals.get("self")
            if f.f_code.co_name == "_nondeterministic_visit": levels[-1].append(("visit", f, slf))
            elif isinstance(slf, F.FilterQuery) and f.f_code.co_name == "evaluate":
                bounds.append(f); levels.append([])
            elif isinstance(slf, S.JSONPathSelector): levels[-1].append(("sel", f, slf))
            elif isinstance(slf, G.JSONPathSegment): levels[-1].append(("seg", f, slf))
            f = f.f_back
        return levels, bounds

    def place(self, qr, level):
        """key of the episode / nested evaluation owned by the innermost selector or traversal frame of this level, in the query run qr"""
        if not level or level[0][0] == "seg": return None
        kind, f, slf = level[0]
        if kind == "visit":
            si = self.seg_of_segment(qr, slf)
            if si is None: return None
            return ("visit", f, (si, self.group(qr, si, f.f_locals.get("root")), 0, 0))
        si = self.seg_of_selector(qr, slf)
        if si is None: return None
        node = None
        for k, g, s2 in level[1:]:
            if k == "seg" and s2 is qr.segments[si]:
                node = g.f_locals.get("node"); break
        self.seq += 1
        return ("sel", f, (si, self.group(qr, si, node), 1, self.seq))

    def episode(self, f):
        """the script list the random call made from frame f appends to"""
        levels, bounds = self.levels(f)
        qr = self.top
        # from the outermost level inwards: each enclosing level owns the nested evaluation below it
        for li in range(len(levels) - 1, 0, -1):
            b = bounds[li - 1]
            child = qr.children.get(id(b))
            if child is None:
                pl = self.place(qr, levels[li])
                if pl is None or pl[0] != "sel":
                    self.ok = False; return []
                self.keep.append(b)                                 # keeps the frame alive: its id is never reused
                q = getattr(b.f_locals.get("self"), "query", None)
                if q is None:
                    self.ok = False; return []
                child = QRun(q.segments)
                qr.children[id(b)] = child; qr.items.append([pl[2], child])
            qr = child
        pl = self.place(qr, levels[0])
        if pl is None:
            self.ok = False; return []
        if pl[0] == "visit":
            k = id(pl[1])
            if k not in qr.visits:
                self.keep.append(pl[1])
                e = [pl[2], []]; qr.visits[k] = e; qr.items.append(e)
            return qr.visits[k][1]
        e = [pl[2], []]; qr.items.append(e)
        return e[1]

    def __enter__(self):
        import sys, math, random
        self.saved = (random.randrange, random.shuffle)
        s = self.s

        def randrange(n):
            e = self.episode(sys._getframe(1))
            v = s.take(n); e.append(s.trace[-1][0])
            return v

        def shuffle(x):
            e = self.episode(sys._getframe(1))
            n = len(x)
            if n < 2: return
            idx = s.take(math.factorial(n)); e.append(s.trace[-1][0])
            pool = list(x); out = []
            for k in range(n, 0, -1):
                j = idx % k; idx //= k
                out.append(pool.pop(j))
            x[:] = out
        random.randrange, random.shuffle = randrange, shuffle
        return self

    def __exit__(self, *a):
        import random
        random.randrange, random.shuffle = self.saved

    @staticmethod
    def ordered(qr):
        return sorted(qr.items, key=lambda e: e[0])

    def flat(self, qr):
        out = []
        for key, payload in self.ordered(qr):
            if isinstance(payload, QRun): out.extend(self.flat(payload))
            else: out.append(payload)
        return out

    def supply(self):
        if not self.ok: return None
        return [p for k, p in self.ordered(self.top) if not isinstance(p, QRun)]

    def nested_supply(self):
        if not self.ok: return None
        out = []
        for k, p in self.ordered(self.top):
            if isinstance(p, QRun): out.extend(self.flat(p))
        return out


def skip_json(a, pos):
    t = a[pos]
    if t in (0, 4): return pos + 1
    if t in (1, 2, 5): return pos + 2
    if t == 3: return pos + 3
    if t == 6: return pos + 2 + a[pos + 1]
    if t == 7:
        n = a[pos + 1]; pos += 2
        for _ in range(n): pos = skip_json(a, pos)
        return pos
    n = a[pos + 1]; pos += 2
    for _ in range(n):
        pos += 1 + a[pos]
        pos = skip_json(a, pos)
    return pos


def replay(ctx, data):
    import json
    print(json.dumps(data.get("case"), indent=1, default=str)); return 0
