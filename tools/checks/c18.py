"""C18 - bounded descendant traversal."""
import signal, time
from vlib import gen, harness, wire, chooser
from vlib.runner import Case

PID = "C18"
PROPS = ["Props/C18.v"]
GEN = ["Env.v"]
MODEL_IS_SPEC = False
RULE = ("every value also reached below the root (through child segments, after a wildcard, and as '@..*' inside a filter): same outcome as at the root; "
        "data given as graphs of cells (so that self-referential structures can be described): nested arrays/objects of depth limit-2 .. limit+2 for limits 1-6, 99-101 and 1100 (2000 in thorough runs), "
        "with the deep branch first / last / in the middle and a scalar or empty container at the bottom; cyclic structures (self-loop, 2- and 3-cycles through arrays and objects, a cycle "
        "below an acyclic prefix); random small graphs (DAGs with shared sub-structures and graphs with back edges); each is evaluated with '$..*' by an environment configured with that "
        "limit, in deterministic mode (outcome and locations compared with the graph model) and in nondeterministic mode (all random outcomes enumerated for small graphs, sampled otherwise: "
        "it must raise exactly when the deterministic mode raises); every run is under a 20 s alarm; non-trivial = depth within 2 of the limit or cyclic; distinct = distinct (graph, limit, mode)")
TRUSTED_BASE = [
    "Coq 8.16.1 kernel; theorems closed under the global context",
    "Model/Descent.v: data as a finite graph, traversal by recursion on the remaining depth budget (hand-written from the explicit-stack _visit; tied by correspondence on locations and outcome)",
    "the interpreter's memory and time are outside the model: the check runs each case under an alarm and includes limits above the interpreter's recursion limit (2000)",
    "regenerated constants (Gen/Env.v): the default max_recursion_depth",
    "extraction (ExtrOcamlBasic only) and the OCaml integer driver",
]
ASSUMPTIONS = ["the nondeterministic traversal over graphs (cyclic data included) is tied to Model/NdGraph.v script by script through a descendant segment whose selector yields the visited node; for '$..*' as a whole only the raise / no-raise outcome is compared here (the whole-query tie is C17's)"]
TECHNIQUE = "Coq proofs on a graph model of the data that the traversal completes iff no chain of more than `limit` nested containers exists (cycles always have one), and on trees in both directions; differential runs incl. cyclic Python structures and both modes"
LEVEL_TEXT = ("C18_completes, C18_raises, C18_cyclic_raises (graph model, every limit), C18_tree_complete / C18_tree_raises (evaluator model on JSON trees). Partial, stated as such: interpreter stack/time/memory "
              "are not modelled (exercised with limits up to 2000 under an alarm). C18_nd_agrees / C18_nd_outcomes: in nondeterministic mode, for every script of random choices, the traversal raises exactly when the "
              "nesting exceeds the limit and otherwise returns (JSON trees). C18_nd_graph_outcome / C18_nd_cyclic_raises: the same on graphs of cells - self-referential data raises for every script within a loop bound fixed by graph and limit (simulation of the tree traversal on the unfolding).")
LEVEL_NOTE = "Partial for the runtime part. Trusted: Coq kernel; graph model; correspondence; extraction and driver."
norm_reply = harness.norm_reply


def build(cells):
    """cells: list of ('s',) | ('a', [ids]) | ('o', [(name, id)]) -> Python object for cell 0 (cycles allowed)"""
    objs = []
    for i, c in enumerate(cells):
        objs.append(i if c[0] == "s" else ([] if c[0] == "a" else {}))
    for i, c in enumerate(cells):
        if c[0] == "a": objs[i].extend(objs[j] for j in c[1])
        elif c[0] == "o":
            for k, j in c[1]: objs[i][k] = objs[j]
    return objs[0]


def enc_graph(cells):
    out = [len(cells)]
    for c in cells:
        if c[0] == "s": out += [0]
        elif c[0] == "a": out += [1, len(c[1])] + list(c[1])
        else:
            out += [2, len(c[1])]
            for k, j in c[1]: out += wire.enc_str(k) + [j]
    return out


def chain(rng, depth, bottom, pos):
    """a chain of `depth` nested containers; siblings placed before/after the deep branch"""
    cells = []
    for d in range(depth):
        nxt = len(cells) + 1
        last = d == depth - 1
        kids = []
        if not last: kids = [nxt]
        elif bottom == "scalar": kids = ["S"]
        extra = ["S"] * rng.randint(0, 2)
        if pos == "first": kids = kids + extra
        elif pos == "last": kids = extra + kids
        else: kids = extra[:1] + kids + extra[1:]
        cells.append([rng.choice(["a", "o"]), kids])
    out = []
    scal = []
    for c in cells:
        ids = []
        for k in c[1]:
            if k == "S":
                scal.append(None); ids.append(("S", len(scal) - 1))
            else: ids.append(("C", k))
        out.append((c[0], ids))
    n = len(out)
    final = []
    for kind, ids in out:
        real = [(n + i if t == "S" else i) for t, i in ids]
        final.append(("a", real) if kind == "a" else ("o", [("k%d" % j, r) for j, r in enumerate(real)]))
    final += [("s",)] * len(scal)
    return final


def rand_graph(rng, n, back):
    cells = []
    for i in range(n):
        k = rng.choice(["a", "o", "s", "a", "o"]) if i else rng.choice(["a", "o"])
        if k == "s": cells.append(("s",)); continue
        kids = []
        for _ in range(rng.randint(0, 3)):
            j = rng.randrange(n) if (back and rng.random() < 0.4) else rng.randint(min(i + 1, n - 1), n - 1)
            if j <= i and not back: continue
            kids.append(j)
        cells.append(("a", kids) if k == "a" else ("o", [("k%d" % t, j) for t, j in enumerate(kids)]))
    return cells


class Alarm(Exception):
    pass


def cases(ctx, budget):
    import jsonpath_rfc9535 as jp
    rng = ctx.rng

    def handler(*a): raise Alarm()
    signal.signal(signal.SIGALRM, handler)
    envs = {}

    def env_for(limit, nd):
        if (limit, nd) not in envs: envs[(limit, nd)] = harness.make_env(nondeterministic=nd, max_depth=limit)
        return envs[(limit, nd)]

    def det(cells, limit):
        data = build(cells)
        signal.alarm(20)
        t0 = time.time()
        try:
            nodes = env_for(limit, False).find("$..*", data)
            out = [0] + wire.enc_list(lambda nd: wire.enc_list(wire.enc_key, list(nd.location)), list(nodes))
        except Alarm:
            out = [9, 9]
        except Exception as ex:
            out = wire.enc_exception(ex)[:2]
        finally:
            signal.alarm(0)
        return out, time.time() - t0

    def nd_outcomes(cells, limit, cap):
        data = build(cells)
        e = env_for(limit, True)
        res = set()

        def run(s):
            signal.alarm(20)
            try:
                e.find("$..*", data); return "ok"
            except jp.JSONPathRecursionError: return "rec"
            except Alarm: return "timeout"
            except chooser.Runaway: return "does-not-stop"
            except Exception as ex: return type(ex).__name__
            finally: signal.alarm(0)
        n = 0
        for script, out in chooser.enumerate_outcomes(run, cap, max_choices=choice_bound(cells, limit)):
            res.add(out); n += 1
            if out in ("timeout", "does-not-stop"): break          # one run that does not stop is enough; the next would not stop either
        return res, n

    echo_segs = {}

    def echo_seg(limit):
        """a descendant segment of the nondeterministic environment with that limit whose only selector yields the visited node itself"""
        if limit not in echo_segs:
            seg = env_for(limit, True).compile("$..*").segments[0]

            class Echo:
                def resolve(self, node): yield node
            echo_segs[limit] = type(seg)(env=seg.env, token=seg.token, selectors=(Echo(),))
        return echo_segs[limit]

    def nd_scripts(cells, limit, cap, kind, nontriv):
        """the traversal alone, script by script, against the graph model (Model/NdGraph.v gnd_visit): the locations in the order visited, or
        JSONPathRecursionError; the model's loop bound is far above what the run needs (a model run out of fuel is a difference)"""
        data = build(cells)
        seg = echo_seg(limit)

        def run(s):
            root = jp.JSONPathNode(value=data, location=(), root=data)
            signal.alarm(20)
            try:
                return [0] + wire.enc_list(lambda l: wire.enc_list(wire.enc_key, list(l)), [nd_.location for nd_ in seg.resolve([root])])
            except jp.JSONPathRecursionError: return [1, 6]
            except Alarm: return [9, 9]
            except chooser.Runaway: return [9, 8]
            except Exception as ex: return wire.enc_exception(ex)[:2]
            finally: signal.alarm(0)
        n = 0
        for script, out in chooser.enumerate_outcomes(run, cap, max_choices=choice_bound(cells, limit)):
            n += 1
            if out[0] == 9:
                # the traversal did not stop (more random choices than a run that stops can make, or the alarm): a failing input of the property itself
                msg = "nondeterministic traversal does not stop on this data (limit %d): %s" % (limit, "alarm after 20 s" if out[1] == 9 else "still drawing random choices after %d" % len(script))
                yield Case({"cells": cells, "limit": limit, "mode": "nondeterministic", "script": script[:200], "script_length": len(script)}, None, [9], [118, 0], None, True,
                           kind + "-script", True, lambda a, b, p=msg: p)
                break
            yield Case({"cells": cells, "limit": limit, "mode": "nondeterministic", "script": script},
                       [25, 200000, limit, len(script)] + list(script) + enc_graph(cells), out, None, None, nontriv, kind + "-script")

    def choice_bound(cells, limit):
        """far more random choices than a traversal that stops can make on this graph with this limit: it visits at most (fan-out)^(limit+1)
        nodes and makes a bounded number of choices per node; capped, because beyond the cap the 20 s alarm decides"""
        fan = max([len(c[1]) for c in cells if c[0] != "s"] + [1])
        nodes = 1
        for _ in range(min(limit, 60) + 1):
            nodes = nodes * fan + 1
            if nodes > 200000: break
        return min(50 * nodes + 1000, 2000000)

    def below_root(cells, limit, nd):
        """the same value reached through child segments / inside a filter: the depth is counted from the node '..' is applied to"""
        data = build(cells)
        res = {}
        for name, doc, text, strip in (("child-prefix", {"p": [0, data]}, "$.p[1]..*", 2), ("filter", [data], "$[?count(@..*) >= 0]", None),
                                       ("after-wildcard", [data], "$[*]..*", 1)):
            signal.alarm(20)
            try:
                nodes = env_for(limit, nd).find(text, doc)
                res[name] = ("ok", [tuple(nd_.location[strip:]) for nd_ in nodes] if (strip is not None and not nd) else None)
            except Alarm: res[name] = ("timeout", None)
            except Exception as ex: res[name] = (type(ex).__name__, None)
            finally: signal.alarm(0)
        # an existence test whose query has a descendant segment and an early match, the deep or cyclic part behind it: the test must not stop at
        # the first node ("one is enough") - the traversal has to be carried through, and raise where '$..*' on the same value raises
        wrapped = {"k0": 1, "z": data}

        def cls_of(f):
            signal.alarm(20)
            try: f(); return "ok"
            except Alarm: return "timeout"
            except Exception as ex: return type(ex).__name__
            finally: signal.alarm(0)
        want_w = cls_of(lambda: env_for(limit, False).find("$..*", wrapped))
        for name, doc, text in (("exists-root", wrapped, "$[?$..k0]"), ("exists-relative", [wrapped], "$[?@..k0]"), ("exists-negated", [wrapped], "$[?!@..k0]")):
            res[name] = (cls_of(lambda: env_for(limit, nd).find(text, doc)), None, want_w)
        return res

    def mk(cells, limit, kind, nontriv, nd_cap):
        out, dt = det(cells, limit)
        yield Case({"cells": cells if len(cells) < 40 else len(cells), "limit": limit, "mode": "deterministic", "seconds": round(dt, 3)},
                   [11, limit] + enc_graph(cells), out, None, None, nontriv, kind)
        if len(cells) < 400:
            want_cls = "ok" if out[0] == 0 else ("JSONPathRecursionError" if out[:2] == [1, 6] else "other")
            for nd in (False, True):
                for name, r3 in below_root(cells, limit, nd).items():
                    cls, locs = r3[0], r3[1]
                    want_here = r3[2] if len(r3) > 2 else want_cls
                    prob = None
                    if cls != want_here: prob = "%s (%s mode): %s, but '$..*' on the same %svalue: %s" % (name, "nondeterministic" if nd else "deterministic", cls, "wrapped " if len(r3) > 2 else "", want_here)
                    elif locs is not None and out[0] == 0:
                        root_run = [tuple(n_.location) for n_ in env_for(limit, False).find("$..*", build(cells))]
                        if locs != root_run: prob = "%s: nodes differ from '$..*' applied at the root" % name
                    desc = {"cells": cells, "limit": limit, "mode": "nondeterministic" if nd else "deterministic", "applied": name}
                    if prob: yield Case(desc, None, [9], [118, 0], None, True, kind + "-below-root", True, lambda a, b, p=prob: p)
                    else: yield Case(desc, None, [0], None, None, nontriv, kind + "-below-root")
        if nd_cap and len(cells) < 40 and limit <= 101:
            for c in nd_scripts(cells, limit, min(nd_cap, 40), kind, nontriv): yield c
        if nd_cap:
            outs, n = nd_outcomes(cells, limit, nd_cap)
            want = {"ok"} if out[0] == 0 else {"rec"}
            prob = None if outs == want else "nondeterministic mode outcomes %r, deterministic mode %s" % (sorted(outs), "completes" if out[0] == 0 else "raises")
            desc = {"cells": cells if len(cells) < 40 else len(cells), "limit": limit, "mode": "nondeterministic", "scripts": n, "outcomes": sorted(outs)}
            if prob: yield Case(desc, None, [9], [118, 0], None, True, kind, True, lambda a, b, p=prob: p)
            else: yield Case(desc, None, [0], None, None, nontriv, kind)
    mk_inner = mk

    def mk(cells, limit, kind, nontriv, nd_cap):
        """an alarm that goes off outside the guarded calls (between a call's end and the cancellation of its alarm, or while a huge result is being
        freed) still means that something on this data ran for 20 s: it is reported as such, with the data, instead of ending the check"""
        try:
            for c in mk_inner(cells, limit, kind, nontriv, nd_cap): yield c
        except Alarm:
            yield Case({"cells": cells if len(cells) < 40 else len(cells), "limit": limit, "mode": "either"}, None, [9], [118, 0], None, True, kind, True,
                       lambda a, b: "an evaluation on this data ran into the 20 s alarm")
        finally:
            signal.alarm(0)
    limits = [1, 2, 3, 4, 5, 6, 99, 100, 101] + ([1100] if ctx.quick else [1100, 2000])
    for limit in limits:
        for delta in ((-2, -1, 0, 1, 2) if limit <= 101 or not ctx.quick else (0, 1)):
            depth = limit + delta
            if depth < 1: continue
            for bottom in (("scalar", "empty") if limit <= 101 or not ctx.quick else ("scalar",)):
                for pos in (("first", "last", "middle") if limit <= 6 else ("middle",)):
                    cells = chain(rng, depth, bottom, pos)
                    for c in mk(cells, limit, "chain", True, 200 if limit <= 6 else (3 if limit <= 101 else 0)): yield c
    cyc = [[("a", [0])], [("o", [("a", 0)])], [("a", [1]), ("o", [("x", 0)])], [("o", [("a", 1)]), ("a", [2]), ("o", [("b", 0)])],
           [("a", [1, 2]), ("s",), ("a", [3]), ("o", [("back", 2)])], [("o", [("foo", 1)]), ("a", [0])]]
    for cells in cyc:
        for limit in ((1, 2, 3, 5, 100, 1100) if ctx.quick else (1, 2, 3, 5, 100, 2000)):
            for c in mk(cells, limit, "cyclic", True, 100 if limit <= 5 else 3): yield c
    n = (150 if ctx.quick else 6000) * budget
    for _ in range(n):
        back = rng.random() < 0.4
        cells = rand_graph(rng, rng.randint(1, 7), back)
        limit = rng.choice([1, 2, 3, 4, 6])
        for c in mk(cells, limit, "random-cyclic" if back else "random-dag", True, 60): yield c


def replay(ctx, data):
    import json
    print(json.dumps(data.get("case"), indent=1, default=str)); return 0
