"""C20 - command-line tool."""
import json, os, subprocess, sys, tempfile
from concurrent.futures import ThreadPoolExecutor
from vlib import gen, harness, wire, build
from vlib.runner import Case

PID = "C20"
PROPS = ["Props/C20.v"]
GEN = ["Cli.v"]
MODEL_IS_SPEC = False
NEEDS_NO_MODEL = True
RULE = ("real subprocess runs of `python -m jsonpath_rfc9535`: {-q inline, -r query file} x {-f file, stdin} x {stdout, -o file} x {--pretty or not} x {--debug or not} over valid queries "
        "(filters, functions, non-ASCII names), one invalid query per JSONPathError class (syntax, type, index, name), an evaluation-time JSONPathRecursionError (document deeper than the "
        "limit), and documents that are non-ASCII, deep, invalid JSON, not UTF-8, empty; success: the output parsed back must equal find(query, document).values() and the exit status 0; "
        "failure: non-zero exit status, exactly one line on standard error without 'Traceback' (a traceback only with --debug), nothing on standard output, an empty -o file; "
        "non-trivial = all; distinct = distinct (arguments, query, document)")
TRUSTED_BASE = [
    "Coq 8.16.1 kernel; theorems closed under the global context",
    "tools/pygen/gen_cli.py: fail-closed recognition of handle_path_command (two try blocks, their except clauses, the statements after them) and of the exception hierarchy; "
    "Model/CliLang.v gives the tables their meaning (first matching except clause, subclass relation)",
    "argparse, file handling, json.load / json.dump and process exit are NOT modelled: exercised by real subprocess runs (exploration evidence)",
]
ASSUMPTIONS = ["the library API (find) is the oracle for the expected output"]
TECHNIQUE = "handler tables and exception hierarchy regenerated from cli.py/exceptions.py; Coq finite check that every JSONPathError subclass and decode error is caught, reported on one line and exits non-zero; subprocess runs for the I/O plumbing"
LEVEL_TEXT = ("C20_errors, C20_decode_errors, C20_success_shape: theorems by computation over the regenerated tables (re-opened whenever cli.py or exceptions.py changes). "
              "Partial, stated as such: process I/O is outside any Gallina model and is covered by real runs of the tool.")
LEVEL_NOTE = "Partial for I/O. Trusted: Coq kernel; gen_cli.py; CliLang.v; the subprocess harness."

VALID = ["$", "$.a", "$..*", "$[?@.a]", "$[?length(@.n) > 1]", "$..[?match(@, 'a.')]", "$['é\U0001F600']", "$[0, -1]", "$[::2]", "$.a[?@ == 1 || @ == 'x']", "$[?count(@.*) == 2].*"]
INVALID = [("syntax", "$["), ("syntax", "$.a "), ("type", "$[?length(@.a)]"), ("index", "$[9007199254740992]"), ("name", "$[?nope(@)]"), ("syntax", "$[?@.a == 01]")]
DOCS = [{"a": [1, "x", {"a": 1, "n": "ab"}], "n": "xyz", "é\U0001F600": ["ü", None, True, 1.5]}, [1, 2, 3, {"a": 1, "b": 2}], "just a string", 17, [], {},
        {"a": {"a": {"a": {"a": [[["deep"]]]}}}}]


def deep(n):
    d = "leaf"
    for _ in range(n): d = [d]
    return d


def run_cli(args, stdin_bytes, repo):
    env = dict(os.environ, PYTHONPATH=repo, PYTHONHASHSEED="0", PYTHONIOENCODING="utf-8")
    p = subprocess.run([sys.executable, "-m", "jsonpath_rfc9535"] + args, input=stdin_bytes, capture_output=True, env=env, timeout=120)
    return p.returncode, p.stdout, p.stderr


def cases(ctx, budget):
    import jsonpath_rfc9535 as jp
    rng = ctx.rng
    n = (100 if ctx.quick else 2500) * budget
    tmp = tempfile.mkdtemp(prefix="c20-", dir=os.path.join(build.BUILD))
    jobs = []
    for i in range(n):
        r = rng.random()
        if r < 0.45:
            kind, q = "valid", rng.choice(VALID) if rng.random() < 0.6 else gen.render_query(rng, gen.rand_query(rng, depth=2, maxseg=3))
            doc_bytes = json.dumps(rng.choice(DOCS) if rng.random() < 0.6 else gen.rand_json(rng, depth=3, top=True), ensure_ascii=rng.random() < 0.5).encode("utf8")
        elif r < 0.7:
            kind, q = rng.choice(INVALID)
            doc_bytes = json.dumps(rng.choice(DOCS)).encode("utf8")
        elif r < 0.8:
            kind, q = "recursion", "$..a"
            doc_bytes = json.dumps(deep(rng.choice([101, 150]))).encode("utf8")
        elif r < 0.9:
            kind, q = "bad-json", rng.choice(VALID)
            doc_bytes = rng.choice([b"{", b"[1,", b"", b"nope", b"[1] x", b"{'a': 1}"])
        else:
            kind, q = "not-utf8", rng.choice(VALID)
            doc_bytes = rng.choice([b'["\xff"]', b'\x80abc', b'{"a": "\xc3"}'])
        use_qfile = rng.random() < 0.4; use_stdin = rng.random() < 0.4; use_out = rng.random() < 0.5
        pretty = rng.random() < 0.3; debug = rng.random() < 0.25
        args = []
        if debug: args.append("--debug")
        if pretty: args.append("--pretty")
        if use_qfile:
            # the whole file is the query (surrounding blank space stripped): queries spanning several lines, leading blank lines
            if kind == "valid" and rng.random() < 0.4: q = q.replace(" ", "\n", 1) if " " in q else q.replace("[", "\n[", 1)
            q = rng.choice(["", "", "\n", "  \n\t", "\r\n"]) + q + rng.choice(["", "\n", "\n\n", " "])
            qf = os.path.join(tmp, "q%d.txt" % i); open(qf, "w", encoding="utf8", newline="").write(q)
            args += ["-r", qf]
        else:
            q = q.replace("\n", " ").replace("\r", " ")
            args += ["-q", q]
        if not use_stdin:
            df = os.path.join(tmp, "d%d.json" % i); open(df, "wb").write(doc_bytes)
            args += ["-f", df]
        of = None
        if use_out:
            of = os.path.join(tmp, "o%d.json" % i); args += ["-o", of]
        jobs.append((kind, q, doc_bytes, args, use_stdin, of, debug))
    with ThreadPoolExecutor(max_workers=build.NCPU) as ex:
        results = list(ex.map(lambda j: run_cli(j[3], j[2] if j[4] else None, ctx.repo), jobs))
    env = jp.JSONPathEnvironment()
    for (kind, q, doc_bytes, args, use_stdin, of, debug), (rc, out, err) in zip(jobs, results):
        why = None
        expected = None
        try:
            c = env.compile(q.strip() if "-r" in args else q)
            data = json.loads(doc_bytes.decode("utf8"))
            expected = ("ok", c.find(data).values())
        except jp.JSONPathError as ex: expected = ("error", type(ex).__name__)
        except (json.JSONDecodeError, UnicodeDecodeError) as ex: expected = ("error", type(ex).__name__)
        written = out if of is None else (open(of, "rb").read() if os.path.exists(of) else b"")
        errtxt = err.decode("utf8", "replace")
        errlines = [l for l in errtxt.split("\n") if l.strip() and "WARNING" not in l and "conda" not in l.lower()]
        if expected[0] == "ok":
            if rc != 0: why = "valid query and document but exit status %d: %s" % (rc, errtxt[-200:])
            else:
                try:
                    got = json.loads(written.decode("utf8"))
                    if wire.enc_json(got) != wire.enc_json(json.loads(json.dumps(expected[1]))): why = "output differs from find().values()"
                except Exception as ex:
                    why = "output is not JSON: %r" % (ex,)
                if of is not None and out.strip(): why = "wrote to standard output although -o was given"
        else:
            if rc == 0: why = "error case (%s) but exit status 0" % expected[1]
            elif out.strip(): why = "error case but something was written to standard output"
            elif of is not None and written.strip(): why = "error case but a partial result was written to the output file"
            elif not debug and ("Traceback" in errtxt): why = "traceback without --debug: %s" % errlines[-1:][0][:120]
            elif not debug and len(errlines) != 1: why = "diagnostic is %d lines, expected one" % len(errlines)
            elif debug and "Traceback" not in errtxt: why = "--debug given but no traceback"
        desc = {"args": [a if not a.startswith(tmp) else os.path.basename(a) for a in args], "query": q, "document": doc_bytes[:80].decode("latin1"), "kind": kind,
                "exit": rc, "stderr": errtxt[-160:]}
        if why:
            yield Case(desc, None, [9], [118, 0], None, True, kind, True, lambda a, b, w=why: w)
        else:
            yield Case(desc, None, [0], None, None, True, kind)
    import shutil
    shutil.rmtree(tmp, ignore_errors=True)


def replay(ctx, data):
    print(json.dumps(data.get("case"), indent=1, default=str)); return 0
