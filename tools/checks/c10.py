"""C10 - functions and type conversions."""
from vlib import gen, harness, wire
from vlib.runner import Case

PID = "C10"
PROPS = ["Props/C10.v"]
GEN = ['Env.v']
MODEL_IS_SPEC = True
RULE = ("filter queries whose expressions call the built-ins and 0-3 user-registered test doubles (every parameter/result type over Value/Logical/Nodes, arity 0-3; "
        "an 'echo' double returns its first argument as received, a 'constant' double ignores them) with argument expressions of every kind (literal, '@' on "
        "container and on each scalar kind, '$', singular and non-singular queries, nested calls) x JSON values with every kind of child; find() compared with model and "
        "specification; plus direct calls of length/count/value on every JSON kind; non-trivial = result non-empty or a double was called; distinct = distinct (registry, text, value)")
TRUSTED_BASE = [
    "Coq 8.16.1 kernel; theorems closed under the global context",
    "Spec/Sem.v fn_sem / conv_nodes / coerce as a reading of RFC 9535 2.4.3-2.4.8",
    "Model/Eval.v m_apply / m_unpack / m_expr hand-written from function_extensions/*.py and filter_expressions.py; tied to the code by this correspondence",
    "user functions are modelled by two families of test doubles (echo-first, constant); the theorem holds for any registry of type-consistent declarations over these",
    "match()/search() results are an oracle table taken from the real functions (C11)",
    "extraction (ExtrOcamlBasic only) and the OCaml integer driver",
]
ASSUMPTIONS = ["a user function returns a value of its declared result type (type-consistent doubles)"]
TECHNIQUE = "Coq proof of a typed refinement (ValueType/LogicalType/NodesType) between the evaluator model and the RFC function semantics for every well-typed expression and registry; differential runs with recording test doubles"
LEVEL_TEXT = ("Theorems C10_typed_refinement, C10_args, C10_builtins: for every type-consistent registry and well-typed expression the arguments a function body receives and "
              "the use of its result follow the RFC's conversions; length/count/value equal their RFC definitions on every kind of argument. Tied to the code by differential testing with test doubles.")
LEVEL_NOTE = "Trusted: Coq kernel; Spec/Sem.v as a reading of the RFC; test doubles as the model of user functions; correspondence harness; extraction and driver."
norm_reply = harness.norm_reply

KINDS = [0, 1, -1, 1.5, 0.0, True, False, None, "", "a", "ab\U0001F600", [], [1], [1, 2], {}, {"a": 1}, {"a": 1, "b": [2]}]


def cases(ctx, budget):
    rng = ctx.rng
    rx = []
    n = (3000 if ctx.quick else 120000) * budget
    envs = {}
    # direct, systematic: each built-in on every kind of child, through '@', '@.a', '@.*', '$'
    base_env = harness.make_env(record_rx=rx)
    doc = list(KINDS)
    for fn, argtexts in (("length", ["@", "@.a", "@[0]", "$[9]", "$[13]", "'x\U0001F600'", "1", "null"]),
                         ("count", ["@", "@.*", "@..*", "$[*]", "@.a", "$..a"]),
                         ("value", ["@", "@.*", "@.a", "@..a", "$[13]"])):
        for at in argtexts:
            for rhs in ["0", "1", "2", "3", "17", "null", "'a'", "$[99]", "@", "@.a"]:
                for op in ("==", "!=", "<"):
                    text = "$[?%s(%s) %s %s]" % (fn, at, op, rhs)
                    q = gen.ast_of_query(base_env.compile(text))
                    yield harness.find_case(base_env, gen.BUILTINS, q, text, doc, "builtin-grid", rx)
    # systematic: echo doubles of each parameter/result type on every kind of argument expression and child
    greg = list(gen.BUILTINS) + [("el", [2], 2, [6], None), ("ev", [1], 1, [6], None), ("en", [3], 3, [6], None),
                                 ("el2", [2, 1], 2, [6], None), ("ev2", [1, 3], 1, [6], None)]
    genv = harness.make_env(greg, record_rx=rx)
    gtexts = []
    for at in ["@", "@.a", "@[0]", "@.*", "@..*", "$[0]", "$[3]", "$[4]", "$[5]", "$[6]", "$[7]", "$[8]", "$[11]", "$[14]", "$[99]",
               "@ == 0", "@ == null", "!@.a", "@.a && @", "el(@)", "count(@.*) == 0", "en(@.*)", "ev(@) == 0"]:
        gtexts += ["$[?el(%s)]" % at, "$[?!el(%s)]" % at, "$[?el2(%s, 1)]" % at, "$[?el(%s) && @]" % at, "$[?el(el(%s))]" % at]
    for at in ["@", "@.a", "@[0]", "$[0]", "$[6]", "$[7]", "$[8]", "$[11]", "$[99]", "1", "null", "'a'", "false", "length(@)", "value(@.*)", "ev(@)"]:
        for rhs in ["0", "null", "false", "''", "@", "1", "$[99]"]:
            gtexts += ["$[?ev(%s) == %s]" % (at, rhs), "$[?ev2(%s, @.*) != %s]" % (at, rhs)]
    for at in ["@", "@.*", "@..*", "@.a", "$[*]", "$[99]", "en(@.*)"]:
        gtexts += ["$[?en(%s)]" % at, "$[?!en(%s)]" % at, "$[?value(en(%s)) == 1]" % at]
        gtexts += ["$[?count(en(%s)) == %d]" % (at, k) for k in range(4)]
    for text in gtexts:
        try: q = gen.ast_of_query(genv.compile(text))
        except Exception: continue
        yield harness.find_case(genv, greg, q, text, doc, "doubles-grid", rx,
                                extra_desc={"registry": [(r[0], r[1], r[2], r[3][0]) for r in greg[5:]]})
    for i in range(n):
        reg = harness.rand_registry(rng)
        key = repr(reg)
        env = envs.get(key)
        if env is None:
            env = harness.make_env(reg, record_rx=rx)
            if len(envs) < 300: envs[key] = env
        names = gen.SIMPLE_NAMES
        v = gen.rand_json(rng, depth=rng.randint(1, 3), fan=4, names=names, top=True)
        if isinstance(v, list) and rng.random() < 0.7: v = v + [rng.choice(KINDS) for _ in range(rng.randint(1, 4))]
        e = gen.gen_test(rng, names, [r[:4] for r in reg], rng.randint(1, 3))
        if rng.random() < 0.7:
            c = gen.gen_call(rng, names, [r[:4] for r in reg], 2, [1, 2, 3])
            if c:
                ret = [r for r in reg if r[0] == c[1]][0][2]
                e = c if ret != 1 else ("cmp", rng.choice(["==", "!=", "<", ">="]), c, gen.gen_comparable(rng, names, [r[:4] for r in reg], 1))
        q = [("child", [("filter", e)])]
        if rng.random() < 0.3: q.insert(0, ("desc", [("wild",)]))
        text = gen.render_query(rng, q)
        yield harness.find_case(env, reg, q, text, v, "doubles" if len(reg) > 5 else "builtins", rx,
                                extra_desc={"registry": [(r[0], r[1], r[2], r[3][0], str(r[4]) if len(r) > 4 else None) for r in reg[5:]]})


def replay(ctx, data):
    import json
    print(json.dumps(data.get("case"), indent=1, default=str)); return 0
