"""C11 - match() and search()."""
import unicodedata
from vlib import gen, harness, wire
from vlib.runner import Case

PID = "C11"
PROPS = ["Props/C11.v"]
GEN = ["Rx.v"]
MODEL_IS_SPEC = False
RULE = ("I-Regexp patterns generated from the RFC 9485 syntax tree (literals, escaped metacharacters, '.', classes with ranges / negation / category escapes / the punctuation that is "
        "special in other dialects, groups, alternation, all quantifier forms; no '^' or '$' atoms) x subject strings over {letters, digits, LF, CR, U+2028, | & ~ - [ ] ^ . \\, space, "
        "a non-BMP character}; match() and search() of the real library are compared with the Coq I-Regexp semantics (parser + derivative matcher proved correct w.r.t. the language "
        "definition); plus invalid patterns and non-string arguments (must be false, must not raise) and map_re() compared with its model on every pattern; "
        "non-trivial = pattern has a class, a quantifier or a dot; distinct = distinct (function, pattern, subject)")
TRUSTED_BASE = [
    "Coq 8.16.1 kernel; theorems closed under the global context",
    "Spec/IRegexp.v: AST, parser and language semantics as a reading of RFC 9485; matcher proved equal to the language definition (matches_correct)",
    "Unicode general categories are a parameter of the specification, instantiated per case from Python's unicodedata for the characters of the subject",
    "the regex and iregexp_check engines are third-party compiled code and are NOT modelled: their agreement with RFC 9485 on the generated patterns is what this check tests",
    "Model/MapRe.v hand-written from _pattern.map_re; regenerated facts (Gen/Rx.v, tools/pygen/rx_probe.py: both functions are executed on sample arguments under a recording proxy around the regex module): which regex entry point each function reaches, with no flag argument, once per evaluation, on (map_re(pattern), string)",
    "extraction (ExtrOcamlBasic only) and the OCaml integer driver",
]
ASSUMPTIONS = ["quantities above 64 are not expanded by the specification matcher (reported as undecided and skipped)", "'^' and '$' are excluded (disputed reading)"]
TECHNIQUE = "Coq I-Regexp semantics with a derivative matcher proved correct, used as oracle against match()/search(); model of map_re; regenerated skeleton facts (entry point, flags); Coq theorems on map_re"
LEVEL = "proof"
LEVEL_TEXT = ("Proved: the specification matcher decides the I-Regexp language (C11_oracle_correct), map_re replaces exactly the dots that are neither escaped nor inside a character class and copies everything else, for every pattern read as escape pairs / classes / dots / other characters (C11_map_re_exact, C11_map_re_lexed; Proofs/MapReExact.v), "
              "search/match pass no dialect flags (regenerated). Partial, stated as such: the third-party engines are not modelled; their behaviour is validated against the proved oracle on generated patterns.")
LEVEL_NOTE = "Partial: engines are an assumption validated by differential testing. Trusted: Coq kernel; Spec/IRegexp.v as a reading of RFC 9485; extraction and driver."

SUBJ = ["a", "b", "A", "0", "1", "\n", "\r", " ", "|", "&", "~", "-", "[", "]", "^", ".", "\\", " ", "\U0001F600", "é", "ab"]
LIT = ["a", "b", "A", "0", "1", " ", "&", "~", "-", ",", "é", "\U0001F600", " ", "\n", "\r", "@", "/", "<"]
ESC = ["\\(", "\\)", "\\*", "\\+", "\\-", "\\.", "\\?", "\\[", "\\\\", "\\]", "\\^", "\\n", "\\r", "\\t", "\\{", "\\|", "\\}"]
CATS = ["L", "Lu", "Ll", "N", "Nd", "P", "Pd", "S", "Sm", "So", "Z", "Zl", "Zs", "C", "Cc"]
CCRAW = ["a", "b", "A", "0", "1", "|", "&", "~", " ", ".", "^", ",", "*", "+", "(", ")", "{", "}", "?", "é", " "]


def cls(rng):
    neg = rng.random() < 0.3
    items = []
    lead = rng.random() < 0.15
    for _ in range(rng.randint(1, 4)):
        r = rng.random()
        if r < 0.2: items.append("\\%s{%s}" % (rng.choice("pP"), rng.choice(CATS)))
        elif r < 0.45:
            lo, hi = sorted([rng.choice("abAZ019"), rng.choice("abAZ019")])
            items.append(lo + "-" + hi)
        elif r < 0.6: items.append(rng.choice(ESC))
        else:
            c = rng.choice(CCRAW)
            if c == "^" and not items and not neg and not lead: c = "a"
            items.append(c)
    # the regex engine mishandles a NEGATED class that contains both \p{C} and \P{C} for the same C (it matches everything
    # instead of nothing): a defect of the third-party engine, listed as a known finding with explicit instances below
    if neg:
        cats_p = {i[3:-1] for i in items if i.startswith("\\p{")}
        cats_P = {i[3:-1] for i in items if i.startswith("\\P{")}
        items = [i for i in items if not (i.startswith("\\P{") and i[3:-1] in cats_p)] or ["a"]
    return "[" + ("^" if neg else "") + ("-" if lead else "") + "".join(items) + ("-" if rng.random() < 0.15 else "") + "]"


def atom(rng, depth):
    r = rng.random()
    if r < 0.4: return rng.choice(LIT)
    if r < 0.5: return rng.choice(ESC)
    if r < 0.62: return "."
    if r < 0.8: return cls(rng)
    if r < 0.85: return "\\%s{%s}" % (rng.choice("pP"), rng.choice(CATS))
    if depth > 0: return "(" + regexp(rng, depth - 1) + ")"
    return rng.choice(LIT)


def piece(rng, depth):
    a = atom(rng, depth)
    r = rng.random()
    if r < 0.55: return a
    if r < 0.85: return a + rng.choice(["*", "+", "?"])
    n = rng.randint(0, 3)
    if r < 0.9: return a + "{%d}" % n
    if r < 0.95: return a + "{%d,}" % n
    return a + "{%d,%d}" % (n, n + rng.randint(0, 2))


def regexp(rng, depth):
    branches = []
    for _ in range(1 if rng.random() < 0.7 else rng.randint(2, 3)):
        branches.append("".join(piece(rng, depth) for _ in range(rng.randint(0, 4))))
    return "|".join(branches)


INVALID = ["(", ")", "a)", "(a", "[", "[]", "[a", "a{", "a{1", "a{,1}", "a{2,1}", "*", "+a", "?", "a**", "a{1}{2}", "\\", "\\a", "\\d", "\\w", "\\s", "\\b", "\\1", "(?:a)", "(?i)a", "a*?", "a+?",
           "[[:alpha:]]", "\\p{Foo}", "\\p{Lx}", "\\pL", "[b-a]", "(?=a)", "(?<n>a)", "\\u0041", "\\x41", "[a-z&&[^b]]"]


def cases(ctx, budget):
    rng = ctx.rng
    env = harness.make_env()
    fm, fs = env.function_extensions["match"], env.function_extensions["search"]
    from jsonpath_rfc9535.function_extensions._pattern import map_re
    n = (5000 if ctx.quick else 250000) * budget

    def call(f, s, p):
        try: return 2 if f(s, p) is True else (1 if f(s, p) is False else 7)
        except Exception as ex: return 9

    def mk(search, s, p, kind):
        out = [call(fs if search else fm, s, p)]
        chars = sorted(set(s))
        table = [len(chars)]
        for c in chars: table += [ord(c)] + wire.enc_str(unicodedata.category(c))

        def chk(impl_out, spec):
            if spec == [0]: return None
            if impl_out == [9]: return "the function raised"
            if impl_out != spec: return "%s(%r, %r) is %s, I-Regexp semantics says %s" % ("search" if search else "match", s, p, impl_out, spec)
            return None
        nt = any(c in p for c in "[.*+?{")
        return Case({"function": "search" if search else "match", "subject": s, "pattern": p}, None, out,
                    [114, 1 if search else 0] + table + wire.enc_str(s) + wire.enc_str(p), None, nt, kind, True, chk)
    for p in INVALID:
        for s in ("a", "", "ab"):
            yield mk(False, s, p, "invalid-pattern"); yield mk(True, s, p, "invalid-pattern")
    # quantities with leading zeros are valid per RFC 9485 (QuantExact = 1*DIGIT); the iregexp_check dependency refuses them
    yield mk(False, "", "a{00}", "leading-zero-quantity"); yield mk(False, "a", "a{01,2}", "leading-zero-quantity")
    yield mk(False, "0", "[^\\P{Ll}\\p{Ll}]", "negated-complementary-categories"); yield mk(True, "xA", "[^\\p{Lu}\\P{Lu}]", "negated-complementary-categories")
    for bad in (1, None, True, 1.5, [], {}, ["a"]):
        for f, name in ((fm, "match"), (fs, "search")):
            for args in ((bad, "a"), ("a", bad), (bad, bad)):
                try: r = f(*args)
                except Exception as ex: r = repr(ex)
                ok = r is False
                yield Case({"function": name, "args": repr(args), "result": repr(r)}, None, [1 if ok else 9], [118, 0], None, True, "non-string", True,
                           (lambda a, b, ok=ok, r=r: None if ok else "non-string argument: result %r" % (r,)))
    # class stress: escaped brackets / backslashes inside classes followed by characters that are special outside them
    for _ in range((400 if ctx.quick else 20000) * budget):
        body = []
        for _k in range(rng.randint(1, 4)):
            body.append(rng.choice(["\\]", "\\[", "\\\\", ".", "a", "|", "*", "\\.", "\\-", "^", "(", ")", "b", "+"]))
        if body[0] == "^": body[0] = "a"
        pat = rng.choice(["", "x", "."]) + "[" + ("^" if rng.random() < 0.2 else "") + "".join(body) + "]" + rng.choice(["", "y", ".", "*", "+"])
        chars = [c.replace("\\", "")[-1:] if len(c) > 1 else c for c in body] + ["x", "y", "z", "\n"]
        if rng.random() < 0.6:      # a subject shaped like the pattern: prefix, one or two class members, suffix
            subj = {"": "", "x": "x", ".": "q"}[pat[0] if pat[0] in "x." else ""] + "".join(rng.choice(chars[:len(body)]) for _ in range(rng.randint(1, 2))) \
                + {"y": "y", ".": "q"}.get(pat[-1], "")
        else:
            subj = "".join(rng.choice(chars) for _ in range(rng.randint(1, 3)))
        yield mk(rng.random() < 0.5, subj, pat, "class-stress")
        yield Case({"pattern": pat}, [15] + wire.enc_str(pat), wire.enc_str(map_re(pat)), None, None, True, "map_re")
    # escape stress: an escaped backslash directly before '.', a class or a bracket (what follows "\\\\" is NOT escaped), subjects with line breaks
    ATOMS = [("\\\\", ["\\"]), ("\\\\", ["\\"]), (".", ["\r", "\n", "x", "\\"]), ("[.x]", [".", "x", "\r"]), ("[^a]", ["\n", "b", "a", "\r"]), ("x", ["x"]), ("\\.", [".", "x", "\r"]),
             ("a", ["a"]), ("[x\\\\]", ["x", "\\"]), ("\\[", ["["]), ("\\]", ["]"])]
    for _ in range((600 if ctx.quick else 20000) * budget):
        chosen = [rng.choice(ATOMS) for _k in range(rng.randint(1, 4))]
        pat = "".join(a for a, _ in chosen)
        subj = "".join(rng.choice(cs) for _, cs in chosen)          # a subject shaped like the pattern, line breaks where a '.' or a class stands
        if rng.random() < 0.2: subj = "".join(rng.choice(["\\", "\n", "\r", ".", "x", "a", "["]) for _k in range(rng.randint(1, 4)))
        yield mk(rng.random() < 0.5, subj, pat, "escape-stress")
        yield Case({"pattern": pat}, [15] + wire.enc_str(pat), wire.enc_str(map_re(pat)), None, None, True, "map_re")
    # histories on one function object: a valid pattern that matches, then an invalid / non-string pattern twice, then another subject
    for _ in range((300 if ctx.quick else 10000) * budget):
        p = regexp(rng, 2)
        subj = "".join(rng.choice(SUBJ) for _ in range(rng.randint(0, 3)))
        search = rng.random() < 0.5
        f = fs if search else fm
        first = mk(search, subj, p, "history")
        yield first
        bad = rng.choice(list(INVALID) + [1, None, True, 2.5, [], {}, ["a"]])
        results = []
        for _k in range(3):
            try: results.append(f(subj, bad))
            except Exception as ex: results.append(repr(ex))
        ok = all(r is False for r in results)
        yield Case({"function": "search" if search else "match", "history": [[subj, p], [subj, repr(bad)], [subj, repr(bad)], [subj, repr(bad)]], "results": repr(results)},
                   None, [1 if ok else 9], [118, 0], None, True, "history", True,
                   (lambda a, b, ok=ok, r=results: None if ok else "invalid / non-string pattern after a valid one: results %r, all must be False" % (r,)))
        again = mk(search, subj, p, "history")
        if again.impl_out != first.impl_out:
            yield Case({"function": "search" if search else "match", "subject": subj, "pattern": p, "first": first.impl_out, "again": again.impl_out}, None, [9], [118, 0], None, True,
                       "history", True, lambda a, b: "the same call gives a different result after other calls")
    seen = set()
    for i in range(n):
        p = regexp(rng, 2)
        s = "".join(rng.choice(SUBJ) for _ in range(rng.randint(0, 4)))
        if rng.random() < 0.3 and p and "[" not in p and "\\" not in p and "(" not in p and "{" not in p:
            s = "".join(c for c in p if c not in ".*+?|")[:5]
        yield mk(rng.random() < 0.5, s, p, "generated")
        if p not in seen and len(seen) < 3000:
            seen.add(p)
            yield Case({"pattern": p}, [15] + wire.enc_str(p), wire.enc_str(map_re(p)), None, None, "." in p, "map_re")


def replay(ctx, data):
    import json
    print(json.dumps(data.get("case"), indent=1, default=str)); return 0
