"""C03 - every valid RFC 9535 query is accepted."""
from vlib import gen, harness, wire
from vlib.runner import Case

PID = "C03"
PROPS = ["Props/C03.v"]
GEN = ['LexConst.v', 'ParseConst.v']
MODEL_IS_SPEC = False
RULE = ("nesting stress: filters inside the queries that are function arguments, parenthesised sub-expressions and several selectors inside them, two-argument calls whose first argument contains such a filter, to depth 4; "
        "well-typed query ASTs (all selector kinds, nested filters, comparisons, built-in calls) rendered with every optional lexical form (blank space at every position the "
        "grammar allows incl. LF/CR/TAB, both quote styles, every escape form incl. \\uXXXX in both hex cases and surrogate pairs, shorthand or bracket notation, number "
        "spellings with exponent/fraction/-0, non-ASCII and non-BMP shorthand names); the Coq side decides in-grammar + well-typed + integers in range; a case fails if compile() "
        "rejects such a string or compiles it to a different structure than the generating AST; non-trivial = all; distinct = distinct strings")
TRUSTED_BASE = [
    "Coq 8.16.1 kernel; theorems closed under the global context",
    "Spec/Rfc9535Grammar.v (ABNF transcription), Spec/Abnf.v (recognizer proved sound/complete), Spec/Types.v (RFC 2.4.3 typing, integer range)",
    "tools/vlib/gen.py renderer: produces the spellings; every rendered string is re-checked to be in the grammar by the proved recognizer, so a renderer bug cannot create a false alarm silently "
    "(a string the recognizer refuses is reported as a harness self-check failure, not as a property violation)",
    "Model/Lex.v, Model/Parse.v tied to the code by correspondence (structure, error class, offset)",
    "extraction (ExtrOcamlBasic only) and the OCaml integer driver",
]
ASSUMPTIONS = ["number literals are within the exactly representable range |n| <= 2^53 and floats print without exponent (others are out of the property's stated range)"]
TECHNIQUE = "generation of valid queries from the AST + lexical-variation renderer, validity decided by Coq-extracted grammar recognizer and typing judgement, differential against compile(); model correspondence; partial Coq theorems"
LEVEL = "proof"
LEVEL_TEXT = ("Proved, for every registry and integer range, relative to the spelling relation of Proofs/LexSpell.v (gaps decided by an abstract machine over token types): C03_complete_spelled / C03_exact_spelled - EVERY spelling of "
              "EVERY token sequence the typed token grammar derives compiles, to the query derived: blanks wherever the lexical layer allows them, dot shorthand or brackets, either quote style with any escape form, "
              "any number spelling (fraction, exponent with or without sign), operators / keywords / parentheses / nested filters / function calls with the lexer's three stacks threaded through the induction (Proofs/LexComplete.v, LexCompleteF.v: forward "
              "simulation of the state machine with maximal-munch and FOLLOW facts) and nothing else compiles; C03_accepts_only_spellings and C04_sound - the converse: "
              "compile accepts only spellings, and every spelling is derivable from the ABNF; C05_complete_tokens / C03_tokens_complete - the parser on every derivable token sequence; C03_canonical_text. "
              "C03_complete_abnf_no_filter - the headline with nothing but the ABNF, compile() and the integer range in it, for strings without '?': every such string of the grammar compiles wherever the range contains its integers "
              "(Proofs/AbnfSpell.v inverts ABNF derivations into token-grammar derivations and spellings); C03_abnf_lexical_rules - every alternative of every lexical rule (blank space, non-ASCII name shorthand, int, every number "
              "spelling, function names, both string kinds with every escape form) is a token text the spellings range over and converts without error. "
              "C03_complete_abnf_no_call - the same with filter selectors (logical expressions, comparisons, parentheses, negation, existence tests, nested queries and nested filters): every string of the RFC grammar that makes no "
              "function call compiles (Proofs/AbnfSpellF.v; the sub-language is the grammar with function-expr removed from comparable and test-expr, C03_no_call_is_rfc). "
              "C03_complete_abnf_builtin - the whole language with the built-in functions: bf_grammar is the RFC grammar in which every function call is a well-typed use of length / count / value / match / search "
              "(RFC 9535 2.4.3 and the signatures of 2.4.4-2.4.8 written into the rules; C03_builtin_is_rfc: its strings are strings of the RFC grammar); every string it derives compiles wherever the five functions are "
              "registered with those signatures and the range contains its integers (Proofs/AbnfSpellG.v: the abstract machine run from arbitrary states - filters inside function arguments inside filters - with "
              "the stacks restored by every construct). C03_C04_builtin_exact: conversely, with the registry setup_function_extensions builds compile() accepts EXACTLY the strings of bf_grammar whose integers are in range (Proofs/TextSoundB.v) - what is left to read against the RFC is that one grammar; for other registries the theorem is C03_complete_spelled; "
              "every generated valid query, rendered in every lexical form, must compile to the generating structure.")
LEVEL_NOTE = "The headline is proved for the typed built-in grammar bf_grammar (a transcription of the typing rules into the ABNF); for arbitrary registries relative to the typed token grammar. Trusted: Coq kernel, grammar transcription, the spelling relation (Proofs/LexSpell.v astep) as a reading of where the ABNF allows blanks, renderer (self-checked), extraction and driver."


def nest(rng, depth):
    """(logical expression AST, text): deliberately nested - filters inside the queries that are function arguments, parenthesised
    sub-expressions and commas inside them, calls with two arguments whose FIRST argument contains such a filter"""
    def atom():
        n = rng.choice(["a", "b", "c"])
        return ("rel", [("child", [("name", n)])]), "@.%s" % n

    def logical(d):
        r = rng.random()
        if d <= 0 or r < 0.2:
            return atom()
        if r < 0.35:
            a, t = logical(d - 1); return a, "(%s)" % t
        if r < 0.5:
            a, ta = logical(d - 1); b, tb = logical(d - 1)
            op = rng.choice(["and", "or"])
            return (op, a, b), "(%s %s %s)" % (ta, "&&" if op == "and" else "||", tb)
        if r < 0.6:
            a, t = atom(); return ("cmp", "==", a, ("lit", 1)), "%s == 1" % t
        if r < 0.7:
            a, t = logical(d - 1)
            return ("not", a), "!(%s)" % t
        q, tq = query(d - 1)
        if r < 0.8:
            return ("cmp", "==", ("call", "count", [q]), ("lit", 1)), "count(%s) == 1" % tq
        if r < 0.9:
            q2, tq2 = query(d - 1)
            a = ("call", rng.choice(["match", "search"]), [("call", "value", [q]), ("call", "value", [q2])])
            return a, render(a, None)
        a = ("call", "match", [("call", "value", [q]), ("lit", "x")])
        return a, render(a, None)

    def render(a, t):
        if t is not None: return t
        # calls whose text was left to be assembled from their arguments
        name, args = a[1], a[2]
        return "%s(%s)" % (name, ", ".join(render_any(x) for x in args))

    memo = {}

    def render_any(x):
        if id(x) in memo: return memo[id(x)]
        if x[0] == "lit": return repr(x[1]) if isinstance(x[1], str) else str(x[1])
        if x[0] == "call": return "%s(%s)" % (x[1], ", ".join(render_any(y) for y in x[2]))
        raise KeyError(x)

    def query(d):
        f1, t1 = logical(d); t1 = render(f1, t1)
        sels, texts = [("filter", f1)], ["?" + t1]
        if rng.random() < 0.4:
            f2, t2 = logical(d); t2 = render(f2, t2)
            sels.append(("filter", f2)); texts.append("?" + t2)
        if rng.random() < 0.3:
            sels.append(("index", 0)); texts.append("0")
        q = ("rel", [("child", sels)])
        t = "@[%s]" % ", ".join(texts)
        memo[id(q)] = t
        return q, t
    a, t = logical(depth)
    return a, render(a, t)


def cases(ctx, budget):
    rng = ctx.rng
    env = harness.make_env()
    reg = gen.BUILTINS
    renc = gen.enc_registry(reg)
    n = (6000 if ctx.quick else 300000) * budget
    for i in range((500 if ctx.quick else 20000) * budget):
        e, et = nest(rng, rng.randint(2, 4))
        q = [("child", [("filter", e)])]
        text = "$[?%s]" % et
        out, c = harness.impl_compile(env, text)
        got_norm = ([0] + gen.enc_segs(gen.norm_assoc(gen.ast_of_query(c)))) if c is not None else out
        want = [0] + gen.enc_segs(gen.norm_assoc(q))

        def chk(impl_out, spec, want=want, got_norm=got_norm):
            if spec != [1, 1, 1]:
                raise AssertionError("generator self-check: rendered query is not valid for the Coq side %r" % (spec,))
            if impl_out[0] != 0: return "valid query rejected"
            if got_norm != want: return "valid query compiled to a different structure (modulo associativity of && and ||)"
            return None
        yield Case({"text": text}, harness.compile_req(reg, text), out,
                   [109, -harness.LIM, harness.LIM] + renc + gen.enc_segs(q) + wire.enc_str(text), None, True, "nested", True, chk)
    for i in range(n):
        names = gen.NAMES if rng.random() < 0.4 else gen.SIMPLE_NAMES
        q = gen.rand_query(rng, names=names, depth=rng.randint(1, 3), maxseg=4)
        if rng.random() < 0.15:
            q.append(("child", [("index", rng.choice([harness.LIM, -harness.LIM, harness.LIM - 1]))]))
        text = gen.render_query(rng, q)
        out, c = harness.impl_compile(env, text)
        got_norm = ([0] + gen.enc_segs(gen.norm_assoc(gen.ast_of_query(c)))) if c is not None else out
        want = [0] + gen.enc_segs(gen.norm_assoc(q))

        def chk(impl_out, spec, want=want, got_norm=got_norm):
            if spec != [1, 1, 1]:
                raise AssertionError("generator self-check: rendered query is not valid for the Coq side %r" % (spec,))
            if impl_out[0] != 0: return "valid query rejected"
            if got_norm != want: return "valid query compiled to a different structure (modulo associativity of && and ||)"
            return None
        kind = "filter" if "filter" in repr(q) else "plain"
        yield Case({"text": text}, harness.compile_req(reg, text), out,
                   [109, -harness.LIM, harness.LIM] + renc + gen.enc_segs(q) + wire.enc_str(text), None, True, kind, True, chk)


def replay(ctx, data):
    import json
    print(json.dumps(data.get("case"), indent=1, default=str)); return 0
