"""C04 - every string outside the RFC 9535 grammar is rejected."""
from vlib import gen, harness, wire
from vlib.runner import Case

PID = "C04"
PROPS = ["Props/C04.v"]
GEN = ['LexConst.v', 'ParseConst.v']
MODEL_IS_SPEC = False
RULE = ("structural grid: literals, queries and function calls - plain, parenthesised once and twice, negated - in every expression context (test, operand of ! && ||, comparand, function argument, nested filter); "
        "strings: single/double-edit neighbours (delete/insert/replace/duplicate/swap of a character or token from the query alphabet) of valid rendered queries, "
        "valid queries with one character replaced by a lookalike (other Unicode blanks and decimal digits, typographic quotes and minus, full-width punctuation, other letter case), "
        "random sequences over the query alphabet, and a hand-written list of classic near-misses; membership in the RFC 9535 ABNF decided by the extracted Coq recognizer "
        "(proved sound and complete w.r.t. the transcribed grammar); a case fails if compile() accepts a string outside the grammar; "
        "the compiled structure / error class / error offset are also compared with the lexer+parser model; non-trivial = string not in the grammar; distinct = distinct strings")
TRUSTED_BASE = [
    "Coq 8.16.1 kernel; theorems closed under the global context",
    "Spec/Rfc9535Grammar.v: transcription of the RFC 9535 ABNF (each rule next to its quoted text); one reading decision (blank space inside singular-query brackets)",
    "Spec/Abnf.v: generic recognizer, proved sound (accepts -> derives) and complete (derives -> accepts for all sufficiently large fuel); a negative answer of the executable relies on "
    "fuel adequacy (rfc_fuel = 40*len+200), re-checked in thorough runs at 3x fuel",
    "Model/Lex.v, Model/Parse.v hand-written mirrors of lex.py/parse.py/tokens.py, tied to the code by this correspondence (structure, error class, error offset)",
    "extraction (ExtrOcamlBasic only) and the OCaml integer driver",
]
ASSUMPTIONS = ["strings are sequences of Unicode scalar values (no lone surrogates)"]
TECHNIQUE = "Coq theorem: the lexer+parser model accepts only strings derivable from the transcribed ABNF (lexer invariant, parser soundness for a typed token grammar, derivation building); executable ABNF recognizer proved sound and complete, run against compile() on near-miss, lookalike and garbage strings; lexer/parser model correspondence"
LEVEL = "proof"
LEVEL_TEXT = ("Proved in full in the model, for every registry, integer range and text over Unicode scalar values: C04_sound - if compile() returns a query the text is derivable from the "
              "transcribed RFC 9535 ABNF, character by character; C04_reject - a text that is not derivable raises a JSONPathError (with C13_compile_total). Layers: C04_parser_sound / C04_parser_exact "
              "(Parser.parse accepts exactly the lexer-shaped token lists the typed token grammar QT derives), C04_tokens_wf, C04_text_is_tokens (lexer invariant over all 8 states and three stacks: the text is "
              "'$' then gap, token text, gap, token text ... with the gaps - blanks, nothing after '..', blanks then '.', adjacent quotes and '(' - decided by an abstract machine over token types), "
              "Proofs/TextSound.v (induction on the QT derivation running that machine; every construct restores mode and stacks) and Proofs/AbnfDerive.v (names, integers, string bodies with escapes and "
              "surrogate pairs, numbers: derivations from what the lexer's regexes can match - matcher soundness w.r.t. the regex language - and what the parser checks). "
              "Also: the grammar recognizer used as oracle is sound and complete for the transcribed ABNF (in_rfc_sound, in_rfc_complete); every generated string outside the grammar must be rejected by the real compile().")
LEVEL_NOTE = ("C04_sound_builtin: with the built-in registry whatever compile() accepts is a string of bf_grammar (Spec/BuiltinGrammar.v: the RFC grammar with well-typed built-in calls), so typing violations are covered by a grammar statement too. The theorem is about the model (Model/Lex.v, Model/Parse.v), tied to lex.py / parse.py by regenerated tables and this correspondence. "
              "Trusted: Coq kernel, the grammar transcription Spec/Rfc9535Grammar.v (one marked reading decision), extraction and driver.")

CLASSICS = ["$.a-b", "$[1:2 3]", "$[?@.a==-01]", "$[?!!@.a]", "$[?(@.a)==1]", "$[?count(@.a,)==1]", "$[?@.a==1==1]", "$[?!true]", "$[?@.a == !@.b]",
            " $", "$ ", "$.a ", "$ .a", "$. a", "$.  a", "$[01]", "$[-0]", "$[0:-0]", "$[1.0]", "$[1e2]", "$[?@.a==01]", "$[?@.a==1.]", "$[?@.a==.5]", "$[?@.a==+1]",
            "$[?@.a==1e]", "$[?@.a==1e+]", "$['\\x']", "$['\\u12']", "$['\\uD800']", "$['\\uDC00\\uD800']", '$["\\\'"]', "$['\\\"']", "$['a\nb']", "$[?@.a=1]", "$[?@.a===1]",
            "$[?@.a & @.b]", "$[?@.a &&& @.b]", "$[?@.a | @.b]", "$[?&& @.a]", "$[?@.a &&]", "$[?!]", "$[?(@.a]", "$[?@.a)]", "$[", "$]", "$[]", "$[,]", "$[1,]", "$[,1]", "$[1,,2]",
            "$[::]:", "$[:::]", "$[1:2:3:4]", "a", "x$", "$$", "$.a$", "$[?TRUE==@.a]", "$[?@.a==Null]", "$[?@.a==False]", "$..", "$...a", "$.[1]", "$..[", "$.*.", "$[?@.a==1 2]",
            "$[?length(@.a)==1,]", "$[?@.a<>1]", "$[?@.a=>1]", "$[?(1)]", "$[?1]", "$[?'a']", "$[?true]", "$[?@.* == 1]", "$[?@..a == 1]", "$[?@[1,2] == 1]", "$[?@[1:2] == 1]",
            "$[?LENGTH(@.a)==1]", "$[?length (@.a)==1]", "$[?f_(@)]", "$[?_f(@)]", "$[?1f(@)]", "$[? @.a]", "$[?@.a ]", "$[ ?@.a]", "$['a' 'b']", "$.a.'b'", "$.'a'", "$.1", "$.-a",
            "$[?@.a == (1)]", "$[?(@.a == 1) == true]", "$[?!@.a == 1]", "$[?!(@.a) == 1]", "$[?@.a == @.b == @.c]", "$[?@.a < 1 < 2]", "$[?!!(@.a)]", "$[?! !@.a]",
            "$[?@.a == 1 &&]", "$[?|| @.a]", "$[?@.a,]", "$[?,@.a]", "$[?@.a,?]", "$[?count(@.*) == 1)]", "$[?(count(@.*) == 1]", "$[?count((@.*)) == 1]", "$[?count(@.*,) == 1]",
            "$[?count(,@.*) == 1]", "$[?count() == 1]", "$[?count(@.* @.*) == 1]", "$\n", "\n$", "$[\n]", "$.a\n", "$\t.a", "$.\ta", "$[?@.a==\"\\'\"]", "$[?@.a=='\\\"']"]


XSPACE = "\x0b\x0c\x1c\x1d\x1e\x1f\x85\xa0\u1680\u2000\u2003\u200a\u2028\u2029\u202f\u205f\u3000\ufeff\u200b"


def lookalike(rng, text):
    """one character of a valid query replaced by a character other dialects or Python's str/re classes treat alike:
    other Unicode blanks, other decimal digits, typographic quotes/minus/full-width punctuation, other letter case"""
    pos = list(range(len(text))); rng.shuffle(pos)
    for i in pos:
        c = text[i]
        if c in " \t\n\r": rep = rng.choice(XSPACE)
        elif c.isdigit() and c.isascii(): rep = chr(rng.choice([0x660, 0xff10, 0x966, 0x6f0, 0x1d7ce]) + int(c))
        elif c == "-": rep = rng.choice("\u2212\u2010\u2013\ufe63")
        elif c == "'": rep = rng.choice("\u2019\u2018\u02bc\uff07")
        elif c == '"': rep = rng.choice("\u201c\u201d\uff02")
        elif c in ".*$@[]?(),:!=<>&|": rep = chr(ord(c) + 0xfee0)      # full-width forms
        elif c.isalpha() and c.isascii() and rng.random() < 0.3: rep = c.swapcase()
        else: continue
        return text[:i] + rep + text[i + 1:]
    i = max(text.find("["), 0) + 1
    return text[:i] + rng.choice(XSPACE) + text[i:]


def cases(ctx, budget):
    rng = ctx.rng
    env = harness.make_env()
    reg = gen.BUILTINS
    n = (6000 if ctx.quick else 300000) * budget
    fm = 1 if ctx.quick else 3

    def mk(text, kind):
        out, _ = harness.impl_compile(env, text)

        def chk(impl_out, spec, text=text):
            if spec == [0] and impl_out[0] == 0: return "accepted although not derivable from the ABNF"
            if spec == [0] and impl_out[0] != 1: return "a non-JSONPath exception escaped"
            return None
        c = Case({"text": text}, harness.compile_req(reg, text), out, [104, fm] + wire.enc_str(text), None, True, kind, True, chk)
        return c
    for t in CLASSICS:
        yield mk(t, "classic")
    # structural grid: every atom (literals, queries, function calls, each also parenthesised once and twice, negated) in every
    # expression context; the ABNF oracle decides which of these strings are outside the grammar
    base_atoms = ["1", "-0", "'a'", "true", "null", "1.5e1", "@", "@.a", "$.b[0]", "@.*", "count(@.*)", "length(@.a)", "match(@.a, 'x')", "value(@.a)", "@.a == 1", "!@.a", "@.a && @.b"]
    atoms = []
    for a in base_atoms:
        atoms += [a, "(" + a + ")", "((" + a + "))", "( " + a + " )"]
    contexts = ["$[?%s]", "$[?!%s]", "$[?! %s]", "$[?%s && @.c]", "$[?@.c || %s]", "$[?%s == 1]", "$[?1 != %s]", "$[?%s < %s]", "$[?count(%s) == 1]", "$[?length(%s) == 1]",
                "$[?match(%s, 'a')]", "$[?match(@.a, %s)]", "$[?value(%s) == 1]", "$[?!(%s)]", "$[?(%s) && (%s)]", "$[?@.c[?%s]]", "$[?(%s == 1)]", "$[?!(%s == %s)]"]
    grid = []
    for cx in contexts:
        k = cx.count("%s")
        for a in atoms:
            if k == 1: grid.append(cx % a)
            else:
                for b in (atoms if ctx.quick is False else [rng.choice(atoms), rng.choice(atoms)]): grid.append(cx % (a, b))
    for t in grid:
        yield mk(t, "structural-grid")
    for i in range(n):
        r = rng.random()
        if r < 0.1:
            base = gen.render_query(rng, gen.rand_query(rng, names=gen.SIMPLE_NAMES, depth=rng.randint(1, 2)))
            yield mk(lookalike(rng, base), "lookalike")
        elif r < 0.65:
            base = gen.render_query(rng, gen.rand_query(rng, names=gen.NAMES if rng.random() < 0.3 else gen.SIMPLE_NAMES, depth=rng.randint(1, 3)))
            yield mk(harness.mutate_text(rng, base) if rng.random() < 0.6 else harness.mutate_struct(rng, base), "near-miss")
        elif r < 0.9:
            yield mk("$" + "".join(rng.choice(harness.ALPH) for _ in range(rng.randint(0, 14))), "token-soup")
        else:
            yield mk("".join(rng.choice(harness.ALPH) for _ in range(rng.randint(0, 10))), "garbage")


def post(ctx, cases_):
    return {}


def replay(ctx, data):
    import json
    print(json.dumps(data.get("case"), indent=1, default=str)); return 0
