"""C05 - validity rules: well-typedness, singular comparands, integer range."""
from vlib import gen, harness, wire
from vlib.runner import Case

PID = "C05"
PROPS = ["Props/C05.v"]
GEN = ['Env.v']
MODEL_IS_SPEC = False
RULE = ("built-in grammar stream: loose / faulty / well-typed tests over the five built-in functions with the built-in registry: compile() accepts iff the text is in bf_grammar (Spec/BuiltinGrammar.v: the RFC grammar with well-typed built-in calls, C03_complete_abnf_builtin; membership by the proved-sound recognizer) - both directions; parenthesised-argument grid: every built-in and four test doubles x every parameter x query / call / comparison arguments, plain and in one or two pairs of parentheses (a parenthesised argument is a logical-expr: LogicalType parameters only); "
        "grammatical queries whose function calls are placed without regard to types (any registered or unknown function in test, comparison-operand and argument position; also well-typed expressions with exactly one injected fault: wrong arity or one argument of a type its parameter does not accept; "
        "under '!', inside '&&'/'||', inside parentheses; wrong arity; every argument form) x registries = built-ins plus 0-3 random declarations over Value/Logical/Nodes; "
        "index/slice integers at lo-1, lo, hi, hi+1 for the default and a custom range; the Coq typing judgement + range predicate decide the expected outcome; a case fails if "
        "compile() accepts an ill-typed/out-of-range query, rejects a valid one, or raises anything but a JSONPathError; non-trivial = contains a call or a boundary integer")
TRUSTED_BASE = [
    "Coq 8.16.1 kernel; theorems closed under the global context",
    "Spec/Types.v: wt_expr / ints_in_range as a reading of RFC 9535 2.4.3 and 2.1",
    "Model/Parse.v (check_args, non_comparable, value_function, in_range) tied to the code by correspondence",
    "renderer self-checked by the proved grammar recognizer; extraction and the OCaml driver",
    "parentheses are not represented in the syntax tree Spec/Types.v judges: for the parenthesised-argument grid the check applies the RFC rule 'a parenthesised argument is a logical-expr (LogicalType parameters only)' on top of the Coq judgement",
]
ASSUMPTIONS = ["registered functions are FilterFunction instances with declared arg_types/return_type"]
TECHNIQUE = "Coq typing judgement (RFC 2.4.3) and range predicate evaluated on the generating AST, differential against compile() over random registries; parser-model correspondence; Coq theorem relating the model's compile-time checks to the judgement"
LEVEL = "proof"
LEVEL_TEXT = ("Theorem C05_sound (Props/C05.v): for every text, registry and integer range, whatever the model's compile() returns is well-typed per the RFC judgement (Spec/Types.v) and in range - an invariant "
              "through all parser functions; C05_complete_tokens: conversely, for every registry and range, every token sequence the typed token-level grammar derives (the RFC ABNF without its lexical layer, "
              "typing rules and integer range as side conditions, parentheses included) is accepted by Parser.parse, which returns the derived query (fuel monotonicity + prefix property of the Pratt loop + "
              "one lemma per production); C05_grammar_typed; C05_check_args_partial / C05_singular_partial. C05_builtin_exact: at the level of TEXT, with the built-in registry compile() accepts exactly the strings of bf_grammar (the ABNF with the typing rules written in) whose integers are in range "
              "(Proofs/AbnfSpellG.v, TextSoundB.v); random registries and boundary integers are decided by differential testing against the Coq typing judgement.")
LEVEL_NOTE = "Trusted: Coq kernel; Spec/Types.v as a reading of the RFC; correspondence; extraction and driver."


def paren_arg_cases(ctx):
    """an argument written in parentheses is a logical-expr (RFC 9535 2.4.3: admitted for LogicalType parameters only), whatever it contains;
    the syntax tree has no node for the parentheses, so the expectation combines the Coq judgement on the tree with that rule"""
    reg = list(gen.BUILTINS) + [("fl", [2], 2, [6], None), ("fn", [3], 3, [6], None), ("fv", [1], 1, [6], None), ("fvl", [1, 2], 2, [6], None)]
    reg4 = [r[:4] for r in reg]
    env = harness.make_env(reg)
    lo, hi = -harness.LIM, harness.LIM
    A = [(("rel", [("child", [("name", "a")])]), "@.a"), (("rel", [("child", [("wild",)])]), "@.*"), (("abs", [("child", [("name", "b")])]), "$.b"),
         (("call", "count", [("rel", [("child", [("wild",)])])]), "count(@.*)"), (("call", "fn", [("rel", [("child", [("wild",)])])]), "fn(@.*)"),
         (("call", "fl", [("rel", [("child", [("name", "a")])])]), "fl(@.a)"),
         (("cmp", "==", ("rel", [("child", [("name", "a")])]), ("lit", 1)), "@.a == 1")]
    lit1 = (("lit", 1), "1")
    for fname, ptypes, ret in (("count", [3], 1), ("length", [1], 1), ("value", [3], 1), ("match", [1, 1], 2), ("search", [1, 1], 2), ("fl", [2], 2), ("fn", [3], 3), ("fv", [1], 1), ("fvl", [1, 2], 2)):
        for pos, ptype in enumerate(ptypes):
            for (aast, atext) in A:
                for wrapped in ("(%s)", "( %s )", "((%s))", "%s"):
                    args_ast, args_txt = [], []
                    for j, pt in enumerate(ptypes):
                        if j == pos: args_ast.append(aast); args_txt.append(wrapped % atext)
                        else:
                            other = lit1 if pt == 1 else A[0]
                            args_ast.append(other[0]); args_txt.append(other[1])
                    call = ("call", fname, args_ast)
                    ctext = "%s(%s)" % (fname, ", ".join(args_txt))
                    if ret == 1: e, etext = ("cmp", "==", call, ("lit", 1)), ctext + " == 1"
                    else: e, etext = call, ctext
                    q = [("child", [("filter", e)])]
                    text = "$[?%s]" % etext
                    out, c = harness.impl_compile(env, text)
                    paren = wrapped != "%s"

                    def chk(impl_out, spec, paren=paren, ptype=ptype):
                        if spec[0] != 1: raise AssertionError("generator self-check: rendered query is not in the grammar")
                        valid = spec[1] == 1 and spec[2] == 1 and (not paren or ptype == 2)
                        if valid and impl_out[0] != 0: return "well-typed query rejected"
                        if not valid and impl_out[0] == 0: return "ill-typed query accepted (a parenthesised argument is a logical expression)" if paren else "ill-typed query accepted"
                        if impl_out[0] == 2: return "a non-JSONPath exception escaped"
                        return None
                    yield Case({"text": text, "range": [lo, hi], "registry": [(r[0], r[1], r[2]) for r in reg[5:]]},
                               harness.compile_req(reg, text, lo, hi), out,
                               [109, lo, hi] + gen.enc_registry(reg4) + gen.enc_segs(q) + wire.enc_str(text), None, True, "parenthesised-argument", True, chk)


def cases(ctx, budget):
    rng = ctx.rng
    n = (4000 if ctx.quick else 150000) * budget
    envs = {}
    for c in paren_arg_cases(ctx): yield c
    for c in builtin_grammar_cases(ctx, budget): yield c
    for i in range(n):
        reg = harness.rand_registry(rng)
        custom = rng.random() < 0.3
        lo, hi = (-7, 9) if custom else (-harness.LIM, harness.LIM)
        key = (repr(reg), custom)
        env = envs.get(key)
        if env is None:
            env = harness.make_env(reg)
            if custom:
                type(env).min_int_index = lo; type(env).max_int_index = hi
            if len(envs) < 400: envs[key] = env
        names = gen.SIMPLE_NAMES
        reg4 = [r[:4] for r in reg]
        q = []
        if rng.random() < 0.5: q.append(("child", [("name", "a")]))
        mode = rng.random()
        if mode < 0.45:
            e = gen.loose_test(rng, names, reg4, rng.randint(1, 3))
        else:
            e = gen.gen_test(rng, names, reg4, rng.randint(1, 3))          # well-typed ...
            if mode < 0.85:
                e2 = gen.inject_fault(rng, e, names, reg4)                   # ... with exactly one fault
                e = e2 if e2 is not None else e
        sels = [("filter", e)]
        if rng.random() < 0.5:
            b = rng.choice([lo - 1, lo, hi, hi + 1, 0, 1])
            sels.append(rng.choice([("index", b), ("slice", b, None, None), ("slice", None, b, 1), ("slice", 1, 2, b)]))
            rng.shuffle(sels)
        q.append((rng.choice(["child", "desc"]), sels))
        text = gen.render_query(rng, q)
        out, c = harness.impl_compile(env, text)

        def chk(impl_out, spec):
            if spec[0] != 1:
                raise AssertionError("generator self-check: rendered query is not in the grammar")
            valid = spec[1] == 1 and spec[2] == 1
            if valid and impl_out[0] != 0: return "well-typed, in-range query rejected"
            if not valid and impl_out[0] == 0: return "ill-typed or out-of-range query accepted"
            if impl_out[0] == 2: return "a non-JSONPath exception escaped"
            return None
        yield Case({"text": text, "range": [lo, hi], "registry": [(r[0], r[1], r[2]) for r in reg[5:]]},
                   harness.compile_req(reg, text, lo, hi), out,
                   [109, lo, hi] + gen.enc_registry(reg4) + gen.enc_segs(q) + wire.enc_str(text), None, True,
                   "custom-range" if custom else "default-range", True, chk)


def builtin_grammar_cases(ctx, budget):
    """compile() against membership in bf_grammar (Spec/BuiltinGrammar.v: the RFC grammar with well-typed calls of the built-in functions, decided by the
    proved-sound recognizer), both ways, with the built-in registry and the default range: loose / faulty / well-typed tests over the five functions"""
    rng = ctx.rng
    env = harness.make_env()
    reg4 = [r[:4] for r in gen.BUILTINS]
    names = gen.SIMPLE_NAMES
    for i in range((1200 if ctx.quick else 40000) * budget):
        q = []
        if rng.random() < 0.4: q.append(("child", [("name", "a")]))
        mode = rng.random()
        if mode < 0.4: e = gen.loose_test(rng, names, reg4, rng.randint(1, 3))
        else:
            e = gen.gen_test(rng, names, reg4, rng.randint(1, 3))
            if mode < 0.7:
                e2 = gen.inject_fault(rng, e, names, reg4)
                e = e2 if e2 is not None else e
        q.append((rng.choice(["child", "desc"]), [("filter", e)]))
        text = gen.render_query(rng, q)
        if any(ord(ch) > 0x10FFFF or 0xD800 <= ord(ch) <= 0xDFFF for ch in text): continue
        out, c = harness.impl_compile(env, text)

        def chk(impl_out, spec):
            inb = spec == [1]
            if impl_out[0] == 2: return "a non-JSONPath exception escaped"
            if inb and impl_out[0] != 0: return "a string of the grammar with well-typed built-in calls is rejected"
            if not inb and impl_out[0] == 0: return "compile() accepts a string outside the grammar with well-typed built-in calls"
            return None
        yield Case({"text": text, "stream": "builtin-grammar"}, None, out, [121] + wire.enc_str(text), None, "(" in text, "builtin-grammar", True, chk)


def replay(ctx, data):
    import json
    print(json.dumps(data.get("case"), indent=1, default=str)); return 0
