"""C05 - validity rules: well-typedness, singular comparands, integer range."""
from vlib import gen, harness, wire
from vlib.runner import Case

PID = "C05"
PROPS = ["Props/C05.v"]
GEN = ['Env.v']
MODEL_IS_SPEC = False
RULE = ("grammatical queries whose function calls are placed without regard to types (any registered or unknown function in test, comparison-operand and argument position; also well-typed expressions with exactly one injected fault: wrong arity or one argument of a type its parameter does not accept; "
        "under '!', inside '&&'/'||', inside parentheses; wrong arity; every argument form) x registries = built-ins plus 0-3 random declarations over Value/Logical/Nodes; "
        "index/slice integers at lo-1, lo, hi, hi+1 for the default and a custom range; the Coq typing judgement + range predicate decide the expected outcome; a case fails if "
        "compile() accepts an ill-typed/out-of-range query, rejects a valid one, or raises anything but a JSONPathError; non-trivial = contains a call or a boundary integer")
TRUSTED_BASE = [
    "Coq 8.16.1 kernel; theorems closed under the global context",
    "Spec/Types.v: wt_expr / ints_in_range as a reading of RFC 9535 2.4.3 and 2.1",
    "Model/Parse.v (check_args, non_comparable, value_function, in_range) tied to the code by correspondence",
    "renderer self-checked by the proved grammar recognizer; extraction and the OCaml driver",
]
ASSUMPTIONS = ["registered functions are FilterFunction instances with declared arg_types/return_type"]
TECHNIQUE = "Coq typing judgement (RFC 2.4.3) and range predicate evaluated on the generating AST, differential against compile() over random registries; parser-model correspondence; Coq theorem relating the model's compile-time checks to the judgement"
LEVEL = "proof"
LEVEL_TEXT = ("Theorem C05_checks (Props/C05.v): the parser model's compile-time checks (argument count/types, result use, comparands) accept exactly the expressions the RFC typing judgement accepts, "
              "for every registry. Tied to the code by differential testing over random registries and boundary integers.")
LEVEL_NOTE = "Trusted: Coq kernel; Spec/Types.v as a reading of the RFC; correspondence; extraction and driver."


def cases(ctx, budget):
    rng = ctx.rng
    n = (4000 if ctx.quick else 150000) * budget
    envs = {}
    for i in range(n):
        reg = harness.rand_registry(rng)
        custom = rng.random() < 0.3
        lo, hi = (-7, 9) if custom else (-harness.LIM, harness.LIM)
        key = (repr(reg), custom)
        env = envs.get(key)
        if env is None:
            env = harness.make_env(reg)
            if custom:
                type(env).min_int_index = lo; type(env).max_int_index = hi
            if len(envs) < 400: envs[key] = env
        names = gen.SIMPLE_NAMES
        reg4 = [r[:4] for r in reg]
        q = []
        if rng.random() < 0.5: q.append(("child", [("name", "a")]))
        mode = rng.random()
        if mode < 0.45:
            e = gen.loose_test(rng, names, reg4, rng.randint(1, 3))
        else:
            e = gen.gen_test(rng, names, reg4, rng.randint(1, 3))          # well-typed ...
            if mode < 0.85:
                e2 = gen.inject_fault(rng, e, names, reg4)                   # ... with exactly one fault
                e = e2 if e2 is not None else e
        sels = [("filter", e)]
        if rng.random() < 0.5:
            b = rng.choice([lo - 1, lo, hi, hi + 1, 0, 1])
            sels.append(rng.choice([("index", b), ("slice", b, None, None), ("slice", None, b, 1), ("slice", 1, 2, b)]))
            rng.shuffle(sels)
        q.append((rng.choice(["child", "desc"]), sels))
        text = gen.render_query(rng, q)
        out, c = harness.impl_compile(env, text)

        def chk(impl_out, spec):
            if spec[0] != 1:
                raise AssertionError("generator self-check: rendered query is not in the grammar")
            valid = spec[1] == 1 and spec[2] == 1
            if valid and impl_out[0] != 0: return "well-typed, in-range query rejected"
            if not valid and impl_out[0] == 0: return "ill-typed or out-of-range query accepted"
            if impl_out[0] == 2: return "a non-JSONPath exception escaped"
            return None
        yield Case({"text": text, "range": [lo, hi], "registry": [(r[0], r[1], r[2]) for r in reg[5:]]},
                   harness.compile_req(reg, text, lo, hi), out,
                   [109, lo, hi] + gen.enc_registry(reg4) + gen.enc_segs(q) + wire.enc_str(text), None, True,
                   "custom-range" if custom else "default-range", True, chk)


def replay(ctx, data):
    import json
    print(json.dumps(data.get("case"), indent=1, default=str)); return 0
