"""C02 - filter selection."""
from vlib import gen, harness

PID = "C02"
PROPS = ["Props/C02.v"]
GEN = ['ParseConst.v']
MODEL_IS_SPEC = True
RULE = ("well-typed filter queries (tests of relative/absolute queries, !, &&, ||, comparisons, built-in function calls, nested filters up to depth 3, "
        "explicit parentheses) rendered in random legal spellings x JSON values forced to contain falsy children (0, false, \"\", null, [], {}); "
        "find() compared node by node with the extracted model and specification; match/search results are taken from the real functions (oracle table); "
        "non-trivial = result non-empty; distinct = distinct (text, value)")
TRUSTED_BASE = [
    "Coq 8.16.1 kernel; theorems closed under the global context",
    "Spec/Sem.v s_expr/s_sel as a reading of RFC 9535 2.3.5.2 and 2.4.3",
    "Model/Eval.v m_expr/m_sel hand-written from filter_expressions.py/selectors.py; tied to the code by this correspondence",
    "match()/search() are an oracle (cfg.rx) in model and specification alike: their results come from the real functions (C11 treats them)",
    "the parser is not part of this model yet: the AST is rendered to text and compiled by the real compile()",
    "extraction (ExtrOcamlBasic only) and the OCaml integer driver",
]
ASSUMPTIONS = ["container nesting of generated values <= max_recursion_depth"]
TECHNIQUE = "Coq proof by mutual structural induction over well-typed expressions that the evaluator model equals the RFC filter semantics; differential runs of find()"
LEVEL_TEXT = ("Theorem C02_filter: for every registry, well-typed filter expression, root and node, the model of FilterSelector.resolve selects exactly the children "
              "for which the RFC logical value is true ('@' = the child, '$' = the query argument at any depth); C02_find_compiled: for every text that compiles, find() returns the RFC nodelist of the compiled query "
              "(compile() only returns well-typed queries, C05_sound); tied to the code by differential testing.")
LEVEL_NOTE = "Trusted: Coq kernel; Spec/Sem.v as a reading of the RFC; correspondence harness; regex oracle; extraction and driver."
norm_reply = harness.norm_reply

FALSY = [0, False, "", None, [], {}, 0.0]


def salted(rng, v):
    if isinstance(v, list):
        v = [salted(rng, x) for x in v]
        if rng.random() < 0.6: v.insert(rng.randint(0, len(v)), rng.choice(FALSY))
        return v
    if isinstance(v, dict):
        v = {k: salted(rng, x) for k, x in v.items()}
        if rng.random() < 0.6: v[rng.choice(gen.SIMPLE_NAMES)] = rng.choice(FALSY)
        return v
    return v


def cases(ctx, budget):
    rng = ctx.rng
    rx = []
    env = harness.make_env(record_rx=rx)
    n = (4000 if ctx.quick else 150000) * budget
    for _ in range(n):
        names = gen.SIMPLE_NAMES
        v = salted(rng, gen.rand_json(rng, depth=rng.randint(1, 4), fan=4, names=names, top=True))
        if rng.random() < 0.5: q = gen.guided_query(rng, v, names=names, filters=True, depth=rng.randint(1, 3), maxseg=3)
        else: q = gen.rand_query(rng, names=names, filters=True, depth=rng.randint(1, 3), maxseg=3)
        if rng.random() < 0.12:
            # arrays (and objects) of values Python conflates (True == 1 == 1.0, False == 0 == 0.0, hash-equal) but JSON does not,
            # in every order, under a filter that tells them apart
            pool = [1, True, 1.0, 0, False, 0.0, -0.0, "1", "", None, 2, "a", [], [1], {}]
            arr = [rng.choice(pool) for _ in range(rng.randint(2, 7))]
            box = rng.random()
            v = arr if box < 0.5 else ({"a": arr, "b": dict(zip(names, arr))} if box < 0.75 else [arr, dict(zip(names, arr)), arr[::-1]])
            lit = ("lit", rng.choice(pool[:12]))
            rel = ("rel", [])
            t = ("cmp", rng.choice(["==", "!=", "<", "<=", ">", ">="]), *((rel, lit) if rng.random() < 0.5 else (lit, rel)))
            if rng.random() < 0.25: t = ("not", t)
            if rng.random() < 0.2: t = ("rel", [("child", [("filter", t)])])
            q = [(("child" if box < 0.5 and rng.random() < 0.7 else "desc"), [("filter", t)])]
        if rng.random() < 0.1:
            # `$` inside a filter nested - to any depth - below relative queries that have segments of their own is the query argument, never the
            # node an enclosing relative query started from: documents with the same names at every level and differing values tell them apart
            k1, k2, k3 = rng.choice(names), rng.choice(names), rng.choice(names)

            def doc(d):
                if d == 0: return rng.choice([1, 2, 3, "x", True, None])
                if rng.random() < 0.25: return [doc(d - 1) for _ in range(rng.randint(1, 3))]
                return {nm: (doc(d - 1) if rng.random() < 0.6 else rng.choice([1, 2, 3, "x"])) for nm in rng.sample(names, rng.randint(2, min(4, len(names))))}
            v = doc(3)
            inner_abs = ("abs", [("child", [("name", k3)])])
            inner_test = rng.choice([("cmp", rng.choice(["==", "!=", "<", ">="]), ("rel", []), inner_abs),
                                     ("cmp", "==", ("rel", [("child", [("name", k2)])]), inner_abs), inner_abs, ("not", inner_abs)])
            mid = [(rng.choice(["child", "desc"]), [rng.choice([("name", k1), ("wild",)])]), ("child", [("filter", inner_test)])]
            if rng.random() < 0.3: mid = [("child", [("wild",)]), ("child", [("filter", ("rel", mid))])]
            q = [(rng.choice(["child", "desc"]), [("filter", ("rel", mid))])]
            if rng.random() < 0.4: q.insert(0, ("child", [rng.choice([("name", k1), ("wild",)])]))
        if "filter" not in repr(q):
            q.append(("child", [("filter", gen.gen_test(rng, names, gen.BUILTINS, 2))]))
        text = gen.render_query(rng, q)
        yield harness.find_case(env, gen.BUILTINS, q, text, v, "nested" if repr(q).count("filter") > 1 else "flat", rx)


def replay(ctx, data):
    import json
    print(json.dumps(data.get("case"), indent=1, default=str)); return 0
