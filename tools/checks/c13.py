"""C13 - totality of compile() and find()."""
from vlib import gen, harness, wire
from vlib.runner import Case

PID = "C13"
PROPS = ["Props/C13.v"]
GEN = ['LexConst.v']
MODEL_IS_SPEC = False
RULE = ("query strings: random code points (ASCII, Latin-1, BMP, non-BMP) of length 0-1024, token soup over the query alphabet, near-miss mutants of valid queries, "
        "bracket/parenthesis/filter nesting up to depth 32 (balanced and off by one), huge number literals, operand/operator soup inside filters (bare, parenthesised, as function argument); every string is compiled; those that compile are evaluated on a "
        "battery of JSON values (every kind as root and as the child under test); every outcome is classified (returned / JSONPathError subclass / any other exception) and "
        "str(error) is produced; the same classification is computed by the lexer+parser+evaluator model; a case fails on any exception that is not a JSONPathError or on a "
        "model mismatch; non-trivial = string longer than 2 characters; distinct = distinct strings")
TRUSTED_BASE = [
    "Coq 8.16.1 kernel; theorems closed under the global context",
    "Model/Lex.v, Parse.v, Eval.v with explicit Crash sites; tied to the code by this correspondence (outcome class, error class, offset)",
    "the interpreter's recursion limit is outside the model: nesting is bounded at 32 as the property states (about 6 Python frames per nested filter)",
    "extraction (ExtrOcamlBasic only) and the OCaml integer driver",
]
ASSUMPTIONS = ["interpreter stack: 1000 frames suffice for nesting 32", "match()/search() results are an oracle in the model (C11)"]
TECHNIQUE = "model with explicit crash sites and explicit loop fuel; Coq theorems that compile() and find() of the model are total (no crash, fuel never exhausted, only JSONPathError outcomes); differential classification of every exception on garbage, near-miss and deeply nested inputs ties the model to the code"
LEVEL = "proof"
LEVEL_TEXT = ("Proved for the model, for every input: C13_compile_total (compile() of any text of scalar values returns a query or raises a JSONPathError: C13_compile_no_other_exception - no IndexError from the "
              "lexer's filter stack or the string decoder, no KeyError escaping the parser - plus termination: C13_tokenize_terminates, a potential function on lexer states, and C13_parse_terminates, "
              "5 * remaining tokens + rank bounds the depth of the fourteen mutually recursive parse functions); C13_find_total (find() of a compiled query on ANY well-formed value, however deep, returns a "
              "nodelist or raises JSONPathRecursionError); C13_env_find_total (the two composed); C13_find_total_compiled, C13_eval_total_partial, C13_error_str_total. The model (with its explicit Crash "
              "sites) is tied to the code by correspondence - on every generated string the implementation and the model agree on returned / error class / offset, and no other exception type escapes.")
LEVEL_NOTE = "Trusted: Coq kernel; crash-site modelling (which Python operations can raise what); interpreter stack assumption (recursion depth of CPython itself is outside the model); correspondence; extraction and driver."
norm_reply = harness.norm_reply

VALUES = [None, True, False, 0, 1, -1.5, "", "a", [], [1], {}, {"a": 1}, [0, False, "", None, [], {}, "x", 2.5, {"a": {"b": [1, {"a": None}]}}, [[1, 2], ["a"]]],
          {"a": [1, 2, {"b": "x"}], "b": "y", "c": {"a": 0}}]


SOUP = ["@.a", "@.b", "@", "1", "2", "'x'", "true", "null", "$.c", "count(@.*)", "length(@.a)", "value(@.a)", "!@.b", "(@.b)", "!", "==", "!=", "<", ">=",
        "&&", "||", "(", ")", ",", "@.a", "1", "@[0]", "-1", "1.5", "match(@.a, 'x')"]


def nest(rng, depth):
    kind = rng.choice(["filter", "paren", "not", "bracket", "func"])
    if kind == "filter":
        s = "@.a"
        for _ in range(depth): s = "@[?%s]" % s
        return "$[?%s]" % s
    if kind == "paren": return "$[?" + "(" * depth + "@.a" + ")" * (depth + rng.choice([0, 0, 0, 1, -1])) + "]"
    if kind == "not":
        s = "@.a"
        for _ in range(depth): s = "!(%s)" % s
        return "$[?%s]" % s
    if kind == "bracket": return "$" + "[" * depth + "0" + "]" * (depth + rng.choice([0, 1, -1]))
    s = "@"
    for _ in range(depth): s = "count(%s.*)" % s if rng.random() < 0.5 else "value(%s.*)" % s
    return "$[?%s == 1]" % s


def rand_cp(rng):
    r = rng.random()
    if r < 0.5: return chr(rng.randint(0x20, 0x7e))
    if r < 0.6: return chr(rng.randint(0, 0x1f))
    if r < 0.75: return chr(rng.randint(0x80, 0x2ff))
    if r < 0.9: return chr(rng.choice([rng.randint(0x300, 0xd7ff), rng.randint(0xe000, 0xffff)]))
    return chr(rng.randint(0x10000, 0x10ffff))


def cases(ctx, budget):
    rng = ctx.rng
    rx = []
    env = harness.make_env(record_rx=rx)
    reg = gen.BUILTINS
    renc = gen.enc_registry(reg)
    n = (3000 if ctx.quick else 150000) * budget
    for i in range(n):
        r = rng.random()
        if r < 0.2: text = "".join(rand_cp(rng) for _ in range(rng.choice([0, 1, 2, 5, 20, 100, 1024])))
        elif r < 0.3: text = "$" + "".join(rand_cp(rng) for _ in range(rng.randint(0, 30)))
        elif r < 0.5: text = "$" + "".join(rng.choice(harness.ALPH) for _ in range(rng.randint(0, 20)))
        elif r < 0.65: text = nest(rng, rng.choice([1, 2, 5, 16, 31, 32]))
        elif r < 0.76:
            # string literals built from well-formed and malformed escape items (see C09), in both positions, often ending right at an escape
            import checks.c09 as c09
            q = rng.choice(["'", '"'])
            body = "".join(c09.item(rng, q) for _ in range(rng.randint(0, 4)))
            if q in body.replace("\\\\", "").replace("\\" + q, ""): body = body.replace(q, "")
            text = rng.choice(["$[%s%s%s]", "$[?@==%s%s%s]", "$[?match(@, %s%s%s)]", "$..[%s%s%s, 0]"]) % (q, body, q)
            if rng.random() < 0.1: text = text[:rng.randint(2, len(text))]
        elif r < 0.8 and i % 2:
            # operand/operator soup inside a filter, bare, parenthesised or as a function argument: a token where an operator belongs,
            # an operator where an operand belongs, several operands in a row
            soup = " ".join(rng.choice(SOUP) for _ in range(rng.randint(2, 6)))
            text = rng.choice(["$[?(%s)]", "$[?%s]", "$[?length((%s)) == 1]", "$[?@.a && (%s)]", "$[?!(%s)]", "$[?count(@[?(%s)]) > 0]", "$[?((%s))]"]) % soup
        elif r < 0.86 and i % 3 == 0:
            # grammatical filters that are not necessarily well-typed (calls nested in calls, queries and comparisons in every argument position):
            # compile() must refuse the ill-typed ones with a JSONPathError - if it lets one through, find() below must still not raise anything else
            text = gen.render_query(rng, [(rng.choice(["child", "desc"]), [("filter", gen.loose_test(rng, gen.SIMPLE_NAMES, reg, rng.randint(1, 3)))])])
        elif r < 0.8: text = "$[?@.a == %s%s]" % (rng.choice(["", "-"]), rng.choice(["1e400", "1" + "0" * 400, "1e-400", "0." + "0" * 400 + "1", "1e99999", "9" * 30 + "." + "9" * 30, "1E+309"]))
        else:
            base = gen.render_query(rng, gen.rand_query(rng, names=gen.NAMES if rng.random() < 0.3 else gen.SIMPLE_NAMES, depth=rng.randint(1, 3)))
            m = rng.random()
            text = harness.mutate_text(rng, base) if m < 0.4 else (harness.mutate_struct(rng, base) if m < 0.8 else base)
        try:
            c = env.compile(text)
        except Exception as ex:
            try: str(ex)
            except Exception as ex2: ex = ex2
            out = wire.enc_exception(ex)[:2]
            yield Case({"text": text}, harness.compile_req(reg, text), out, None, None, len(text) > 2, "compile-error")
            if out[0] == 2:
                yield Case({"text": text, "exception": repr(ex)[:200]}, None, [9], [118, 0], None, True, "compile-error", True,
                           lambda a, b, e=repr(ex)[:160]: "compile() raised an exception that is not a JSONPathError: " + e)
            continue
        for v in rng.sample(VALUES, 3):
            del rx[:]
            try:
                out = harness.enc_nodes(c.find(v))
            except Exception as ex:
                try: str(ex)
                except Exception as ex2: ex = ex2
                out = wire.enc_exception(ex)[:2]
            rows = list(dict.fromkeys(rx))
            if out[0] == 2:
                yield Case({"text": text, "value": v}, None, [9], [118, 0], None, True, "evaluated", True,
                           lambda a, b: "find() raised an exception that is not a JSONPathError")
            yield Case({"text": text, "value": v}, [4, 100] + renc + gen.enc_rxtable(rows) + wire.enc_str(text) + wire.enc_json(v), out, None, None, len(text) > 2, "evaluated")


def replay(ctx, data):
    import json
    print(json.dumps(data.get("case"), indent=1, default=str)); return 0
