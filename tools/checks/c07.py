"""C07 - index and slice arithmetic."""
from vlib.runner import Case
from vlib import wire

PID = "C07"
PROPS = ["Props/C07.v"]
GEN = []
MODEL_IS_SPEC = True   # C07_slice / C07_index prove model = RFC procedure for all inputs
RULE = ("(len, start, end, step) / (len, index): exhaustive small grid (len 0..7, bounds -9..9 or omitted, step -4..4 or omitted), "
        "every component at +/-(2^53-1) and +/-(2^53-2), plus seeded random triples; each run through compile('$[s:e:t]').find(list(range(len))) "
        "and through the extracted Coq model and RFC procedure; non-trivial = selects at least one element or has a negative/omitted component; "
        "distinct = distinct (len,s,e,t) tuples")
TRUSTED_BASE = [
    "Coq 8.16.1 kernel (coqc); no native_compute; theorems closed under the global context (see theorems[].assumptions)",
    "Spec/Slice.v is a literal transcription of RFC 9535 2.3.4.2.2 Normalize/Bounds/loops and 2.3.3.2",
    "Model/Slice.v models CPython list indexing, slice.indices, range and list[slice] by hand; tied to the code by this correspondence run",
    "extraction: ExtrOcamlBasic only (bool/option/unit/list/prod/sumbool/comparison to OCaml natives); OCaml 4.13.1; ocaml/driver.ml.src integer I/O",
]
ASSUMPTIONS = ["array lengths explored by the correspondence are <= 40; the theorems hold for every length",
               "integers outside the environment's configured index range are rejected by compile() (C05) and are not part of this check"]

LIM = (1 << 53) - 1


def fmt(x): return "" if x is None else str(x)


def cases(ctx, budget):
    import jsonpath_rfc9535 as jp
    env = jp.JSONPathEnvironment()
    rng = ctx.rng
    arrays = {n: list(range(n)) for n in range(0, 41)}

    def impl(text, arr):
        try:
            return wire.enc_list(lambda n: [n.location[0]] + wire.enc_json(n.value) if len(n.location) == 1 else [-999],
                                 list(env.find(text, arr)))
        except Exception as ex:
            return wire.enc_exception(ex)

    def expect(spec):          # spec reply: n, i1..in  ->  pairs (i, JNum i)
        n, idx = spec[0], spec[1:]
        out = [n]
        for i in idx: out += [i, 2, i]
        return out

    def slice_case(n, s, e, t, kind):
        text = "$[%s:%s%s]" % (fmt(s), fmt(e), "" if (t is None and rng.random() < 0.5) else ":" + fmt(t))
        out = impl(text, arrays[n])
        pay = wire.enc_opt(wire.enc_z, s) + wire.enc_opt(wire.enc_z, e) + wire.enc_opt(wire.enc_z, t)
        nontriv = out[0] > 0 or any(x is None or x < 0 for x in (s, e, t))
        return Case({"len": n, "start": s, "end": e, "step": t, "text": text}, [7, n] + pay, out, [107, n] + pay, expect, nontriv, kind)

    def index_case(n, i, kind):
        text = "$[%d]" % i
        out = impl(text, arrays[n])
        return Case({"len": n, "index": i, "text": text}, [8, n, i], out, [108, n, i], expect, out[0] > 0 or i < 0, kind)

    small = [None] + list(range(-9, 10))
    steps = [None] + list(range(-4, 5))
    lens = range(0, 8) if ctx.quick else range(0, 11)
    stride = 1 if not ctx.quick else 1
    for n in lens:
        for s in small:
            for e in small:
                for t in steps:
                    yield slice_case(n, s, e, t, "slice-grid")
        for i in range(-12, 13):
            yield index_case(n, i, "index-grid")
    big = [LIM, -LIM, LIM - 1, -LIM + 1, 0, 1, -1, None, 3, -3]
    for n in (0, 1, 5):
        for s in big:
            for e in big:
                for t in big:
                    if any(x is not None and abs(x) > 100 for x in (s, e, t)):
                        yield slice_case(n, s, e, t, "slice-limits")
        for i in big:
            if i is not None:
                yield index_case(n, i, "index-limits")
    nrand = (3000 if ctx.quick else 200000) * budget

    def pick():
        r = rng.random()
        if r < 0.15: return None
        if r < 0.75: return rng.randint(-45, 45)
        if r < 0.9: return rng.choice([LIM, -LIM, LIM - 1, 1 - LIM])
        return rng.randint(-LIM, LIM)
    for _ in range(nrand):
        n = rng.randint(0, 40)
        if rng.random() < 0.8:
            yield slice_case(n, pick(), pick(), pick(), "slice-random")
        else:
            i = pick()
            yield index_case(n, 0 if i is None else i, "index-random")
    # neither selector matches objects or scalars (no model needed: the expected result is empty)
    for v in ({"0": 1, "1": 2}, {}, "abc", 5, 1.5, True, None):
        for text in ("$[0]", "$[-1]", "$[:]", "$[::-1]", "$[0:1]"):
            out = impl(text, v)
            yield Case({"value": repr(v), "text": text}, None, out, None, None, True, "non-array", True)


def post(ctx, cases_):
    bad = [c.desc for c in cases_ if c.kind == "non-array" and c.impl_out != [0]]
    if bad:
        raise AssertionError("index/slice selector matched a non-array: %r" % bad[:3])
    return {"exhaustive": False}


def replay(ctx, data):
    import json
    print(json.dumps(data.get("case"), indent=1)); return 0

TECHNIQUE = "Coq proof (lia, induction on loop fuel) that the CPython slice/index arithmetic model equals the RFC 9535 procedure for all integers; model tied to the code by differential runs of the extracted model against compile().find()"
LEVEL_TEXT = ("Machine-checked theorems C07_slice, C07_index, C07_location_nonneg, C07_fuel_adequate (all lengths, all start/end/step in Z, present or omitted): "
              "model of SliceSelector/IndexSelector.resolve = RFC Normalize/Bounds/loop. The hand-written model is tied to the code by an exhaustive small grid plus "
              "limit and random cases run through the real compile().find() on every check.")
LEVEL_NOTE = ("Trusted: Coq kernel; Spec/Slice.v as a reading of RFC 9535 2.3.4.2.2; Model/Slice.v as a model of CPython slice.indices/range/list indexing "
              "(validated by correspondence only); extraction (ExtrOcamlBasic) and the OCaml integer driver.")
