"""C01 - structural selection (filter-free queries)."""
from vlib.runner import Case
from vlib import wire, gen

PID = "C01"
PROPS = ["Props/C01.v"]
GEN = []
MODEL_IS_SPEC = True
RULE = ("filter-free query ASTs (1-4 segments, child/descendant, name/index/slice/wildcard selectors, 1-3 selectors per segment) rendered in random legal "
        "spellings (shorthand or bracket, either quote, escapes, blanks) x random JSON values (depth <= 4, colliding and exotic member names); "
        "find() compared node by node (location and type-strict value) with the extracted Coq model m_find and specification sem; "
        "non-trivial = the result has at least one node; distinct = distinct (text, value) pairs")
TRUSTED_BASE = [
    "Coq 8.16.1 kernel; theorems closed under the global context",
    "Spec/Sem.v (descendants, s_sel, s_seg) as a reading of RFC 9535 2.3, 2.5, 2.1.2",
    "Model/Eval.v hand-written from selectors.py/segments.py/query.py, tied to the code by this correspondence",
    "the parser is not part of this model yet: the AST is rendered to text and compiled by the real compile()",
    "extraction (ExtrOcamlBasic only) and the OCaml integer driver",
]
ASSUMPTIONS = ["container nesting of generated values <= max_recursion_depth (deeper data is C18)"]
TECHNIQUE = "Coq proof by nested induction on JSON values that the evaluator model equals the RFC nodelist semantics for every filter-free query; differential runs of find() against the extracted model"
LEVEL_TEXT = ("Theorem C01_eval: for every filter-free query and every JSON value whose nesting is within the limit, m_find = Ok (sem q v) "
              "(same nodes, same order, duplicates kept). C01_find_text: the same for every TEXT that compiles to a filter-free query, in whatever lexical spelling - find(text, value) is the RFC nodelist of "
              "the query the typed token grammar derives from the lexer's tokens for that text, and the text is derivable from the RFC 9535 ABNF (C04_sound). C01_every_spelling: conversely every spelling of every "
              "filter-free query (any token sequence the grammar derives, any text spelling it: blanks, shorthand/brackets, both quote styles, escapes) compiles to that query and find returns its RFC nodelist. C01_abnf_no_filter: from the ABNF itself - for every string the grammar derives that contains no '?' there is a filter-free query q with "
              "find(string, v) = the RFC nodelist of q on every value within the depth limit, in every environment whose integer range contains the integers the string mentions (Proofs/AbnfInvert.v, AbnfSpell.v). "
              "The model is tied to the code by differential testing on generated (query, value) pairs.")
LEVEL_NOTE = "Trusted: Coq kernel; Spec/Sem.v as a reading of the RFC; correspondence harness; extraction and driver."


def cases(ctx, budget):
    import jsonpath_rfc9535 as jp
    env = jp.JSONPathEnvironment()
    rng = ctx.rng
    n = (4000 if ctx.quick else 150000) * budget
    reg = gen.enc_registry(gen.BUILTINS)
    for i in range(n):
        exotic = rng.random() < 0.3
        names = gen.NAMES if exotic else gen.SIMPLE_NAMES
        v = gen.rand_json(rng, depth=rng.randint(1, 4), fan=4, names=names, top=rng.random() < 0.9)
        if rng.random() < 0.7: q = gen.guided_query(rng, v, names=names, filters=False, maxseg=4)
        else: q = gen.rand_query(rng, names=names, filters=False, depth=1, maxseg=4)
        text = gen.render_query(rng, q)
        try:
            nodes = env.find(text, v)
            out = [0] + wire.enc_list(lambda nd: wire.enc_node(nd.location, nd.value), list(nodes))
            nontriv = len(nodes) > 0
        except Exception as ex:
            out = wire.enc_exception(ex)[:2]
            nontriv = True
        tail = gen.enc_segs(q) + wire.enc_json(v)
        yield Case({"text": text, "value": v}, [3, 100] + reg + [0] + tail, out, [103] + reg + [0] + tail, None, nontriv,
                   "desc" if any(k == "desc" for k, _ in q) else "child")


def replay(ctx, data):
    import json
    print(json.dumps(data.get("case"), indent=1)); return 0


def norm_reply(r):
    return r[:2] if r and r[0] in (1, 2) else r
