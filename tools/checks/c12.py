"""C12 - str(query) is a faithful canonical form."""
from vlib import gen, harness, wire
from vlib.runner import Case

PID = "C12"
PROPS = ["Props/C12.v"]
GEN = ['ParseConst.v']
MODEL_IS_SPEC = False
RULE = ("valid query ASTs (every selector kind, slices with omitted parts, names/literals over an alphabet with quotes, backslash, controls, DEL, non-BMP; numbers in every spelling "
        "within the exact range; every nesting of !, &&, ||, comparisons, parentheses, calls, embedded filters) rendered in random spellings; for each: t1 = str(compile(text)); "
        "t1 must be in the RFC grammar (Coq recognizer), compile(t1) must give the same compiled structure (an omitted slice step and step 1 identified), str(compile(t1)) must equal t1; t1 is also compared with the "
        "serializer model applied to the parser model's output; non-trivial = query contains a filter or a non-trivial name; distinct = distinct texts")
TRUSTED_BASE = [
    "Coq 8.16.1 kernel; theorems closed under the global context",
    "Model/Serialize.v hand-written from the __str__ methods, serialize.canonical_string (json.dumps escaping modelled from its documentation/C source) and repr() of int/float "
    "(shortest round-trip search; validated against CPython); tied to the code by correspondence",
    "Spec/Rfc9535Grammar.v + proved recognizer decide that the serialisation is a valid query text",
    "extraction (ExtrOcamlBasic only) and the OCaml integer driver",
]
ASSUMPTIONS = ["numeric literals: |int| <= 2^53, floats printed by repr() without exponent or with a negative exponent (floats >= 1e16 print as 1e+16 and re-lex as integers: outside the property's stated range)"]
TECHNIQUE = "serializer model + parser model correspondence; round trip compile(str(q)) = q, idempotence and grammar membership checked on the implementation with the Coq recognizer; Coq theorems on canonical quoting"
LEVEL = "proof"
LEVEL_TEXT = ("Proved (Props/C12.v): C12_roundtrip - for every registry and range and every well-typed, in-range query with any nesting of !, &&, ||, comparisons, function calls and embedded "
              "filters whose literals are strings, booleans, null, integers surviving repr()/float() and floats whose repr() is a FLOAT token text that float() reads back (decidable condition lx_query, Spec/Printable.v): the printed text lexes and parses to the same query "
              "(omitted slice steps made explicit), which prints identically again, compiles to itself and selects the same nodes on every value - end to end through the serializer, the whole lexer state "
              "machine incl. the filter state with its stacks, and the Pratt parser; C12_roundtrip_compiled, C12_filter_free_roundtrip, C12_quotes_canonical, C12_parentheses. FLOAT literals are covered through the decidable per-literal condition "
              "(the shape of repr(float) and float(repr(x)) = x are not proved in general; floats printed as 1e+16 or inf fail it): the check evaluates the hypothesis on every generated query, in Python and in the model "
              "(it holds on all of them) - round trip, idempotence and validity of the text are decided on every generated query against the real code, and the text is compared with the model.")
LEVEL_NOTE = "Float literals enter through a decidable per-literal side condition. Trusted: Coq kernel; serializer, lexer, parser models (correspondence); extraction and driver."


def cases(ctx, budget):
    rng = ctx.rng
    env = harness.make_env()
    reg = gen.BUILTINS
    renc = gen.enc_registry(reg)
    n = (4000 if ctx.quick else 200000) * budget
    fm = 1 if ctx.quick else 3
    for i in range(n):
        names = gen.NAMES if rng.random() < 0.5 else gen.SIMPLE_NAMES
        q = gen.rand_query(rng, names=names, depth=rng.randint(1, 3), maxseg=4)
        text = gen.render_query(rng, q)
        info = {}
        try:
            c1 = env.compile(text)
            t1 = str(c1)
            out = [0] + wire.enc_str(t1)
            try:
                c2 = env.compile(t1)
                a1, a2 = gen.norm_slices(gen.ast_of_query(c1)), gen.norm_slices(gen.ast_of_query(c2))
                info["same"] = a1 == a2 and repr(a1) == repr(a2)      # repr: 1 and 1.0 and True are different literals
                info["idem"] = str(c2) == t1
            except Exception as ex:
                info["reparse_error"] = "%s: %s" % (type(ex).__name__, ex)
        except Exception as ex:
            out = wire.enc_exception(ex)[:2]; t1 = ""

        def chk(impl_out, spec, info=info):
            if impl_out[0] != 0: return None
            if spec != [1]: return "str(query) is not a valid RFC 9535 query"
            if "reparse_error" in info: return "str(query) does not compile: " + info["reparse_error"]
            if not info.get("same"): return "str(query) compiles to a different query"
            if not info.get("idem"): return "serialising again gives a different text"
            return None
        nontriv = "filter" in repr(q) or any(nm not in gen.SIMPLE_NAMES for nm in names if repr(nm) in repr(q))
        if out[0] == 0:
            # the decidable hypothesis of theorem C12_roundtrip (Spec/Printable.v, lx_query), evaluated independently here on the compiled query and by the model:
            # literals are strings / booleans / null / integers that survive repr() and float() / floats printed in FLOAT token shape; names are Unicode scalar values; function names are lexable
            hyp = lx_query(gen.ast_of_query(c1))
            yield Case({"text": text, "hypothesis_of_C12_roundtrip": hyp}, [22] + renc + wire.enc_str(text), [0, 1 if hyp else 0], None, None, False,
                       "theorem-hypothesis-holds" if hyp else "theorem-hypothesis-fails (e.g. a float printed as 1e+16): correspondence only")
        yield Case({"text": text, "str": t1}, [5] + renc + wire.enc_str(text), out if out[0] == 0 else out, [104, fm] + wire.enc_str(t1), None, nontriv,
                   "filter" if "filter" in repr(q) else "plain", True, chk)


import re, math
FLOAT_SHAPE = re.compile(r"-?[0-9]+\.[0-9]+(?:[eE][+-]?[0-9]+)?|-?[0-9]+[eE]-[0-9]+")


def lx_lit(v):
    if v is None or isinstance(v, bool): return True
    if isinstance(v, str): return all(not (0xD800 <= ord(ch) <= 0xDFFF) for ch in v)
    if isinstance(v, int):
        try: return int(float(repr(v))) == v
        except OverflowError: return False
    if isinstance(v, float):
        # the text repr() gives has the shape of a FLOAT token (so no inf / nan / 1e+16), no leading zero, and float() reads it back as the same float
        t = repr(v)
        return bool(FLOAT_SHAPE.fullmatch(t)) and float(t) == v and (math.copysign(1.0, float(t)) == math.copysign(1.0, v))
    return False


def lx_expr(e):
    k = e[0]
    if k == "lit": return lx_lit(e[1])
    if k in ("rel", "abs"): return all(lx_seg(g) for g in e[1])
    if k == "call":
        f = e[1]
        ok = bool(f) and "a" <= f[0] <= "z" and all(("a" <= ch <= "z") or ch == "_" or ("0" <= ch <= "9") for ch in f[1:])
        return ok and all(lx_expr(a) for a in e[2])
    if k == "not": return lx_expr(e[1])
    if k in ("and", "or"): return lx_expr(e[1]) and lx_expr(e[2])
    if k == "cmp": return lx_expr(e[2]) and lx_expr(e[3])
    raise ValueError(k)


def lx_sel(s):
    if s[0] == "name": return lx_lit(s[1])
    if s[0] == "filter": return lx_expr(s[1])
    return True


def lx_seg(g):
    return bool(g[1]) and all(lx_sel(s) for s in g[1])


def lx_query(q):
    return all(lx_seg(g) for g in q)


def norm_reply(r):
    return r[:2] if r and r[0] in (1, 2) else r


def replay(ctx, data):
    import json
    print(json.dumps(data.get("case"), indent=1, default=str)); return 0
