"""C16 - iterator independence under interleaving / threads."""
import gc, itertools, sys, threading
from vlib import gen, harness, wire
from vlib.runner import Case

PID = "C16"
PROPS = ["Props/C16.v"]
GEN = ["Effects.v"]
MODEL_IS_SPEC = False
RULE = ("pools of 2-3 live result iterators (same compiled query on the same value, same query on different values, different queries of one environment, different environments; "
        "queries with filters, nested filters, filters that read the root $ applied to different documents at once, and descendant segments) with combined result length <= 40: EVERY schedule of next() calls of length total+k is replayed on fresh "
        "iterators of the real library (sampled where there are more than 400 (quick) / 3000 schedules), with abandoned iterators dropped and garbage-collected mid-schedule; each iterator's outputs must be the prefix "
        "of its solitary run; plus 8 threads compiling and evaluating on one shared environment under sys.setswitchinterval(1e-6), compared with sequential results; "
        "the solitary sequences are compared with the model; non-trivial = at least two iterators yield something; distinct = distinct (pool, schedule)")
TRUSTED_BASE = [
    "Coq 8.16.1 kernel; theorems closed under the global context",
    "Model/History.v pool/pnext: an iterator is the remaining part of its sequence; C16_effects (regenerated inventory) is what justifies that nothing is shared",
    "OS / interpreter thread schedules are NOT modelled: the thread runs are exploration evidence only",
    "extraction (ExtrOcamlBasic only) and the OCaml integer driver",
]
ASSUMPTIONS = ["logical interleavings of next() are what the theorem covers; true parallelism is limited by the GIL and not enumerated"]
TECHNIQUE = "Coq simulation theorem (pool of independent cursors, all schedules) + regenerated effect obligation; exhaustive replay of small schedules and threaded runs against the real generators"
LEVEL_TEXT = ("C16_interleave (every pool, schedule and iterator: outputs = solitary prefix) and C16_effects (regenerated). Partial, stated as such: OS thread schedules cannot be enumerated "
              "or replayed by a Gallina model; they are exercised, not proved.")
LEVEL_NOTE = "Partial for threads. Trusted: Coq kernel; effect scanner and policy; correspondence; extraction and driver."
norm_reply = harness.norm_reply


def key(nd):
    return (nd.location, repr(nd.value), type(nd.value).__name__)


def cases(ctx, budget):
    rng = ctx.rng
    npools = (40 if ctx.quick else 1500) * budget
    cap = 400 if ctx.quick else 3000
    rx = []
    env_a = harness.make_env(record_rx=rx)
    env_b = harness.make_env(record_rx=rx)
    renc = gen.enc_registry(gen.BUILTINS)
    problems_total = 0
    for p in range(npools):
        k = rng.choice([2, 2, 3])
        names = gen.SIMPLE_NAMES
        specs = []
        base_v = gen.rand_json(rng, depth=rng.randint(1, 3), fan=3, names=names, top=True)
        base_q = gen.guided_query(rng, base_v, names=names, filters=rng.random() < 0.6, depth=2, maxseg=3)
        if rng.random() < 0.4:      # make sure descendant segments (their traversal state) are well represented
            dsel = rng.choice([("wild",), ("name", rng.choice(names)), ("index", rng.choice([0, 1, -1])), ("slice", None, None, rng.choice([None, 2, -1]))])
            base_q = list(base_q); base_q.insert(rng.randint(0, len(base_q)), ("desc", [dsel]))
        base_t = gen.render_query(rng, base_q)
        shared = env_a.compile(base_t)
        same_first = rng.random() < 0.5
        for i in range(k):
            mode = "same" if (same_first and i < 2) else rng.choice(["same", "same-query-other-value", "other-query", "other-env"])
            if mode == "same": specs.append((shared, base_t, base_v, env_a))
            elif mode == "same-query-other-value":
                specs.append((shared, base_t, gen.rand_json(rng, depth=2, fan=3, names=names, top=True), env_a))
            else:
                v = gen.rand_json(rng, depth=rng.randint(1, 3), fan=3, names=names, top=True)
                t = gen.render_query(rng, gen.guided_query(rng, v, names=names, filters=rng.random() < 0.6, depth=2, maxseg=3))
                e = env_a if mode == "other-query" else env_b
                specs.append((e.compile(t), t, v, e))
        if rng.random() < 0.3:
            # one compiled query whose filter reads the ROOT, live over different documents at once: each iterator's $ is its own document
            t = rng.choice(["$.items[?@.v >= $.limit].id", "$.items[?@.v < $.limit]", "$..[?@.v == $.limit].id", "$.items[?$.on && @.v != $.limit].id",
                            "$.items[?count($.items[?@.v > $.limit]) > @.v].id", "$.items[?@.v >= $.limit][?@ != $.limit]"])
            cq = env_a.compile(t)
            specs = []
            for i in range(k):
                v = {"limit": rng.randint(0, 4), "on": rng.random() < 0.7,
                     "items": [{"id": 10 * i + j, "v": rng.randint(0, 5)} for j in range(rng.randint(2, 5))]}
                specs.append((cq, t, v, env_a))
        solos = []
        for c, t, v, e in specs:
            del rx[:]
            s = [key(nd) for nd in c.finditer(v)]
            solos.append(s)
            out = harness.enc_nodes(c.find(v))
            rows = list(dict.fromkeys(rx))
            yield Case({"text": t, "value": v}, [4, 100] + renc + gen.enc_rxtable(rows) + wire.enc_str(t) + wire.enc_json(v), out, None, None, len(s) > 0, "solo")
        total = sum(len(s) for s in solos)
        if total > 40 or total == 0:
            continue
        length = total + k
        all_scheds = itertools.product(range(k), repeat=length) if k ** length <= cap else None
        scheds = all_scheds if all_scheds is not None else (tuple(rng.randrange(k) for _ in range(length)) for _ in range(cap))
        nsched = 0
        bad = None
        for sched in scheds:
            nsched += 1
            its = [iter(c.finditer(v)) for c, t, v, e in specs]
            got = [[] for _ in range(k)]
            drop_at = rng.randrange(length) if rng.random() < 0.3 else None
            dropped = None
            for step, i in enumerate(sched):
                if drop_at == step:
                    dropped = rng.randrange(k); its[dropped] = None; gc.collect()
                if its[i] is None: continue
                try: got[i].append(key(next(its[i])))
                except StopIteration: got[i].append(None)
            for i in range(k):
                cnt = len(got[i])
                exp = (solos[i] + [None] * cnt)[:cnt]
                if got[i] != exp:
                    bad = {"schedule": list(sched), "iterator": i, "got": repr(got[i])[:300], "expected": repr(exp)[:300], "texts": [s[1] for s in specs]}
                    break
            if bad: break
        nt = sum(1 for s in solos if s) >= 2
        desc = {"texts": [s[1] for s in specs], "schedules": nsched, "exhaustive": all_scheds is not None, "total_results": total}
        if bad:
            desc["problem"] = bad
            yield Case(desc, None, [9], [118, 0], None, True, "pool", True, lambda a, b, d=bad: "iterator %d yields a different sequence under interleaving" % d["iterator"])
        else:
            yield Case(desc, None, [0], None, None, nt, "pool")
    # threads: compile + find concurrently on a shared environment
    rounds = (60 if ctx.quick else 3000) * budget
    work = []
    for _ in range(24):
        v = gen.rand_json(rng, depth=3, fan=3, top=True)
        t = gen.render_query(rng, gen.guided_query(rng, v, filters=True, depth=2, maxseg=3))
        work.append((t, v, [key(nd) for nd in env_a.find(t, v)]))
    old = sys.getswitchinterval()
    sys.setswitchinterval(1e-6)
    errors = []
    try:
        def worker(seed):
            import random
            r = random.Random(seed)
            for _ in range(rounds):
                t, v, exp = work[r.randrange(len(work))]
                try:
                    got = [key(nd) for nd in env_a.compile(t).finditer(v)]
                except Exception as ex:
                    got = repr(ex)
                if got != exp: errors.append({"text": t, "got": repr(got)[:200], "expected": repr(exp)[:200]})
        ths = [threading.Thread(target=worker, args=(ctx.seed + i,)) for i in range(8)]
        for t in ths: t.start()
        for t in ths: t.join()
    finally:
        sys.setswitchinterval(old)
    if errors:
        yield Case({"threads": 8, "problem": errors[0]}, None, [9], [118, 0], None, True, "threads", True, lambda a, b: "threaded result differs from the sequential one")
    else:
        yield Case({"threads": 8, "rounds_per_thread": rounds, "queries": len(work)}, None, [0], None, None, True, "threads")


def replay(ctx, data):
    import json
    print(json.dumps(data.get("case"), indent=1, default=str)); return 0
