"""C19 - error positions."""
import re
from vlib import gen, harness, wire
from vlib.runner import Case

PID = "C19"
PROPS = ["Props/C19.v"]
GEN = ['LexConst.v']
MODEL_IS_SPEC = False
RULE = ("15%: string literals (both quotes, name and comparison position) with many other-kind quotes / escapes followed by a malformed item, near the end of the text; "
        "rejected strings: near-miss mutants of valid queries and token soup, re-rendered with LF / CR / CRLF / blanks inserted at positions where blank space is legal (and elsewhere), "
        "so that the error lands on any line; for each rejection: err.token.index must lie in [0, len(text)], and the 'line N, column M' printed by str(err) must equal the Coq "
        "specification's line/column of that offset; class, offset, line and column are also compared with the model; non-trivial = text contains a line break before the error; "
        "distinct = distinct strings")
TRUSTED_BASE = [
    "Coq 8.16.1 kernel; theorem closed under the global context",
    "Spec/Position.v: LF-only line counting, 0-based column (the convention the existing tests pin)",
    "Model/Position.v hand-written from Token.position; Model/Lex.v / Parse.v carry the offset of every error; tied to the code by correspondence",
    "extraction (ExtrOcamlBasic only) and the OCaml integer driver",
]
ASSUMPTIONS = ["error messages themselves are not compared, only the ', line N, column M' suffix"]
TECHNIQUE = ("Coq proofs on the model: Token.position equals the line/column specification for every text and offset; lexer state-machine invariant (text partition, tokens are slices of the text) "
             "and token-stream invariant through all parser functions give: every error offset lies inside the text; differential runs on multi-line rejected queries checking offset range, line and column")
LEVEL = "proof"
LEVEL_TEXT = ("Theorems C19_line_col (all texts, all offsets 0..len) and C19_offset_in_text (every JSONPathError compile() raises in the model - lexer, tokenize, every parser function - carries an offset "
              "0 <= i <= len(text); the synthetic EOF token with index -1 never becomes current), C19_tokens_are_slices. The model's errors and offsets are tied to the code by correspondence on rejected inputs.")
LEVEL_NOTE = "Trusted: Coq kernel; Spec/Position.v; Model/Lex.v, Model/Parse.v, Model/Tokens.v as transcriptions of lex.py, parse.py, tokens.py (correspondence); extraction and driver."

SUFFIX = re.compile(r", line (-?\d+), column (-?\d+)$")


def sprinkle(rng, text):
    out = []
    for ch in text:
        if rng.random() < 0.12: out.append(rng.choice(["\n", "\r", "\r\n", " ", "\n\n", "\t\n "]))
        out.append(ch)
    return "".join(out)


def cases(ctx, budget):
    rng = ctx.rng
    env = harness.make_env()
    n = (6000 if ctx.quick else 250000) * budget
    for i in range(n):
        r = rng.random()
        if r < 0.15:
            # a string literal with a malformed item late in its body, close to the end of the text: errors found while decoding
            # the literal must still point into the text, whatever rewriting the decoder applied to the body before
            q = rng.choice("'\"")
            other = '"' if q == "'" else "'"
            pre = "".join(rng.choice([other, other, other, "\\" + q, "a", "\\\\", "\\n", " "]) for _ in range(rng.randint(0, 9)))
            bad = rng.choice(["\t", "\x01", "\x1f", "\\x", "\\u12", "\\uD800", "\\uDC00\\uD800", "\\" + other, "\n"])
            lit = q + pre + bad + rng.choice(["", "z", other]) + q
            text = rng.choice(["$[%s]", "$[?@==%s]", "$.a[%s]", "$[?@.b[%s]]", "$[1,%s]"]) % lit
        elif r < 0.27:
            # errors found AFTER lexing, by the parser and the selector constructors (index or slice bound outside the exact range, leading
            # zeros, -0, unknown function, ill-typed filter): whitespace goes between tokens only so that the tokens stay intact
            big = str(rng.choice([2**53, -2**53, 2**53 + 7, 10**20, -10**19]))
            ok = lambda: str(rng.randint(-3, 9))
            pieces = rng.choice([
                ["$", "[", big, "]"], ["$", "[", ok(), ":", big, "]"], ["$", "[", big, ":", ok(), "]"], ["$", "[", ok(), ":", ok(), ":", big, "]"],
                ["$", ".a", "[", ok(), ",", ":", big, "]"], ["$", "[", "'a'", ",", ok(), ":", big, ":", ok(), "]"], ["$", "[", ok(), ":", "01", "]"],
                ["$", "[", "-0", ":", "]"], ["$", "..", "[", ":", ":", big, "]"], ["$", "[", "?", "@", "[", ok(), ":", big, "]", "]"],
                ["$", "[", "?", "nope", "(", "@", ")", "]"], ["$", "[", "?", "length", "(", "@", ".*", ")", "==", "1", "]"], ["$", "[", "?", "@", ".*", "==", "1", "]"],
                ["$", "[", "?", "count", "(", "1", ")", ">", "0", "]"], ["$", "[", "?", "@", ".a", "]", ".b", "[", ok(), ":", big, "]"],
            ])
            ws = lambda: rng.choice(["", "", " ", "\n", "\n ", "\r\n", "\n\n  ", "\t"])
            text = pieces[0] + "".join((ws() if p not in ("(",) and not p.startswith(".") else "") + p for p in pieces[1:])
        elif r < 0.7:
            base = gen.render_query(rng, gen.rand_query(rng, names=gen.SIMPLE_NAMES, depth=rng.randint(1, 3)))
            text = harness.mutate_text(rng, base) if rng.random() < 0.6 else harness.mutate_struct(rng, base)
        else:
            text = "$" + "".join(rng.choice(harness.ALPH) for _ in range(rng.randint(0, 12)))
        if rng.random() < 0.8 and not (0.15 <= r < 0.27): text = sprinkle(rng, text)
        try:
            env.compile(text)
            out = [0]
        except Exception as ex:
            enc = wire.enc_exception(ex)
            if enc[0] == 1 and enc[2] == 1:
                m = SUFFIX.search(str(ex))
                out = [1, enc[1], enc[3]] + ([int(m.group(1)), int(m.group(2))] if m else [-98, -98])
            elif enc[0] == 1:
                out = [1, enc[1], -99]
            else:
                out = enc
        off = out[2] if out[0] == 1 else 0

        def chk(impl_out, spec, text=text):
            if impl_out[0] != 1: return None
            if not (0 <= impl_out[2] <= len(text)): return "error offset outside the query text"
            if impl_out[3:5] != spec: return "printed line/column differ from the line/column of the offset"
            return None
        nontriv = out[0] == 1 and "\n" in text[:max(off, 0)]
        yield Case({"text": text}, [19] + wire.enc_str(text), out, [119, max(off, 0)] + wire.enc_str(text), None, nontriv,
                   "rejected" if out[0] == 1 else "accepted", out[0] == 1, chk)


def replay(ctx, data):
    import json
    print(json.dumps(data.get("case"), indent=1, default=str)); return 0
