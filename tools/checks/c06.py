"""C06 - comparison table."""
from vlib.runner import Case
from vlib import wire, gen

PID = "C06"
PROPS = ["Props/C06.v"]
GEN = []
MODEL_IS_SPEC = True
RULE = ("ordered pairs from a pool of JSON values of every kind (int/float twins, -0.0, 2^53 +/- 1, empty and non-BMP strings, true/false/null, "
        "nested arrays/objects differing only in a bool-vs-number leaf, objects with permuted members) plus 'nothing', x six operators x the way each side is "
        "produced (singular query, literal, value() result, missing member); evaluated through find('$[?<l> op <r>]', [{'l': a, 'r': b}]); "
        "non-trivial = every case; distinct = distinct (op, left, right, way)")
TRUSTED_BASE = [
    "Coq 8.16.1 kernel; theorems closed under the global context",
    "Spec/Compare.v as a reading of RFC 9535 2.3.5.2.2 (objects compared as maps)",
    "Model/Compare.v hand-written from _compare/_eq/_lt, Model/Eval.v from ComparisonExpression.evaluate; tied to the code by this correspondence",
    "Base/Json.v num_compare: exact rational comparison, assumed to be what CPython does for int/float mixes (validated here on twins and 2^53 boundaries)",
    "extraction (ExtrOcamlBasic only) and the OCaml integer driver",
]
ASSUMPTIONS = ["NaN and Infinity are not JSON and are excluded", "object member names are distinct (guaranteed by dict)"]
TECHNIQUE = "Coq proof (induction on both JSON trees, NoDup counting for dict-vs-map equality) that the model of _compare equals the RFC table; differential runs through find()"
LEVEL_TEXT = ("Theorem C06_table: for all comparands (any JSON value of any depth, or Nothing), every way of reaching the comparison and all six operators, "
              "the model of ComparisonExpression.evaluate/_compare equals the RFC comparison function; C06_deep_equality, C06_unordered, C06_derived. "
              "Model tied to the code by an exhaustive pool of ordered pairs run through the real find().")
LEVEL_NOTE = "Trusted: Coq kernel; Spec/Compare.v as a reading of the RFC; the hand model of _eq/_lt (correspondence only); extraction and driver."

OPS = ["==", "!=", "<", "<=", ">", ">="]
MISSING = object()


def pool():
    big = 1 << 53
    nested1 = {"k": [1, {"z": True}], "j": None}
    nested2 = {"j": None, "k": [1, {"z": 1}]}
    nested3 = {"j": None, "k": [1.0, {"z": True}]}
    return [MISSING, None, True, False, 0, 1, -1, 2, 0.0, -0.0, 1.0, 1.5, -1.5, 2.0, big, big + 1, big - 1, float(big), -big, 1e16, 1e-7, 3,
            "", "a", "b", "ab", "A", "1", "true", "\U0001F600", "￿", "é", "a\U0001F600", "a￿",
            [], [1], [True], [1.0], [0], [False], [None], [[]], [1, 2], [2, 1], ["a"], [[1]], [[True]],
            {}, {"x": 1}, {"x": True}, {"x": 1.0}, {"y": 1}, {"x": 1, "y": 2}, {"y": 2, "x": 1}, {"x": 1, "y": 3},
            {"x": [1]}, {"x": [True]}, nested1, nested2, nested3, {"": 0}, {"x": None}]


def cases(ctx, budget):
    import jsonpath_rfc9535 as jp
    env = jp.JSONPathEnvironment()
    rng = ctx.rng
    reg = gen.enc_registry(gen.BUILTINS)
    P = pool()
    compiled = {}

    def side(name, v, way):
        """text and AST of one comparand"""
        if way == "lit":
            return gen.render_lit(rng, v), ("lit", v)
        if way == "value":
            return "value(@.%s)" % name, ("call", "value", [("rel", [("child", [("name", name)])])])
        if way == "length":
            return "length(@.%s)" % name, ("call", "length", [("rel", [("child", [("name", name)])])])
        return "@.%s" % name, ("rel", [("child", [("name", name)])])

    def eff(v, way):
        """the comparand the way yields: length() of a string, array or object is its length, of anything else (a missing member included) Nothing"""
        if way != "length": return v
        return len(v) if (v is not MISSING and isinstance(v, (str, list, dict))) else MISSING

    def ways_for(v):
        w = ["query", "value", "length"]
        if v is not MISSING and (v is None or isinstance(v, (bool, int, float, str))) and not (isinstance(v, float) and abs(v) >= 1e16) \
                and not (isinstance(v, float) and v != 0 and abs(v) < 1e-4) and not (isinstance(v, int) and abs(v) > (1 << 53)):
            w.append("lit")
        return w

    def one(a, b, op, wa, wb):
        doc = {}
        if a is not MISSING: doc["l"] = a
        if b is not MISSING: doc["r"] = b
        ta, ea = side("l", a, wa)
        tb, eb = side("r", b, wb)
        text = "$[?%s %s %s]" % (ta, op, tb)
        q = [("child", [("filter", ("cmp", op, ea, eb))])]
        data = [doc]
        try:
            key = text
            c = compiled.get(key)
            if c is None:
                c = env.compile(text)
                if len(compiled) < 5000: compiled[key] = c
            nodes = c.find(data)
            out = [0] + wire.enc_list(lambda nd: wire.enc_node(nd.location, nd.value), list(nodes))
        except Exception as ex:
            out = wire.enc_exception(ex)[:2]
        tail = gen.enc_segs(q) + wire.enc_json(data)
        a, b = eff(a, wa), eff(b, wb)
        ca = [0] if a is MISSING else [1] + wire.enc_json(a)
        cb = [0] if b is MISSING else [1] + wire.enc_json(b)
        sel = [0, 1] + wire.enc_node((0,), doc)
        expect = lambda s, sel=sel: sel if s == [1] else [0, 0]
        desc = {"op": op, "left": "<missing>" if a is MISSING else a, "right": "<missing>" if b is MISSING else b, "ways": [wa, wb], "text": text}
        return Case(desc, [3, 100] + reg + [0] + tail, out, [106, gen.OPS[op]] + ca + cb, expect, True, op)

    for a in P:
        for b in P:
            for op in OPS:
                if ctx.quick:
                    yield one(a, b, op, rng.choice(ways_for(a)), rng.choice(ways_for(b)))
                else:
                    for wa in ways_for(a):
                        for wb in ways_for(b):
                            yield one(a, b, op, wa, wb)
    n = (2000 if ctx.quick else 100000) * budget
    for _ in range(n):
        a = gen.rand_json(rng, depth=rng.randint(0, 3), fan=3)
        if rng.random() < 0.5:
            b = mutate(rng, a)
        else:
            b = gen.rand_json(rng, depth=rng.randint(0, 3), fan=3)
        yield one(a, b, rng.choice(OPS), rng.choice(ways_for(a)), rng.choice(ways_for(b)))


def mutate(rng, v):
    """a value equal to v or differing in one leaf (bool <-> number, int <-> float, member order)"""
    r = rng.random()
    if isinstance(v, list):
        return [mutate(rng, x) if rng.random() < 0.5 else x for x in v]
    if isinstance(v, dict):
        items = list(v.items())
        if r < 0.5: rng.shuffle(items)
        return {k: (mutate(rng, x) if rng.random() < 0.4 else x) for k, x in items}
    if v is True and r < 0.4: return 1
    if v is False and r < 0.4: return 0
    if isinstance(v, bool): return v
    if isinstance(v, int) and abs(v) < (1 << 53) and r < 0.4: return float(v)
    if isinstance(v, int) and r < 0.5 and v in (0, 1): return bool(v)
    if isinstance(v, float) and v == int(v) and abs(v) < 1e15 and r < 0.4: return int(v)
    return v


def norm_reply(r):
    return r[:2] if r and r[0] in (1, 2) else r


def replay(ctx, data):
    import json
    print(json.dumps(data.get("case"), indent=1, default=str)); return 0
