"""C14 - purity, repeatability, non-interference."""
import copy, json, os, subprocess, sys
from vlib import build, gen, harness, wire
from vlib.runner import Case

PID = "C14"
PROPS = ["Props/C14.v"]
GEN = ["Effects.v"]
MODEL_IS_SPEC = False
RULE = ("random histories (10-40 operations) over up to 4 environments (plain, subclass with its own limits, with extra registered functions) and the module-level functions: "
        "create environment, register a function, compile, apply a compiled query, find via environment, find via module, mutate a document in place between applications; every document is deep-copied before each operation "
        "and compared afterwards (type-strict, plus identity of every container); every result is compared with the history model; earlier compiled queries are re-applied after later "
        "operations; a run of match()/search() queries on one environment with patterns the engine accepts and patterns check() accepts but the engine rejects, each result compared with a fresh environment; non-trivial = history contains a registration or a subclass and at least one non-empty result; distinct = distinct histories")
TRUSTED_BASE = [
    "Coq 8.16.1 kernel; theorems closed under the global context",
    "tools/pygen/gen_effects.py: inventory of every attribute/item store, mutator call, global statement and decorator in the package, regenerated on every run; "
    "Proofs/EffectsPolicy.v states which of them are tolerated (C14_effects is re-proved by computation on the regenerated list)",
    "Model/History.v: results are functions of (text, value, the one environment's registry/configuration)",
    "not modelled: the regex module's process-wide pattern cache (inside the C extension)",
    "extraction (ExtrOcamlBasic only) and the OCaml integer driver",
]
ASSUMPTIONS = ["mutator methods are recognised by name (append, extend, pop, update, ...); aliasing of caller data through a local name is treated as a violation by the policy"]
TECHNIQUE = "effect inventory regenerated from the source and checked against a purity policy inside Coq; Coq induction-free theorems on the history model; random operation histories against the real library with before/after comparison of the data"
LEVEL_TEXT = ("C14_effects (regenerated obligation), C14_repeatable, C14_env_isolation, C14_compiled_stable, C14_module_independent. The model-level theorems are short because the model has no "
              "shared state; the assurance that the code has none comes from the regenerated effect obligation and from the histories run against the real library.")
LEVEL_NOTE = "Trusted: Coq kernel; the effect scanner and the policy; correspondence; extraction and driver. The regex cache is not modelled."
norm_reply = harness.norm_reply
RX_GOOD = ['a.*', 'a', '.b', '[ab]+', 'a+b', 'b|zz', '.', 'a{1,2}b']
RX_ODD = ['a{2,1}', '[z-a]', 'a{3,2}b', 'a{2,1}|b', '[b-a]x']     # check() accepts them, the regex engine does not


def enc_find_error(ex):
    """an error of find(): compile-time errors carry the token offset (as the model's do); a recursion error raised during evaluation is compared by class only"""
    enc = wire.enc_exception(ex)
    if enc[0] != 1: return enc[:2]
    return enc[:2] + [0] if enc[1] == 6 else enc


def ids(v, acc):
    if isinstance(v, (list, dict)):
        acc.append(id(v))
        for x in (v.values() if isinstance(v, dict) else v): ids(x, acc)
    return acc


def mutate_in_place(rng, v):
    """change one leaf / add or remove one member somewhere inside v, keeping the same top-level object"""
    for _ in range(6):
        if isinstance(v, list):
            if v and rng.random() < 0.6:
                i = rng.randrange(len(v))
                if isinstance(v[i], (list, dict)) and rng.random() < 0.6: v = v[i]; continue
                v[i] = rng.choice([0, 1, 5, "a", None, True, 2.5]); return
            v.append(rng.choice([0, 1, "a", None, [1], {"a": 1}])); return
        if isinstance(v, dict):
            if v and rng.random() < 0.6:
                k = rng.choice(list(v))
                if isinstance(v[k], (list, dict)) and rng.random() < 0.6: v = v[k]; continue
                v[k] = rng.choice([0, 1, 5, "a", None, False, 2.5]); return
            v[rng.choice(gen.SIMPLE_NAMES)] = rng.choice([0, 1, "a", None, [1], {"a": 1}]); return
        return


def fresh_result(make_env, text, doc):
    """the same query text on a freshly built equivalent environment and an equal but distinct document"""
    try:
        return [1] + harness.enc_nodes(make_env().find(text, copy.deepcopy(doc)))
    except Exception as ex:
        enc = wire.enc_exception(ex)
        return [1] + enc[:2] + ([0] if enc[0] == 1 else [])


def run_slice(jops):
    """(in a fresh process) one environment, its registrations, at most one compile, then the operation in question: what the operation gives
    when nothing else has ever run in the process"""
    import jsonpath_rfc9535 as jp
    from jsonpath_rfc9535.function_extensions import FilterFunction, ExpressionType
    T = {1: ExpressionType.VALUE, 2: ExpressionType.LOGICAL, 3: ExpressionType.NODES}
    env = None; cq = None; o = None
    for j in jops:
        k = j["k"]
        if k == "env":
            class E(jp.JSONPathEnvironment):
                max_recursion_depth = j["depth"]
                min_int_index = j["lo"]
                max_int_index = j["hi"]
            env = E()
        elif k == "reg":
            class D(FilterFunction):
                arg_types = [T[a] for a in j["args"]]
                return_type = T[j["ret"]]
                const = j["const"]

                def __call__(self, *a): return self.const
            env.function_extensions[j["name"]] = D()
        elif k == "compile":
            try: cq = env.compile(j["text"]); o = [2, 0]
            except Exception as ex: o = [2] + wire.enc_exception(ex)
        elif k == "apply":
            try: o = [1] + harness.enc_nodes(cq.find(j["doc"]))
            except Exception as ex: o = [1] + enc_find_error(ex)
        elif k == "find":
            try: o = [1] + harness.enc_nodes(env.find(j["text"], j["doc"]))
            except Exception as ex: o = [1] + enc_find_error(ex)
        elif k == "mfind":
            try: o = [1] + harness.enc_nodes(jp.find(j["text"], j["doc"]))
            except Exception as ex: o = [1] + enc_find_error(ex)
    return o


def slice_for(jops, k):
    """the operations operation k rests on by the property's own terms: its environment, what was registered on it before, the compile it applies"""
    j = jops[k]
    if j["k"] == "mfind": return [j]
    upto = k
    if j["k"] == "apply":
        upto = j["cop"]
    e = jops[upto]["e"] if jops[upto]["k"] != "env" else None
    pre = [x for x in jops[:upto] if (x["k"] == "env" and x["idx"] == e) or (x["k"] == "reg" and x["e"] == e)]
    return pre + ([jops[upto]] if upto != k else []) + [j]


def alone(jops, k):
    """operation k run on its own in a fresh interpreter; None when that cannot be done"""
    root = os.environ.get("VERIF_ROOT", "/verif")
    code = "import sys, json; from checks import c14; print(json.dumps(c14.run_slice(json.load(sys.stdin))))"
    env = dict(os.environ, PYTHONPATH=os.pathsep.join([os.path.join(root, "tools"), build.REPO]), PYTHONHASHSEED="0")
    try:
        r = subprocess.run([sys.executable, "-c", code], input=json.dumps(slice_for(jops, k)), capture_output=True, text=True, env=env, timeout=120)
        return json.loads(r.stdout.strip().split("\n")[-1]) if r.returncode == 0 else None
    except Exception:
        return None


def first_difference(exe, ops, outs):
    """index of the first operation on which the history model and the implementation disagree (the model run on growing prefixes), or None"""
    def differs(m):
        req = [12, 0, m]
        for o in ops[:m]: req += o
        out = [m]
        for o in outs[:m]: out += o
        return norm_reply(build.run_jpx(exe, [req])[0]) != out
    if not ops or not differs(len(ops)): return None
    lo, hi = 1, len(ops)
    while lo < hi:
        mid = (lo + hi) // 2
        if differs(mid): hi = mid
        else: lo = mid + 1
    return lo - 1


def cases(ctx, budget):
    import jsonpath_rfc9535 as jp
    from jsonpath_rfc9535.function_extensions import FilterFunction, ExpressionType
    rng = ctx.rng
    n = (250 if ctx.quick else 10000) * budget
    T = {1: ExpressionType.VALUE, 2: ExpressionType.LOGICAL, 3: ExpressionType.NODES}

    def double(args, ret, const):
        class D(FilterFunction):
            arg_types = [T[a] for a in args]
            return_type = T[ret]

            def __call__(self, *a): return const
        return D()
    pend = []
    for h in range(n):
        envs, compiled, docs = [], [], []
        ops, outs, problems, log = [], [], [], []
        jops = []; cop = {}     # the operations again in a form a fresh process can run; compiled-query number -> its compile operation
        for _ in range(rng.randint(2, 4)):
            docs.append(gen.rand_json(rng, depth=rng.randint(1, 3), fan=4, top=True))
        steps = rng.randint(10, 40)
        regs = []        # per env: names registered so far
        classes = {}; used_texts = []; cfgs = []; regobjs = []
        applied = []     # (compiled query, document) pairs applied so far
        pending_reapply = []
        for s in range(steps):
            r = rng.random()
            if not envs or r < 0.08 and len(envs) < 4:
                depth = rng.choice([100, 100, 3, 50])
                lo, hi = rng.choice([(-harness.LIM, harness.LIM), (-5, 5)])

                # environments of one and the same class (same limits) must not share anything either: reuse a class made earlier in this history
                key = (depth, lo, hi)
                if key not in classes or rng.random() < 0.5:
                    class E(jp.JSONPathEnvironment):
                        max_recursion_depth = depth
                        min_int_index = lo
                        max_int_index = hi
                    classes[key] = E
                envs.append(classes[key]()); regs.append([]); cfgs.append(key); regobjs.append({})
                ops.append([0, depth, lo, hi, 0]); outs.append([0]); log.append("new env depth=%d range=%d..%d" % (depth, lo, hi))
                jops.append({"k": "env", "idx": len(envs) - 1, "depth": depth, "lo": lo, "hi": hi})
                continue
            if r > 0.93:
                # mutate one document in place (the caller's own business; results must follow the new content)
                d = rng.randrange(len(docs))
                mutate_in_place(rng, docs[d]); log.append("mutate doc%d in place" % d)
                pending_reapply.extend(c for c, dd in applied if dd == d)
                continue
            e = rng.randrange(len(envs))
            names = gen.SIMPLE_NAMES
            reg4 = [b for b in gen.BUILTINS if b[0] not in ('match', 'search')] + regs[e]      # regex results are an oracle elsewhere (C11)
            def mk_text():
                # the same text again in another (or the same) environment: a result must not depend on who compiled the text before
                if used_texts and rng.random() < 0.35: return rng.choice(used_texts)
                t = gen.render_query(rng, gen.rand_query(rng, names=names, reg=[x[:4] for x in reg4], depth=2, maxseg=3))
                used_texts.append(t)
                return t
            if r < 0.2:
                name = rng.choice(["f0", "f1", "length", "g"])
                args = [rng.choice([1, 2, 3]) for _ in range(rng.randint(0, 2))]
                ret = rng.choice([1, 2])
                const = rng.choice([0, 1, "a", None]) if ret == 1 else rng.random() < 0.5
                fobj = double(args, ret, const)
                envs[e].function_extensions[name] = fobj; regobjs[e][name] = (args, ret, const)
                regs[e] = [x for x in regs[e] if x[0] != name] + [(name, args, ret, [5] + gen.enc_pyobj(const))]
                if name == "length": reg4 = None
                ops.append([1, e] + wire.enc_str(name) + [len(args)] + args + [ret, 5] + gen.enc_pyobj(const)); outs.append([0])
                jops.append({"k": "reg", "e": e, "name": name, "args": args, "ret": ret, "const": const})
                log.append("register env%d %s%r->%d const=%r" % (e, name, args, ret, const))
            elif r < 0.4:
                text = mk_text()
                try:
                    compiled.append((e, envs[e].compile(text))); o = [2, 0, len(compiled) - 1]
                except Exception as ex:
                    o = [2] + wire.enc_exception(ex)
                ops.append([2, e] + wire.enc_str(text)); outs.append(o); log.append("compile env%d %r -> %r" % (e, text, o[:3]))
                jops.append({"k": "compile", "e": e, "text": text})
                if o[:2] == [2, 0]: cop[o[2]] = len(jops) - 1
            elif (r < 0.65 or pending_reapply) and compiled:
                c = rng.randrange(len(compiled)); d = rng.randrange(len(docs))
                if pending_reapply:
                    c = pending_reapply.pop(); d = [dd for cc, dd in applied if cc == c][-1]     # the same query on the same, now modified, object
                elif applied and rng.random() < 0.4:
                    c, d = rng.choice(applied)
                applied.append((c, d))
                before = copy.deepcopy(docs[d]); idb = ids(docs[d], [])
                try: o = [1] + harness.enc_nodes(compiled[c][1].find(docs[d]))
                except Exception as ex: o = [1] + enc_find_error(ex)
                if wire.enc_json(before) != wire.enc_json(docs[d]) or idb != ids(docs[d], []): problems.append("apply modified its argument")
                ops.append([3, c] + wire.enc_json(before)); outs.append(o); log.append("apply cq%d doc%d -> %r" % (c, d, o[:3]))
                jops.append({"k": "apply", "cop": cop[c], "doc": before})
            elif r < 0.85:
                text = mk_text(); d = rng.randrange(len(docs))
                before = copy.deepcopy(docs[d]); idb = ids(docs[d], [])
                try: o = [1] + harness.enc_nodes(envs[e].find(text, docs[d]))
                except Exception as ex: o = [1] + enc_find_error(ex)
                if wire.enc_json(before) != wire.enc_json(docs[d]) or idb != ids(docs[d], []): problems.append("find modified its argument")
                # isolation, decided without the model: a brand-new environment with the same limits and the same registrations, which has never
                # seen any other query or environment, must give the same answer
                dd, lo_, hi_ = cfgs[e]

                class F(jp.JSONPathEnvironment):
                    max_recursion_depth = dd
                    min_int_index = lo_
                    max_int_index = hi_
                fe = F()
                for nm, (a_, r_, c_) in regobjs[e].items(): fe.function_extensions[nm] = double(a_, r_, c_)
                try: of = [1] + harness.enc_nodes(fe.find(text, copy.deepcopy(before)))
                except Exception as ex: of = [1] + enc_find_error(ex)
                if of != o: problems.append("env%d.find(%r) after this history differs from the same call on a fresh environment with the same registrations" % (e, text))
                ops.append([4, e] + wire.enc_str(text) + wire.enc_json(before)); outs.append(o); log.append("find env%d %r doc%d -> %r" % (e, text, d, o[:3]))
                jops.append({"k": "find", "e": e, "text": text, "doc": before})
            else:
                text = gen.render_query(rng, gen.rand_query(rng, names=names, reg=[b for b in gen.BUILTINS if b[0] not in ('match', 'search')], depth=2, maxseg=3)); d = rng.randrange(len(docs))
                before = copy.deepcopy(docs[d])
                try: o = [1] + harness.enc_nodes(jp.find(text, docs[d]))
                except Exception as ex: o = [1] + enc_find_error(ex)
                if wire.enc_json(before) != wire.enc_json(docs[d]): problems.append("module find modified its argument")
                ops.append([5] + wire.enc_str(text) + wire.enc_json(before)); outs.append(o); log.append("module find %r doc%d -> %r" % (text, d, o[:3]))
                jops.append({"k": "mfind", "text": text, "doc": before})
        # a compiled query whose filter looks at the root, applied to the same object before and after the object changes
        if envs and rng.random() < 0.8:
            e = rng.randrange(len(envs))
            doc = {"limit": rng.randint(0, 5), "items": [rng.randint(0, 6) for _ in range(rng.randint(2, 5))], "tag": rng.choice(["a", "b"])}
            text = rng.choice(["$.items[?@ <= $.limit]", "$.items[?@ > $['limit']]", "$..[?@ == $.limit]", "$.items[?$.tag == 'a' && @ != $.limit]",
                               "$.items[?count($.items[?@ > 2]) > $.limit]"])
            try:
                cq = envs[e].compile(text); compiled.append((e, cq)); o = [2, 0, len(compiled) - 1]
                ops.append([2, e] + wire.enc_str(text)); outs.append(o); log.append("compile env%d %r" % (e, text))
                jops.append({"k": "compile", "e": e, "text": text}); cop[len(compiled) - 1] = len(jops) - 1
                for rnd in range(3):
                    before = copy.deepcopy(doc)
                    try: o = [1] + harness.enc_nodes(cq.find(doc))
                    except Exception as ex: o = [1] + enc_find_error(ex)
                    ops.append([3, len(compiled) - 1] + wire.enc_json(before)); outs.append(o); log.append("apply cq%d to %r -> %r" % (len(compiled) - 1, before, o[:3]))
                    jops.append({"k": "apply", "cop": cop[len(compiled) - 1], "doc": before})
                    import jsonpath_rfc9535 as _jp
                    if regs[e] == [] and o != fresh_result(_jp.JSONPathEnvironment, text, before):
                        problems.append("compiled query %r applied to %r after earlier applications gives a different result than a fresh compile on equal data" % (text, before))
                    which = rng.random()
                    if which < 0.5: doc["limit"] = rng.randint(0, 6)
                    elif which < 0.8: doc["items"].append(rng.randint(0, 6))
                    else: doc["tag"] = "b" if doc["tag"] == "a" else "a"
            except Exception:
                pass
        # regex function calls on one environment: each call's result must not depend on the patterns seen before it (a pattern check()
        # accepts may still be rejected by the engine; it then matches nothing, whatever was compiled before)
        if envs and rng.random() < 0.7:
            e = rng.randrange(len(envs))
            import jsonpath_rfc9535 as _jp
            strs = [rng.choice(["ab", "aab", "b", "abc", "ba", "", "zz", "a", "bab"]) for _ in range(rng.randint(3, 6))]
            sdoc = rng.choice([strs, {"k%d" % i: x for i, x in enumerate(strs)}, [{"s": x, "p": rng.choice(RX_GOOD + RX_ODD)} for x in strs]])
            for rnd in range(rng.randint(3, 6)):
                fn = rng.choice(["match", "search"])
                pat = rng.choice(RX_ODD) if rnd and rng.random() < 0.45 else rng.choice(RX_GOOD)
                if isinstance(sdoc, list) and sdoc and isinstance(sdoc[0], dict):
                    text = rng.choice(["$[?%s(@.s, '%s')]" % (fn, pat), "$[?%s(@.s, @.p)]" % fn, "$[?!%s(@.s, '%s')].s" % (fn, pat)])
                else:
                    text = rng.choice(["$[?%s(@, '%s')]" % (fn, pat), "$[?!%s(@, '%s')]" % (fn, pat), "$..[?%s(@, '%s')]" % (fn, pat)])
                before = copy.deepcopy(sdoc)
                try: o = [1] + harness.enc_nodes(envs[e].find(text, sdoc))
                except Exception as ex: o = [1] + enc_find_error(ex)
                log.append("regex find env%d %r -> %r" % (e, text, o[:3]))
                if wire.enc_json(before) != wire.enc_json(sdoc): problems.append("regex find modified its argument")
                if not any(x[0] in ("match", "search") for x in regs[e]) and o != fresh_result(_jp.JSONPathEnvironment, text, before):
                    problems.append("%r on %r after earlier regex calls on the same environment gives a different result than on a fresh environment" % (text, before))
        req = [12, 0, len(ops)]
        for o in ops: req += o
        out = [len(outs)]
        for o in outs: out += o
        nontriv = any(o[0] == 1 for o in ops) and any(o[:2] == [1, 0] and len(o) > 3 and o[2] > 0 for o in outs)
        pend.append((req, out, nontriv, problems, log, docs, ops, outs, jops))
    # State shared by the whole process (a class-level or module-level cache) is invisible to a comparison with a fresh environment made in
    # this same process: it is polluted too.  So where the history model and the implementation disagree, the first operation they disagree on
    # is run again on its own in a fresh interpreter - its environment, that environment's registrations, its compile, nothing else.  A
    # different result there is a failing history of the property itself: the operation's result depends on what ran before it.
    exe = getattr(ctx, "exe", None)
    nslices = 0
    if exe:
        replies = build.run_jpx(exe, [p[0] for p in pend])
        for p, rep in zip(pend, replies):
            req, out, nontriv, problems, log, docs, ops, outs, jops = p
            if norm_reply(rep) == out or len(jops) != len(ops) or nslices >= 12: continue
            k = first_difference(exe, ops, outs)
            if k is None: continue
            nslices += 1
            got = alone(jops, k)
            here = outs[k][:2] if jops[k]["k"] == "compile" and outs[k][:2] == [2, 0] else outs[k]
            if got is not None and got != here:
                problems.append("operation %d (%s) gives %r in this history but %r when it is run on its own in a fresh interpreter: its result depends on what ran before" % (k, log_of(jops[k]), here[:6], got[:6]))
    for req, out, nontriv, problems, log, docs, ops, outs, jops in pend:
        yield Case({"ops": len(ops), "history": log, "docs": docs}, req, out, None, None, nontriv, "history")
        if problems:
            yield Case({"problems": problems, "history": log, "docs": docs}, None, [9], [118, 0], None, True, "history", True, lambda a, b, p=problems: "; ".join(p[:3]))


def log_of(j):
    return {"compile": "compile %r" % j.get("text"), "find": "find %r" % j.get("text"), "mfind": "module find %r" % j.get("text"), "apply": "apply"}.get(j["k"], j["k"])


def norm_reply(r):
    return r


def replay(ctx, data):
    import json
    print(json.dumps(data.get("case"), indent=1, default=str)); return 0
