#!/usr/bin/env python3
"""Run registered checks against a seeded breaking change: apply seeded/<name>/patch.diff to /repo, confirm the
baseline tests still pass and the demonstration fails, run the given checks, undo the patch, confirm the
demonstration passes again.  Usage: tools/seedrun.py <name> <Cxx> [<Cyy> ...]"""
import json, os, subprocess, sys, time
name, checks = sys.argv[1], sys.argv[2:]
d = "/verif/seeded/" + name
def sh(c, **k): return subprocess.run(c, shell=True, capture_output=True, text=True, **k)
assert sh("git -C /repo status --porcelain").stdout.strip() == "", "repo not clean"
res = {"name": name, "checks": {}}
import shutil, tempfile
saved = tempfile.mkdtemp(prefix="evidence-", dir="/verif/build")
for c in checks:
    if os.path.exists("/verif/evidence/%s.json" % c): shutil.copy("/verif/evidence/%s.json" % c, saved)
r = sh("git -C /repo apply %s/patch.diff" % d); assert r.returncode == 0, r.stderr
try:
    t = sh("cd /repo && /venv/bin/python -m pytest -q -p no:cacheprovider --continue-on-collection-errors 2>&1 | tail -1").stdout.strip()
    res["baseline_with_patch"] = t
    dm = sh("cd /tmp && PYTHONPATH=/repo /venv/bin/python %s/demo.py" % d)
    res["demo_with_patch_exit"] = dm.returncode
    for c in checks:
        t0 = time.time()
        o = sh("cd /verif && bin/check %s --tier quick" % c)
        lines = [l for l in o.stdout.split("\n") if l.startswith("VIOLATION") or l.startswith(c + " ")]
        res["checks"][c] = {"exit": o.returncode, "lines": lines, "seconds": round(time.time() - t0, 1)}
        for l in lines:
            if "replay=" in l:
                rp = l.split("replay=")[1].split()[0]
                try:
                    j = json.load(open(rp)); res["checks"][c]["replay_excerpt"] = json.dumps(j.get("case", j.get("broken")), default=str)[:600]
                except Exception as ex: res["checks"][c]["replay_excerpt"] = repr(ex)
finally:
    sh("git -C /repo checkout -- .")
    for c in checks:      # the evidence written while the change was applied describes a broken tree: put the previous record back
        if os.path.exists(os.path.join(saved, c + ".json")): shutil.copy(os.path.join(saved, c + ".json"), "/verif/evidence/%s.json" % c)
    shutil.rmtree(saved, ignore_errors=True)
dm = sh("cd /tmp && PYTHONPATH=/repo /venv/bin/python %s/demo.py" % d)
res["demo_without_patch_exit"] = dm.returncode
print(json.dumps(res, indent=1))
