#!/usr/bin/env python3
"""Automatic mutation campaign (development aid, not a registered check): small syntactic mutants of the package are generated with
`ast`, those the baseline test suite does not kill are run through the quick tier of the checks whose properties are anchored in
the mutated file, and the mutants NO check reports are listed for inspection (equivalent mutants or gaps in an input generator).

Workers use private copies of /verif and of the repository (VERIF_ROOT / VERIF_REPO), so nothing under /verif or /repo is touched.
Usage: tools/mutcamp.py prepare N | run N [--limit K] [--files a.py,b.py] | report | cleanup N"""
import ast, copy, json, os, random, shutil, subprocess, sys, time, threading, queue

SCR = "/scratch/mutcamp"
OUTDIR = "/verif/build/mutcamp"
PKG = "jsonpath_rfc9535"


def sh(c, **k):
    return subprocess.run(c, shell=True, capture_output=True, text=True, **k)


CMP = {ast.Lt: ast.LtE, ast.LtE: ast.Lt, ast.Gt: ast.GtE, ast.GtE: ast.Gt, ast.Eq: ast.NotEq, ast.NotEq: ast.Eq, ast.Is: ast.IsNot, ast.IsNot: ast.Is,
       ast.In: ast.NotIn, ast.NotIn: ast.In}
ARI = {ast.Add: ast.Sub, ast.Sub: ast.Add, ast.Mult: ast.FloorDiv, ast.FloorDiv: ast.Mult}


def sites(tree):
    """(kind, node-path-id) for every mutable site"""
    out = []
    for n in ast.walk(tree):
        if isinstance(n, ast.Compare):
            for i, op in enumerate(n.ops):
                if type(op) in CMP: out.append(("cmp", n, i))
        elif isinstance(n, ast.BoolOp): out.append(("bool", n, 0))
        elif isinstance(n, ast.UnaryOp) and isinstance(n.op, ast.Not): out.append(("not", n, 0))
        elif isinstance(n, ast.BinOp) and type(n.op) in ARI: out.append(("ari", n, 0))
        elif isinstance(n, ast.Constant) and isinstance(n.value, bool): out.append(("boolc", n, 0))
        elif isinstance(n, ast.Constant) and isinstance(n.value, int) and not isinstance(n.value, bool) and abs(n.value) < 1000:
            out.append(("int+", n, 0)); out.append(("int-", n, 0))
        elif isinstance(n, (ast.If, ast.While)): out.append(("negcond", n, 0))
        elif isinstance(n, ast.IfExp): out.append(("negcond", n, 0))
        elif isinstance(n, (ast.Continue, ast.Break)): out.append(("swapcb", n, 0))
        elif isinstance(n, ast.Return) and n.value is not None and not isinstance(n.value, ast.Constant): out.append(("retnone", n, 0))
        elif isinstance(n, ast.Expr) and isinstance(n.value, ast.Call): out.append(("dropcall", n, 0))
        elif isinstance(n, ast.Slice): out.append(("slice", n, 0))
    return out


def mutate(src, k):
    tree = ast.parse(src)
    ss = sites(tree)
    if k >= len(ss): return None
    kind, n, i = ss[k]
    if kind == "cmp": n.ops[i] = CMP[type(n.ops[i])]()
    elif kind == "bool": n.op = ast.Or() if isinstance(n.op, ast.And) else ast.And()
    elif kind == "not": n.operand = ast.UnaryOp(op=ast.Not(), operand=n.operand)      # not x  ->  not not x
    elif kind == "ari": n.op = ARI[type(n.op)]()
    elif kind == "boolc": n.value = not n.value
    elif kind == "int+": n.value = n.value + 1
    elif kind == "int-": n.value = n.value - 1
    elif kind == "negcond": n.test = ast.UnaryOp(op=ast.Not(), operand=n.test)
    elif kind == "swapcb": n.__class__ = ast.Break if isinstance(n, ast.Continue) else ast.Continue
    elif kind == "retnone": n.value = ast.Constant(value=None)
    elif kind == "dropcall": n.value = ast.Constant(value=None)
    elif kind == "slice":
        if n.lower is not None: n.lower = None
        elif n.upper is not None: n.upper = None
        else: return None
    ast.fix_missing_locations(tree)
    try:
        return kind + "@%d" % getattr(n, "lineno", 0), ast.unparse(tree)
    except Exception:
        return None


def anchors():
    m = {}
    for l in open("/verif/properties.jsonl"):
        d = json.loads(l)
        for f in d["anchors"]["files"]:
            m.setdefault(f, []).append(d["id"])
    m.setdefault("jsonpath_rfc9535/utils/nondeterministic_descent.py", []).extend(["C17", "C18"])
    return m


def worker(i, q, results, lock):
    root = "%s/w%d" % (SCR, i)
    env = dict(os.environ, VERIF_ROOT=root + "/verif", VERIF_REPO=root + "/repo", PYTHONPATH=root + "/repo", PYTHONHASHSEED="0")
    while True:
        try: job = q.get_nowait()
        except queue.Empty: return
        rel, k, label, new_src, checks = job
        path = os.path.join(root, "repo", rel)
        orig = open(path).read()
        rec = {"file": rel, "site": k, "label": label, "checks": {}}
        try:
            open(path, "w").write(new_src)
            t = sh("cd %s/repo && /venv/bin/python -m pytest -q -p no:cacheprovider --continue-on-collection-errors 2>&1 | tail -1" % root, env=env, timeout=300)
            rec["tests"] = t.stdout.strip()[-60:]
            if "352 passed" not in t.stdout:
                rec["outcome"] = "killed-by-tests"
            else:
                det = None
                for c in checks:
                    t0 = time.time()
                    o = sh("cd %s/verif && bin/check %s --tier quick" % (root, c), env=env, timeout=1500)
                    line = [l for l in o.stdout.split("\n") if l.startswith("VIOLATION")]
                    rec["checks"][c] = {"exit": o.returncode, "s": round(time.time() - t0), "v": line[0][:160] if line else ""}
                    if o.returncode != 0:
                        det = c
                        break
                rec["outcome"] = ("detected:" + det) if det else "SURVIVED"
                if not det:
                    d = sh("cd %s/repo && git diff -- %s" % (root, rel)).stdout
                    rec["diff"] = d[:3000]
        except Exception as ex:
            rec["outcome"] = "error: %r" % (ex,)
        finally:
            open(path, "w").write(orig)
        with lock:
            results.write(json.dumps(rec) + "\n"); results.flush()
            print(rec["file"], rec["site"], rec["label"], rec["outcome"], flush=True)


def main():
    cmd = sys.argv[1]
    if cmd == "prepare":
        n = int(sys.argv[2]); os.makedirs(SCR, exist_ok=True)
        for i in range(n):
            root = "%s/w%d" % (SCR, i)
            if os.path.exists(root): continue
            os.makedirs(root)
            sh("cp -a /verif %s/verif" % root)
            sh("rm -rf %s/verif/.git %s/verif/replays %s/verif/build/thorough %s/verif/build/mutcamp" % (root, root, root, root))
            sh("mkdir -p %s/repo && cd /repo && git archive HEAD | tar -x -C %s/repo && cd %s/repo && git init -q && git add -A && git -c user.email=a@b -c user.name=a commit -qm base" % (root, root, root))
        print("prepared", n)
    elif cmd == "run":
        n = int(sys.argv[2])
        limit = int(sys.argv[sys.argv.index("--limit") + 1]) if "--limit" in sys.argv else 10 ** 9
        only = sys.argv[sys.argv.index("--files") + 1].split(",") if "--files" in sys.argv else None
        seed = int(sys.argv[sys.argv.index("--seed") + 1]) if "--seed" in sys.argv else 1
        os.makedirs(OUTDIR, exist_ok=True)
        anc = anchors()
        jobs = []
        for d, _, fs in os.walk("/repo/" + PKG):
            for f in sorted(fs):
                if not f.endswith(".py") or f in ("__about__.py", "__init__.py", "__main__.py"): continue
                rel = os.path.relpath(os.path.join(d, f), "/repo")
                if only and os.path.basename(rel) not in only: continue
                src = open(os.path.join("/repo", rel)).read()
                checks = anc.get(rel, [])
                if not checks: continue
                k = 0
                while True:
                    m = mutate(src, k)
                    if m is None and k >= len(sites(ast.parse(src))): break
                    if m is not None: jobs.append((rel, k, m[0], m[1], checks))
                    k += 1
        random.Random(seed).shuffle(jobs)
        done = set()
        rp = os.path.join(OUTDIR, "results.jsonl")
        if os.path.exists(rp):
            for l in open(rp):
                try: r = json.loads(l); done.add((r["file"], r["site"]))
                except Exception: pass
        jobs = [j for j in jobs if (j[0], j[1]) not in done][:limit]
        print("jobs:", len(jobs), "already done:", len(done))
        q = queue.Queue()
        for j in jobs: q.put(j)
        results = open(rp, "a"); lock = threading.Lock()
        ths = [threading.Thread(target=worker, args=(i, q, results, lock)) for i in range(n)]
        for t in ths: t.start()
        for t in ths: t.join()
    elif cmd == "report":
        rs = [json.loads(l) for l in open(os.path.join(OUTDIR, "results.jsonl"))]
        from collections import Counter
        c = Counter(r["outcome"].split(":")[0] for r in rs)
        print(dict(c))
        import difflib
        for r in rs:
            if r["outcome"] == "SURVIVED":
                src = open(os.path.join("/repo", r["file"])).read()
                a = ast.unparse(ast.parse(src)).split("\n"); b = mutate(src, r["site"])[1].split("\n")
                d = [l for l in difflib.unified_diff(a, b, lineterm="", n=2)][2:]
                print("=" * 100); print(r["file"], r["site"], r["label"], {k: v["s"] for k, v in r["checks"].items()}); print("\n".join(d)[:1500])
    elif cmd == "cleanup":
        shutil.rmtree(SCR, ignore_errors=True); print("removed", SCR)


if __name__ == "__main__":
    main()
