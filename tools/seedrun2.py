#!/usr/bin/env python3
"""Like tools/seedrun.py, but on a private copy of /verif and of the repository (made by `tools/mutcamp.py prepare`), so that
/repo and /verif stay untouched while other runs use them.  Usage: tools/seedrun2.py <worker-index> <seed-name> <Cxx> [...]"""
import json, os, subprocess, sys, time
w, name, checks = sys.argv[1], sys.argv[2], sys.argv[3:]
root = "/scratch/mutcamp/w" + w
d = "/verif/seeded/" + name
env = dict(os.environ, VERIF_ROOT=root + "/verif", VERIF_REPO=root + "/repo", PYTHONPATH=root + "/repo", PYTHONHASHSEED="0")
def sh(c, **k): return subprocess.run(c, shell=True, capture_output=True, text=True, env=env, **k)
sh("rsync -a --delete /verif/tools/ %s/verif/tools/; rsync -a /verif/bin/ %s/verif/bin/" % (root, root))
assert sh("cd %s/repo && git status --porcelain" % root).stdout.strip() == "", "scratch repo not clean"
res = {"name": name, "checks": {}}
r = sh("cd %s/repo && git apply %s/patch.diff" % (root, d)); assert r.returncode == 0, r.stderr
try:
    res["baseline_with_patch"] = sh("cd %s/repo && /venv/bin/python -m pytest -q -p no:cacheprovider --continue-on-collection-errors 2>&1 | tail -1" % root).stdout.strip()
    res["demo_with_patch_exit"] = sh("cd /tmp && /venv/bin/python %s/demo.py" % d).returncode
    for c in checks:
        t0 = time.time()
        o = sh("cd %s/verif && bin/check %s --tier quick" % (root, c))
        lines = [l for l in o.stdout.split("\n") if l.startswith("VIOLATION") or l.startswith(c + " ")]
        res["checks"][c] = {"exit": o.returncode, "lines": lines, "seconds": round(time.time() - t0, 1)}
        for l in lines:
            if "replay=" in l:
                rp = l.split("replay=")[1].split()[0]
                try:
                    j = json.load(open(rp)); res["checks"][c]["replay_excerpt"] = json.dumps(j.get("case", j.get("broken")), default=str)[:600]
                except Exception as ex: res["checks"][c]["replay_excerpt"] = repr(ex)
finally:
    sh("cd %s/repo && git checkout -- ." % root)
res["demo_without_patch_exit"] = sh("cd /tmp && /venv/bin/python %s/demo.py" % d).returncode
print(json.dumps(res, indent=1))
