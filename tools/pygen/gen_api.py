"""Gen/Api.v: the public entry points as terms of a small language, read off the method bodies."""
import ast
from .gen_all import parse, Unsupported


def find_class(mod, name):
    for n in mod.body:
        if isinstance(n, ast.ClassDef) and n.name == name:
            return n
    raise Unsupported("class %s not found" % name)


def method(cls, name):
    for n in cls.body:
        if isinstance(n, ast.FunctionDef) and n.name == name:
            return n
    return None


def body_stmts(fn):
    b = fn.body
    if b and isinstance(b[0], ast.Expr) and isinstance(b[0].value, ast.Constant) and isinstance(b[0].value.value, str):
        b = b[1:]
    return b


def dump(n):
    return ast.dump(n, annotate_fields=False)


def is_self_call(e, meth, args):
    """self.meth(args...)"""
    return (isinstance(e, ast.Call) and isinstance(e.func, ast.Attribute) and isinstance(e.func.value, ast.Name)
            and e.func.value.id == "self" and e.func.attr == meth and [dump(a) for a in e.args] == [dump(ast.Name(id=a, ctx=ast.Load())) for a in args]
            and not e.keywords)


def is_iter_finditer(e):
    """iter(self.finditer(value))"""
    return (isinstance(e, ast.Call) and isinstance(e.func, ast.Name) and e.func.id == "iter" and len(e.args) == 1 and not e.keywords
            and is_self_call(e.args[0], "finditer", ["value"]))


def query_method(fn):
    """-> Coq term of type entry for a JSONPathQuery method"""
    st = body_stmts(fn)
    args = [a.arg for a in fn.args.args]
    if args != ["self", "value"]:
        raise Unsupported("%s: unexpected parameters %r" % (fn.name, args))
    # return JSONPathNodeList(self.finditer(value))
    if len(st) == 1 and isinstance(st[0], ast.Return):
        e = st[0].value
        if isinstance(e, ast.Call) and isinstance(e.func, ast.Name) and e.func.id == "JSONPathNodeList" and len(e.args) == 1 \
                and is_self_call(e.args[0], "finditer", ["value"]):
            return "EListOf EIter"
        # return next(iter(self.finditer(value)), None)     (iter() is needed: finditer returns a list for "$")
        if isinstance(e, ast.Call) and isinstance(e.func, ast.Name) and e.func.id == "next" and len(e.args) == 2 and not e.keywords \
                and isinstance(e.args[1], ast.Constant) and e.args[1].value is None and is_iter_finditer(e.args[0]):
            return "EFirstOrNone EIter"
        raise Unsupported("%s: unexpected return %s" % (fn.name, dump(e)))
    # it = iter(self.finditer(value)); return next(it, None)
    if len(st) == 2 and isinstance(st[0], ast.Assign) and len(st[0].targets) == 1 and isinstance(st[0].targets[0], ast.Name) and is_iter_finditer(st[0].value) \
            and isinstance(st[1], ast.Return):
        e = st[1].value; v = st[0].targets[0].id
        if isinstance(e, ast.Call) and isinstance(e.func, ast.Name) and e.func.id == "next" and len(e.args) == 2 and not e.keywords \
                and isinstance(e.args[0], ast.Name) and e.args[0].id == v and isinstance(e.args[1], ast.Constant) and e.args[1].value is None:
            return "EFirstOrNone EIter"
        raise Unsupported("%s: unexpected two-statement body" % fn.name)
    # for node in self.finditer(value): return node     followed by   return None
    if len(st) in (1, 2) and isinstance(st[0], ast.For) and isinstance(st[0].target, ast.Name) and is_self_call(st[0].iter, "finditer", ["value"]) \
            and len(st[0].body) == 1 and isinstance(st[0].body[0], ast.Return) and isinstance(st[0].body[0].value, ast.Name) \
            and st[0].body[0].value.id == st[0].target.id and not st[0].orelse \
            and (len(st) == 1 or (isinstance(st[1], ast.Return) and (st[1].value is None or (isinstance(st[1].value, ast.Constant) and st[1].value.value is None)))):
        return "EFirstOrNone EIter"
    # first = None; for node in self.finditer(value): first = node; break       return first
    if len(st) == 3 and isinstance(st[1], ast.For) and isinstance(st[2], ast.Return) and isinstance(st[2].value, ast.Name):
        a, loop, ret = st
        tgt = a.target if isinstance(a, ast.AnnAssign) else (a.targets[0] if isinstance(a, ast.Assign) and len(a.targets) == 1 else None)
        ok = (isinstance(tgt, ast.Name) and tgt.id == ret.value.id and isinstance(a.value, ast.Constant) and a.value.value is None
              and isinstance(loop.target, ast.Name) and is_self_call(loop.iter, "finditer", ["value"]) and not loop.orelse and len(loop.body) == 2
              and isinstance(loop.body[0], ast.Assign) and len(loop.body[0].targets) == 1 and isinstance(loop.body[0].targets[0], ast.Name)
              and loop.body[0].targets[0].id == tgt.id and isinstance(loop.body[0].value, ast.Name) and loop.body[0].value.id == loop.target.id
              and isinstance(loop.body[1], ast.Break))
        if ok:
            return "EFirstOrNone EIter"
        raise Unsupported("%s: unexpected three-statement body" % fn.name)
    # try: return next(iter(self.finditer(value)))  except StopIteration: return None
    if len(st) == 1 and isinstance(st[0], ast.Try):
        t = st[0]
        ok = (len(t.body) == 1 and isinstance(t.body[0], ast.Return) and isinstance(t.body[0].value, ast.Call)
              and isinstance(t.body[0].value.func, ast.Name) and t.body[0].value.func.id == "next" and len(t.body[0].value.args) == 1)
        if ok:
            inner = t.body[0].value.args[0]
            ok = (isinstance(inner, ast.Call) and isinstance(inner.func, ast.Name) and inner.func.id == "iter" and len(inner.args) == 1
                  and is_self_call(inner.args[0], "finditer", ["value"]))
        ok = ok and len(t.handlers) == 1 and isinstance(t.handlers[0].type, ast.Name) and t.handlers[0].type.id == "StopIteration" \
            and len(t.handlers[0].body) == 1 and isinstance(t.handlers[0].body[0], ast.Return) \
            and isinstance(t.handlers[0].body[0].value, ast.Constant) and t.handlers[0].body[0].value.value is None \
            and not t.orelse and not t.finalbody
        if ok:
            return "EFirstOrNone EIter"
        raise Unsupported("%s: unexpected try shape" % fn.name)
    raise Unsupported("%s: unexpected body" % fn.name)


def is_root_node(c, arg):
    """JSONPathNode(value=<arg>, location=(), root=<arg>)"""
    kw = {k.arg: dump(k.value) for k in c.keywords} if isinstance(c, ast.Call) else {}
    return isinstance(c, ast.Call) and isinstance(c.func, ast.Name) and c.func.id == "JSONPathNode" and not c.args and kw == {
        "value": dump(ast.Name(id=arg, ctx=ast.Load())), "location": dump(ast.Tuple(elts=[], ctx=ast.Load())),
        "root": dump(ast.Name(id=arg, ctx=ast.Load()))}


def check_finditer(fn, mod=None):
    """nodes = [JSONPathNode(value=value, location=(), root=value)]; for segment in self.segments: nodes = segment.resolve(nodes); return nodes"""
    st = body_stmts(fn)
    if len(st) != 3:
        raise Unsupported("finditer: expected 3 statements")
    a, loop, ret = st
    tgt = a.target if isinstance(a, ast.AnnAssign) else (a.targets[0] if isinstance(a, ast.Assign) and len(a.targets) == 1 else None)
    val = a.value
    ok = isinstance(tgt, ast.Name) and tgt.id == "nodes" and isinstance(val, ast.List) and len(val.elts) == 1
    if ok:
        c = val.elts[0]
        ok = is_root_node(c, "value")
        if not ok and mod is not None and isinstance(c, ast.Call) and isinstance(c.func, ast.Name) and not c.keywords \
                and [dump(x) for x in c.args] == [dump(ast.Name(id="value", ctx=ast.Load()))]:
            # a module-level helper of one parameter whose body is `return JSONPathNode(value=p, location=(), root=p)`
            for h in mod.body:
                if isinstance(h, ast.FunctionDef) and h.name == c.func.id and len(h.args.args) == 1 and not h.decorator_list:
                    hb = body_stmts(h)
                    ok = len(hb) == 1 and isinstance(hb[0], ast.Return) and is_root_node(hb[0].value, h.args.args[0].arg)
    if not ok:
        raise Unsupported("finditer: unexpected start node")
    ok = (isinstance(loop, ast.For) and isinstance(loop.target, ast.Name) and loop.target.id == "segment"
          and dump(loop.iter) == dump(ast.Attribute(value=ast.Name(id="self", ctx=ast.Load()), attr="segments", ctx=ast.Load()))
          and len(loop.body) == 1 and isinstance(loop.body[0], ast.Assign) and len(loop.body[0].targets) == 1
          and isinstance(loop.body[0].targets[0], ast.Name) and loop.body[0].targets[0].id == "nodes" and not loop.orelse)
    if ok:
        c = loop.body[0].value
        ok = (isinstance(c, ast.Call) and isinstance(c.func, ast.Attribute) and c.func.attr == "resolve" and isinstance(c.func.value, ast.Name)
              and c.func.value.id == "segment" and len(c.args) == 1 and isinstance(c.args[0], ast.Name) and c.args[0].id == "nodes" and not c.keywords)
    if not ok:
        raise Unsupported("finditer: unexpected segment loop")
    if not (isinstance(ret, ast.Return) and isinstance(ret.value, ast.Name) and ret.value.id == "nodes"):
        raise Unsupported("finditer: unexpected return")


def env_method(fn, target):
    """return self.compile(query).<target>(value)"""
    st = body_stmts(fn)
    if [a.arg for a in fn.args.args] != ["self", "query", "value"]:
        raise Unsupported("%s: unexpected parameters" % fn.name)
    if len(st) == 1 and isinstance(st[0], ast.Return):
        e = st[0].value
        if (isinstance(e, ast.Call) and isinstance(e.func, ast.Attribute) and e.func.attr == target and len(e.args) == 1
                and isinstance(e.args[0], ast.Name) and e.args[0].id == "value" and not e.keywords and is_self_call(e.func.value, "compile", ["query"])):
            return
    raise Unsupported("environment.%s: body is not `return self.compile(query).%s(value)`" % (fn.name, target))


def check_compile(fn):
    """tokens = tokenize(query); stream = TokenStream(tokens); return JSONPathQuery(env=self, segments=tuple(self.parser.parse(stream)))"""
    st = body_stmts(fn)
    want = ["Assign([Name('tokens', Store())], Call(Name('tokenize', Load()), [Name('query', Load())], []))",
            "Assign([Name('stream', Store())], Call(Name('TokenStream', Load()), [Name('tokens', Load())], []))"]
    got = [dump(s) for s in st]
    if len(st) != 3 or got[0] != want[0] or got[1] != want[1]:
        raise Unsupported("compile: unexpected body %r" % got[:2])
    r = st[2]
    if not (isinstance(r, ast.Return) and isinstance(r.value, ast.Call) and isinstance(r.value.func, ast.Name) and r.value.func.id == "JSONPathQuery"):
        raise Unsupported("compile: unexpected return")
    kw = {k.arg: dump(k.value) for k in r.value.keywords}
    if kw.get("env") != dump(ast.Name(id="self", ctx=ast.Load())) or "parser.parse" not in ast.unparse(r.value) or "tuple(" not in ast.unparse(r.value):
        raise Unsupported("compile: unexpected JSONPathQuery arguments")


def emit():
    q = parse("query.py"); e = parse("environment.py"); i = parse("__init__.py")
    Q = find_class(q, "JSONPathQuery"); E = find_class(e, "JSONPathEnvironment")
    check_finditer(method(Q, "finditer"), q)
    qfind = query_method(method(Q, "find"))
    qone = query_method(method(Q, "find_one"))
    # apply = find
    alias = None
    for n in Q.body:
        if isinstance(n, ast.Assign) and len(n.targets) == 1 and isinstance(n.targets[0], ast.Name) and n.targets[0].id == "apply":
            if isinstance(n.value, ast.Name) and n.value.id == "find":
                alias = "find"
    if alias != "find" or method(Q, "apply") is not None:
        raise Unsupported("JSONPathQuery.apply is not the class-level alias `apply = find`")
    check_compile(method(E, "compile"))
    for m in ("finditer", "find", "find_one"):
        env_method(method(E, m), m)
    # module level: DEFAULT_ENV = JSONPathEnvironment(); compile = DEFAULT_ENV.compile; ...
    mod = {}
    for n in i.body:
        if isinstance(n, ast.Assign) and len(n.targets) == 1 and isinstance(n.targets[0], ast.Name):
            mod[n.targets[0].id] = ast.unparse(n.value)
    want = {"DEFAULT_ENV": "JSONPathEnvironment()", "compile": "DEFAULT_ENV.compile", "finditer": "DEFAULT_ENV.finditer",
            "find": "DEFAULT_ENV.find", "find_one": "DEFAULT_ENV.find_one"}
    for k, v in want.items():
        if mod.get(k) != v:
            raise Unsupported("__init__.py: %s is %r, expected %r" % (k, mod.get(k), v))
    extra = set(mod) - set(want) - {"__all__"}
    if extra:
        raise Unsupported("__init__.py: unexpected module-level bindings %r" % sorted(extra))
    return """(* REGENERATED by tools/pygen/gen_api.py from query.py, environment.py, __init__.py - do not edit *)
From JP Require Import Model.ApiLang.
Definition g_query_finditer : entry := EIter.          (* the segment loop, recognised statement by statement *)
Definition g_query_find : entry := %s.
Definition g_query_apply : entry := g_query_find.      (* class-level alias `apply = find` *)
Definition g_query_find_one : entry := %s.
Definition g_env_finditer : entry := ECompileThen g_query_finditer.
Definition g_env_find : entry := ECompileThen g_query_find.
Definition g_env_find_one : entry := ECompileThen g_query_find_one.
Definition g_module_finditer : entry := EDefaultEnv g_env_finditer.
Definition g_module_find : entry := EDefaultEnv g_env_find.
Definition g_module_find_one : entry := EDefaultEnv g_env_find_one.
Definition g_module_compile_is_default_env : bool := true.
""" % (qfind, qone)
