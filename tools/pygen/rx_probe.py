"""Executed in a subprocess with PYTHONPATH=<repo>: observe HOW match() and search() call the `regex` module (entry point, number of
flag arguments, pattern argument) on a few sample calls, whatever the internal structure of the functions.  Prints JSON."""
import json, sys
import regex

calls = []


class PatProxy:
    def __init__(self, pat, nflags):
        self._p, self._n = pat, nflags

    def __getattr__(self, name):
        f = getattr(self._p, name)
        if not callable(f): return f

        def w(*a, **k):
            calls.append({"entry": name, "nflags": self._n + max(0, len(a) - 1) + len(k), "pattern": self._p.pattern, "subject": a[0] if a else None})
            return f(*a, **k)
        return w


def wrap(name, f):
    def w(*a, **k):
        if name == "compile":
            return PatProxy(f(*a, **k), max(0, len(a) - 1) + len(k))
        calls.append({"entry": name, "nflags": max(0, len(a) - 2) + len(k), "pattern": a[0] if a else None, "subject": a[1] if len(a) > 1 else None})
        return f(*a, **k)
    return w


for nm in ("match", "fullmatch", "search", "compile", "finditer", "findall", "sub", "subn", "split", "subf", "splititer", "scanner", "template"):
    if hasattr(regex, nm): setattr(regex, nm, wrap(nm, getattr(regex, nm)))

import jsonpath_rfc9535 as jp                                       # noqa: E402  (after the spy is installed)
from jsonpath_rfc9535.function_extensions._pattern import map_re    # noqa: E402

env = jp.JSONPathEnvironment()
SAMPLES = [("ab", "a."), ("ab", "ab"), ("a", "A"), ("a b", "a b"), ("a\nb", "a.b"), ("éx", "\\p{L}."), ("", ""), ("abc", "b"), ("[.]", "[.]")]
out = {}
for fn in ("match", "search"):
    f = env.function_extensions[fn]
    entries, flags, mapped, ncalls = set(), set(), True, set()
    for s, p in SAMPLES:
        del calls[:]
        f(s, p)
        ncalls.add(len(calls))
        for c in calls:
            entries.add(c["entry"]); flags.add(c["nflags"])
            mapped = mapped and c["pattern"] == map_re(p) and c["subject"] == s
    out[fn] = {"entries": sorted(entries), "nflags": sorted(flags), "mapped": mapped, "ncalls": sorted(ncalls)}
print(json.dumps(out))
