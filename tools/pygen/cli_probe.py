"""Executed in a subprocess with PYTHONPATH=<repo>: how the command-line front end treats each exception class in each phase,
observed by fault injection (the library call of that phase is replaced by one that raises), with and without --debug.
Robust to any restructuring of cli.py that keeps the behaviour.  Prints JSON."""
import io, json, os, sys, tempfile, contextlib
import jsonpath_rfc9535 as jp
import jsonpath_rfc9535.exceptions as X
import jsonpath_rfc9535.cli as cli
from jsonpath_rfc9535.query import JSONPathQuery

classes = sorted(n for n, c in vars(X).items() if isinstance(c, type) and issubclass(c, X.JSONPathError))
bases = {n: getattr(X, n).__mro__[1].__name__ for n in classes}
tmp = tempfile.mkdtemp()
doc = os.path.join(tmp, "d.json"); open(doc, "w").write('{"a": [1, 2]}')


def make(name):
    if name == "JSONDecodeError": return json.JSONDecodeError("boom", "doc", 0)
    if name == "UnicodeDecodeError": return UnicodeDecodeError("utf-8", b"\xff", 0, 1, "boom")
    from jsonpath_rfc9535.tokens import Token, TokenType
    tok = Token(TokenType.ERROR, "x", 0, "$x")
    cls = getattr(X, name)
    try: return cls("boom", token=tok)
    except TypeError: return cls("boom")


def run(phase, name, debug):
    exc = make(name)
    orig_compile, orig_find, orig_load = jp.JSONPathEnvironment.compile, JSONPathQuery.find, json.load

    def boom(*a, **k): raise exc
    if phase == "compile": jp.JSONPathEnvironment.compile = boom
    elif phase == "find": JSONPathQuery.find = boom
    else: json.load = boom
    argv = ["jsonpath-rfc9535"] + (["--debug"] if debug else []) + ["-q", "$.a", "-f", doc]
    old_argv = sys.argv
    sys.argv = argv
    err, out = io.StringIO(), io.StringIO()
    res = {"phase": phase, "class": name, "debug": debug}
    try:
        with contextlib.redirect_stderr(err), contextlib.redirect_stdout(out):
            cli.main()
        res.update(exit=0, propagated=False)
    except SystemExit as ex:
        res.update(exit=ex.code if isinstance(ex.code, int) else (0 if ex.code is None else 1), propagated=False)
    except BaseException as ex:        # noqa: BLE001
        res.update(exit=-1, propagated=type(ex).__name__ == name)
    finally:
        jp.JSONPathEnvironment.compile, JSONPathQuery.find, json.load = orig_compile, orig_find, orig_load
        sys.argv = old_argv
    text = err.getvalue()
    res["stderr_lines"] = len([l for l in text.split("\n") if l.strip()])
    res["traceback"] = "Traceback" in text
    res["stdout_empty"] = out.getvalue() == ""
    return res


obs = []
for phase, names in (("compile", classes), ("find", classes), ("load", ["JSONDecodeError", "UnicodeDecodeError"])):
    for name in names:
        for debug in (False, True):
            obs.append(run(phase, name, debug))
# the success path: output is json.dumps of find().values()
sys.argv = ["jsonpath-rfc9535", "-q", "$.a[*]", "-f", doc]
out = io.StringIO()
try:
    with contextlib.redirect_stdout(out): cli.main()
    ok = json.loads(out.getvalue()) == jp.find("$.a[*]", {"a": [1, 2]}).values()
except BaseException:      # noqa: BLE001
    ok = False
print(json.dumps({"classes": [[c, bases[c]] for c in classes], "observed": obs, "success_is_dump_of_values": ok}))
