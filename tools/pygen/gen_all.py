"""Regenerate coq/Gen/*.v from /repo's current source. Fail-closed per file."""
import os


def generate():
    """returns {gen file: {ok, reason, changed, source_sha256}}"""
    return {}
