"""Regenerate coq/Gen/*.v from /repo's current source.  Fail-closed: anything outside the shapes each generator
understands makes that Gen file a one-line syntax error, so every proof that depends on it stops compiling.
Only `ast` and `re._parser` are used and the library is never imported - except for Rx.v, whose facts (which regex entry point
match()/search() reach, with how many flags) are observed by running them in a subprocess under a recording proxy (rx_probe.py)."""
import ast, hashlib, os, sys, traceback

REPO = os.environ.get("VERIF_REPO", "/repo")
PKG = os.path.join(REPO, "jsonpath_rfc9535")
OUT = os.path.join(os.environ.get("VERIF_ROOT", "/verif"), "coq", "Gen")


class Unsupported(Exception):
    pass


def src(rel):
    return open(os.path.join(PKG, rel), encoding="utf8").read()


def parse(rel):
    return ast.parse(src(rel))


def settle(path, body):
    """Write the generated text when it differs from the file.  A compiled file is only trusted when it was built from this very text: the hash
    of the text is kept beside the file, and when it differs (the .v was put back by a copy that preserved an old modification time, say)
    the compiled file is removed so that make rebuilds it whatever the time stamps say."""
    old = open(path, encoding="utf8").read() if os.path.exists(path) else None
    if old != body:
        open(path, "w", encoding="utf8").write(body)
    side = os.path.join(os.path.dirname(path), "." + os.path.basename(path) + ".sha")
    h = hashlib.sha256(body.encode("utf8")).hexdigest()
    was = open(side).read().strip() if os.path.exists(side) else None
    if was != h:
        for ext in (".vo", ".vos", ".vok"):
            try: os.remove(path[:-2] + ext)
            except OSError: pass
        open(side, "w").write(h)
    return old


def write(name, body, status, sources):
    path = os.path.join(OUT, name)
    os.makedirs(OUT, exist_ok=True)
    h = hashlib.sha256()
    for s in sources:
        h.update(src(s).encode("utf8"))
    old = settle(path, body)
    status[name] = {"ok": True, "reason": "", "changed": old is not None and old != body, "source_sha256": h.hexdigest()[:16], "sources": sources}


def fail(name, reason, status, sources):
    path = os.path.join(OUT, name)
    os.makedirs(OUT, exist_ok=True)
    body = "(* fail-closed: %s *)\nTranslation failed closed.\n" % reason.replace("*)", "* )")[:500]
    old = settle(path, body)
    status[name] = {"ok": False, "reason": reason[:400], "changed": old != body, "sources": sources}


def coq_str(s):
    """a Python str as a Coq list N literal"""
    return "[" + "; ".join(str(ord(c)) for c in s) + "]%N" if s else "(@nil N)"


def generate():
    from . import gen_api, gen_effects, gen_cli, gen_consts
    status = {}
    for name, fn, sources in (
        ("Api.v", gen_api.emit, ["query.py", "environment.py", "__init__.py"]),
        ("Effects.v", gen_effects.emit, gen_effects.SOURCES),
        ("Cli.v", gen_cli.emit, ["cli.py", "exceptions.py"]),
        ("LexConst.v", gen_consts.emit_lex, ["lex.py"]),
        ("ParseConst.v", gen_consts.emit_parse, ["parse.py", "filter_expressions.py"]),
        ("Env.v", gen_consts.emit_env, ["environment.py", "function_extensions/length.py", "function_extensions/count.py",
                                         "function_extensions/value.py", "function_extensions/match.py", "function_extensions/search.py"]),
        ("Rx.v", gen_consts.emit_rx, ["function_extensions/match.py", "function_extensions/search.py", "function_extensions/_pattern.py"]),
    ):
        try:
            write(name, fn(), status, sources)
        except Unsupported as ex:
            fail(name, "unsupported source shape: %s" % ex, status, sources)
        except Exception as ex:      # a crash of the translator is also a closed failure
            fail(name, "translator error: %r" % (ex,), status, sources)
    return status


if __name__ == "__main__":
    import json
    sys.path.insert(0, os.path.join(os.environ.get("VERIF_ROOT", "/verif"), "tools"))
    print(json.dumps(generate(), indent=1))
