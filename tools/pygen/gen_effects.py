"""Gen/Effects.v: inventory of every store / mutation in the package, classified by what is written to.
The policy that decides which of them are harmless lives in Coq (Proofs/EffectsPolicy.v)."""
import ast
from .gen_all import parse, Unsupported, coq_str

SOURCES = ["__init__.py", "environment.py", "query.py", "segments.py", "selectors.py", "filter_expressions.py", "node.py", "serialize.py",
           "lex.py", "tokens.py", "parse.py", "exceptions.py", "function_extensions/__init__.py", "function_extensions/_pattern.py",
           "function_extensions/count.py", "function_extensions/filter_function.py", "function_extensions/length.py",
           "function_extensions/match.py", "function_extensions/search.py", "function_extensions/value.py"]
MUTATORS = {"append", "extend", "pop", "clear", "update", "add", "insert", "remove", "sort", "reverse", "popleft", "appendleft",
            "setdefault", "discard", "popitem", "extendleft", "rotate", "__setitem__", "__delitem__", "__setattr__"}
MODCODE = {s: i for i, s in enumerate(SOURCES)}


def root_name(e):
    while isinstance(e, (ast.Attribute, ast.Subscript)):
        e = e.value
    return e.id if isinstance(e, ast.Name) else None


class FnScan(ast.NodeVisitor):
    def __init__(self, mod, cls, fn, out):
        self.mod, self.cls, self.fn, self.out = mod, cls, fn, out
        self.params = {a.arg for a in fn.args.args + fn.args.kwonlyargs + ([fn.args.vararg] if fn.args.vararg else []) + ([fn.args.kwarg] if fn.args.kwarg else [])}
        self.locals = set()       # names bound in this function
        self.aliases = set()      # ... at least once to something that is not a freshly built container
        self.excvars = set()
        for n in ast.walk(fn):
            if isinstance(n, (ast.Assign, ast.AnnAssign, ast.AugAssign)):
                tg = n.targets if isinstance(n, ast.Assign) else [n.target]
                fresh = isinstance(n, (ast.Assign, ast.AnnAssign)) and n.value is not None and fresh_value(n.value)
                for t in tg:
                    for x in ast.walk(t):
                        if isinstance(x, ast.Name) and isinstance(x.ctx, ast.Store):
                            self.locals.add(x.id)
                            if not (fresh and isinstance(t, ast.Name)): self.aliases.add(x.id)
            elif isinstance(n, (ast.For, ast.comprehension)):
                for x in ast.walk(n.target):
                    if isinstance(x, ast.Name): self.locals.add(x.id); self.aliases.add(x.id)
            elif isinstance(n, ast.ExceptHandler) and n.name:
                self.excvars.add(n.name)
            elif isinstance(n, ast.withitem) and n.optional_vars is not None:
                for x in ast.walk(n.optional_vars):
                    if isinstance(x, ast.Name): self.locals.add(x.id); self.aliases.add(x.id)

    def classify(self, name):
        if name is None: return "RExpr"
        if name == "self": return "RSelf"
        if name in self.excvars: return "RExc"
        if name in self.params and name not in self.locals: return "RParam"
        if name in self.locals: return "RAlias" if name in self.aliases else "RLocal"
        return "RGlobal"

    def add(self, kind, target, what):
        self.out.append((self.mod, self.cls or "", self.fn.name, kind, self.classify(root_name(target)), what))

    def visit_FunctionDef(self, node):
        if node is self.fn:
            self.generic_visit(node)
        else:                       # nested function / closure: scanned with the same classification of names
            for s in node.body: self.visit(s)
    visit_AsyncFunctionDef = visit_FunctionDef

    def visit_Assign(self, node):
        for t in node.targets: self.store(t)
        self.generic_visit(node)

    def visit_AnnAssign(self, node):
        if node.value is not None: self.store(node.target)
        self.generic_visit(node)

    def visit_AugAssign(self, node):
        self.store(node.target)
        self.generic_visit(node)

    def visit_Delete(self, node):
        for t in node.targets: self.store(t)

    def store(self, t):
        if isinstance(t, (ast.Tuple, ast.List)):
            for x in t.elts: self.store(x)
        elif isinstance(t, ast.Attribute):
            self.add("KAttr", t, t.attr)
        elif isinstance(t, ast.Subscript):
            self.add("KItem", t, ast.unparse(t.value)[:40])
        elif isinstance(t, ast.Starred):
            self.store(t.value)

    def visit_Global(self, node):
        for n in node.names: self.out.append((self.mod, self.cls or "", self.fn.name, "KGlobal", "RGlobal", n))

    def visit_Nonlocal(self, node):
        for n in node.names: self.out.append((self.mod, self.cls or "", self.fn.name, "KGlobal", "RLocal", n))

    def visit_Call(self, node):
        if isinstance(node.func, ast.Attribute) and node.func.attr in MUTATORS:
            self.add("KCall", node.func.value, node.func.attr + " on " + ast.unparse(node.func.value)[:40])
        if isinstance(node.func, ast.Name) and node.func.id in ("setattr", "delattr") and node.args:
            self.add("KAttr", node.args[0], "setattr")
        self.generic_visit(node)


def fresh_value(v):
    """a container built right here: literal, comprehension, or a call of a container constructor"""
    if isinstance(v, (ast.List, ast.Dict, ast.Set, ast.ListComp, ast.DictComp, ast.SetComp, ast.Tuple)): return True
    if isinstance(v, ast.Call) and isinstance(v.func, ast.Name) and v.func.id in ("list", "dict", "set", "deque", "JSONPathNodeList", "tuple"):
        return True
    return False


ALLOWED_DECORATORS = {"property", "abstractmethod", "staticmethod", "classmethod"}


def mutable_value(v):
    """is a module/class-level value a fresh mutable object?"""
    if isinstance(v, (ast.List, ast.Dict, ast.Set, ast.ListComp, ast.DictComp, ast.SetComp)): return True
    if isinstance(v, ast.Call):
        f = ast.unparse(v.func)
        if f in ("frozenset", "tuple", "re.compile", "TypeVar", "auto", "property"): return False
        return True
    return False


def decorators(rel, cls, fn, effects):
    for d in fn.decorator_list:
        name = ast.unparse(d)
        if name.split("(")[0].split(".")[-1] not in ALLOWED_DECORATORS:
            effects.append((rel, cls, fn.name, "KDecor", "RGlobal", name[:40]))


def emit():
    effects, bindings = [], []
    for rel in SOURCES:
        mod = parse(rel)
        for n in mod.body:
            if isinstance(n, (ast.FunctionDef, ast.AsyncFunctionDef)):
                decorators(rel, "", n, effects)
                FnScan(rel, None, n, effects).visit(n)
            elif isinstance(n, ast.ClassDef):
                for m in n.body:
                    if isinstance(m, (ast.FunctionDef, ast.AsyncFunctionDef)):
                        decorators(rel, n.name, m, effects)
                        FnScan(rel, n.name, m, effects).visit(m)
                    elif isinstance(m, (ast.Assign, ast.AnnAssign)) and getattr(m, "value", None) is not None and mutable_value(m.value):
                        tg = m.targets[0] if isinstance(m, ast.Assign) else m.target
                        bindings.append((rel, n.name, ast.unparse(tg), ast.unparse(m.value)[:60]))
                    elif isinstance(m, ast.ClassDef):
                        for mm in m.body:
                            if isinstance(mm, (ast.FunctionDef, ast.AsyncFunctionDef)):
                                FnScan(rel, n.name + "." + m.name, mm, effects).visit(mm)
            elif isinstance(n, (ast.Assign, ast.AnnAssign)) and getattr(n, "value", None) is not None:
                tg = n.targets[0] if isinstance(n, ast.Assign) else n.target
                if mutable_value(n.value):
                    bindings.append((rel, "", ast.unparse(tg), ast.unparse(n.value)[:60]))
                if not isinstance(tg, ast.Name):       # module-level store into another object
                    effects.append((rel, "", "<module>", "KAttr" if isinstance(tg, ast.Attribute) else "KItem", "RGlobal", ast.unparse(tg)[:40]))
            elif isinstance(n, (ast.Expr,)) and isinstance(n.value, ast.Call) and isinstance(n.value.func, ast.Attribute) and n.value.func.attr in MUTATORS:
                effects.append((rel, "", "<module>", "KCall", "RGlobal", ast.unparse(n.value)[:40]))
    lines = ["(* REGENERATED by tools/pygen/gen_effects.py from every module of the package - do not edit *)",
             "From JP Require Import Model.EffectLang.",
             "Definition g_effects : list effect := ["]
    for i, (mod, cls, fn, kind, root, what) in enumerate(effects):
        lines.append("  {| e_mod := %d; e_cls := %s; e_fn := %s; e_kind := %s; e_root := %s; e_what := %s |}%s" % (
            MODCODE[mod], coq_str(cls), coq_str(fn), kind, root, coq_str(what), ";" if i + 1 < len(effects) else ""))
    lines.append("].")
    lines.append("Definition g_bindings : list binding := [")
    for i, (mod, cls, name, val) in enumerate(bindings):
        lines.append("  {| b_mod := %d; b_cls := %s; b_name := %s; b_value := %s |}%s" % (MODCODE[mod], coq_str(cls), coq_str(name), coq_str(val), ";" if i + 1 < len(bindings) else ""))
    lines.append("].")
    lines.append("Definition g_modules : list (nat * list N) := [")
    lines.append(";\n".join("  (%d%%nat, %s)" % (i, coq_str(s)) for i, s in enumerate(SOURCES)))
    lines.append("].")
    return "\n".join(lines) + "\n"
