"""Executed in a subprocess with PYTHONPATH=<repo>: the lexer's compiled patterns and escape set as the module actually
builds them (whatever string operations produce the pattern text).  Prints JSON."""
import json
import jsonpath_rfc9535.lex as L

out = {}
for name in ("RE_WHITESPACE", "RE_PROPERTY", "RE_INDEX", "RE_INT", "RE_FLOAT", "RE_FUNCTION_NAME"):
    p = getattr(L, name)
    out[name] = {"pattern": p.pattern, "flags": int(p.flags), "module": type(p).__module__}
esc = list(L.ESCAPES)
assert all(isinstance(x, str) and len(x) == 1 for x in esc), esc
out["ESCAPES"] = sorted(set(esc))
out["ESCAPES_has_empty"] = ("" in L.ESCAPES)          # `peeked in ESCAPES` is evaluated with peeked == "" at the end of the text
print(json.dumps(out))
