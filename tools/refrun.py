#!/usr/bin/env python3
"""Run every registered check against a behaviour-preserving rewrite: apply harmless/<name>/patch.diff to /repo, confirm the
baseline tests pass, run the quick tier of the given (default: all) checks, undo the patch.  Any VIOLATION here is a
false alarm of the machinery.  Usage: tools/refrun.py <name> [<Cxx> ...]"""
import json, os, shutil, subprocess, sys, tempfile
name, checks = sys.argv[1], sys.argv[2:] or ["C%02d" % i for i in range(1, 21)]
d = "/verif/harmless/" + name
def sh(c, **k): return subprocess.run(c, shell=True, capture_output=True, text=True, **k)
assert sh("git -C /repo status --porcelain").stdout.strip() == "", "repo not clean"
saved = tempfile.mkdtemp(prefix="evidence-", dir="/verif/build")
for c in checks:
    if os.path.exists("/verif/evidence/%s.json" % c): shutil.copy("/verif/evidence/%s.json" % c, saved)
res = {"name": name, "checks": {}}
r = sh("git -C /repo apply %s/patch.diff" % d); assert r.returncode == 0, r.stderr
try:
    res["baseline_with_patch"] = sh("cd /repo && /venv/bin/python -m pytest -q -p no:cacheprovider --continue-on-collection-errors 2>&1 | tail -1").stdout.strip()
    for c in checks:
        o = sh("cd /verif && bin/check %s --tier quick" % c)
        lines = [l for l in o.stdout.split("\n") if l.startswith("VIOLATION") or l.startswith(c + " ")]
        res["checks"][c] = {"exit": o.returncode, "lines": lines}
        if o.returncode != 0:
            for l in lines:
                if "replay=" in l:
                    rp = l.split("replay=")[1].split()[0]
                    try:
                        j = json.load(open(rp)); res["checks"][c]["replay_excerpt"] = json.dumps(j.get("case", j.get("broken")), default=str)[:500]
                    except Exception as ex: res["checks"][c]["replay_excerpt"] = repr(ex)
finally:
    sh("git -C /repo checkout -- .")
    for c in checks:
        if os.path.exists(os.path.join(saved, c + ".json")): shutil.copy(os.path.join(saved, c + ".json"), "/verif/evidence/%s.json" % c)
    shutil.rmtree(saved, ignore_errors=True)
bad = {c: v for c, v in res["checks"].items() if v["exit"] != 0}
print(name, res["baseline_with_patch"][-30:], "alarms:", sorted(bad))
for c, v in bad.items(): print("  ", c, v["lines"][:1], v.get("replay_excerpt", "")[:400])
