#!/usr/bin/env python3
"""Write /verif/MANIFEST.json from the check modules present under tools/checks."""
import importlib, json, os, sys
sys.path.insert(0, "/verif/tools")
sys.dont_write_bytecode = True
props = [json.loads(l) for l in open("/verif/properties.jsonl")]
checks, na = [], []
for p in props:
    pid = p["id"]
    path = "/verif/tools/checks/%s.py" % pid.lower()
    if os.path.exists(path):
        m = importlib.import_module("checks." + pid.lower())
        if getattr(m, "CLAIMED", True):
            checks.append({
                "property_id": pid,
                "quick_cmd": "bin/check %s --tier quick" % pid,
                "thorough_cmd": "bin/check %s --tier thorough" % pid,
                "evidence_file": "/verif/evidence/%s.json" % pid,
                "replay_cmd_template": "bin/check %s --replay {path}" % pid,
                "engine": "coq-model+correspondence",
                "level_claimed": {"category": getattr(m, "LEVEL", "proof"), "text": m.LEVEL_TEXT, "design_ref": "DESIGN.md section A.3, row %s" % pid},
                "level_note": m.LEVEL_NOTE,
                "technique": m.TECHNIQUE,
            })
            continue
        na.append({"property_id": pid, "reason": m.NA_REASON})
    else:
        na.append({"property_id": pid, "reason": "no check built yet for this property in the current state of /verif (work in progress; the technique applies, see DESIGN.md section 5)"})
man = {
    "version": 1,
    "setup_cmd": "bin/check --setup",
    "hooks": {"guard": "JSONPATH_RFC9535_VERIF", "enable": "no hooks are needed: every observation point is public API (compile/find, attributes of compiled objects, the random module replaced from the harness side)",
              "baseline_off_cmd": "cd /repo && /venv/bin/python -m pytest -ra -q -p no:cacheprovider --timeout=900 --continue-on-collection-errors",
              "source_commits": [], "add_only": True},
    "engines": [{"name": "coq-model+correspondence", "path": "/verif/bin/check", "serves_properties": [c["property_id"] for c in checks],
                 "kind_free_text": "Coq 8.16.1 theorems about an executable Gallina model and an RFC-transcribed specification (coq/), regenerated Gen files (tools/pygen), extracted OCaml executable jpx run against the real library on generated inputs (tools/checks)"}],
    "checks": checks,
    "not_applicable": na,
    "notes": "See DESIGN.md. Genuine defects found on the original tree were repaired by 'fix:' commits in /repo and are listed in known_findings.json as fixed entries.",
}
json.dump(man, open("/verif/MANIFEST.json", "w"), indent=1)
print("checks:", [c["property_id"] for c in checks], "n/a:", len(na))
