#!/bin/sh
# thorough tier of all twenty checks on a private copy of /verif and of the repository, six in parallel (development aid; needs a copy of the repository at /scratch/mutcamp/w9/repo, as `tools/mutcamp.py prepare 10` makes); results in build/thorough/final/
W=/scratch/mutcamp/w9
mkdir -p $W/verif
rsync -a --delete --exclude='.git' --exclude='replays' --exclude='build/thorough' --exclude='build/mutcamp' /verif/ $W/verif/
cd $W/repo && git checkout -q -- . && cd $W/verif
export VERIF_ROOT=$W/verif VERIF_REPO=$W/repo PYTHONPATH=$W/repo PYTHONHASHSEED=0
OUT=/verif/build/thorough/final; mkdir -p $OUT
lane() { for c in "$@"; do /usr/bin/time -f "$c %es" bin/check $c --tier thorough > $OUT/$c.log 2>&1; echo "$c exit=$?" >> $OUT/summary.txt; done; }
: > $OUT/summary.txt
bin/check C07 --tier quick > /dev/null 2>&1
lane C03 C20 C19 &
lane C02 C16 &
lane C01 C13 C06 &
lane C08 C12 C07 &
lane C09 C04 C10 C11 &
lane C05 C17 C18 C14 C15 &
wait
echo ALLDONE >> $OUT/summary.txt
