#!/usr/bin/env python3
"""Like tools/refrun.py (all quick checks against a behaviour-preserving rewrite; any VIOLATION is a false alarm of the machinery),
but on a private copy of /verif and of the repository made by `tools/mutcamp.py prepare`.
Usage: tools/refrun2.py <worker-index> <patch.diff> [<Cxx> ...]"""
import json, os, subprocess, sys
w, patch, checks = sys.argv[1], os.path.abspath(sys.argv[2]), sys.argv[3:] or ["C%02d" % i for i in range(1, 21)]
root = "/scratch/mutcamp/w" + w
env = dict(os.environ, VERIF_ROOT=root + "/verif", VERIF_REPO=root + "/repo", PYTHONPATH=root + "/repo", PYTHONHASHSEED="0")
def sh(c, **k): return subprocess.run(c, shell=True, capture_output=True, text=True, env=env, **k)
sh("rsync -a --delete /verif/tools/ %s/verif/tools/; rsync -a /verif/bin/ %s/verif/bin/; rsync -a --exclude='*.vo' --exclude='*.glob' --exclude='.*.aux' --exclude='*.vos' --exclude='*.vok' --exclude='Gen/' /verif/coq/ %s/verif/coq/" % (root, root, root))
assert sh("cd %s/repo && git status --porcelain" % root).stdout.strip() == "", "scratch repo not clean"
r = sh("cd %s/repo && git apply %s" % (root, patch)); assert r.returncode == 0, r.stderr
res = {}
try:
    base = sh("cd %s/repo && /venv/bin/python -m pytest -q -p no:cacheprovider --continue-on-collection-errors 2>&1 | tail -1" % root).stdout.strip()
    for c in checks:
        o = sh("cd %s/verif && bin/check %s --tier quick" % (root, c))
        lines = [l for l in o.stdout.split("\n") if l.startswith("VIOLATION") or l.startswith(c + " ")]
        res[c] = {"exit": o.returncode, "lines": lines}
        if o.returncode != 0:
            for l in lines:
                if "replay=" in l:
                    rp = l.split("replay=")[1].split()[0]
                    try:
                        j = json.load(open(rp)); res[c]["excerpt"] = json.dumps(j.get("case", j.get("broken")), default=str)[:600]
                    except Exception as ex: res[c]["excerpt"] = repr(ex)
finally:
    sh("cd %s/repo && git checkout -- ." % root)
bad = {c: v for c, v in res.items() if v["exit"] != 0}
print(os.path.basename(os.path.dirname(patch)), base[-30:], "alarms:", sorted(bad))
for c, v in bad.items(): print("  ", c, v["lines"][:1], v.get("excerpt", "")[:500])
