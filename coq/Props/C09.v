(* C09 - String literals and member names decode exactly as RFC 9535 specifies.
   Specification: Spec/StringLit.v (spec_decode).  Model: Model/Lex.v string states, Model/Parse.v decode_string_literal.

   C09_decode is the full statement for the parser's half: whatever token body the lexer's string states let
   through (lex_ok: a backslash is followed by one of ESCAPES or the own quote, the own quote does not occur
   unescaped), made of Unicode scalar values, _decode_string_literal returns exactly the RFC value or raises
   JSONPathSyntaxError at the token, never IndexError. *)
From JP Require Import Base.Json Spec.StringLit Model.Tokens Model.Lex Model.Parse Proofs.StringProofs Proofs.LexString.

Theorem C09_decode : forall q body idx, (q = 39%N \/ q = 34%N) ->
  lex_ok q body = true -> forallb is_scalar body = true ->
  decode_string_literal {| ty := tt_of q; tval := body; tidx := idx |}
  = match spec_decode q body with Some s => Ok s | None => Err ESyntax (Some idx) end.
Proof. intros q body idx [-> | ->]; [exact (decode_sq body idx) | exact (decode_dq body idx)]. Qed.
Print Assumptions C09_decode.

(* hypotheses are satisfiable, and on both sides of the accept/reject line *)
Example C09_decode_nonvacuous :
  lex_ok 39 [92; 117; 100; 56; 51; 68; 92; 117; 68; 69; 48; 48; 34; 92; 39]%N = true
  /\ forallb is_scalar [92; 117; 100; 56; 51; 68; 92; 117; 68; 69; 48; 48; 34; 92; 39]%N = true
  /\ lex_ok 34 [92; 117; 68; 67; 48; 48]%N = true /\ spec_decode 34 [92; 117; 68; 67; 48; 48]%N = None.
Proof. repeat split; vm_compute; reflexivity. Qed.

(* The lexer's half.  In whatever state the lexer enters lex_string (stacks, tokens so far, in a filter or not),
   if the text after the opening quote is a body the RFC derives followed by the closing quote, then within
   |body| + 2 state transitions it has emitted one string token holding exactly that body at the position of
   the body's first character, consumed the closing quote and nothing else, left every stack untouched - and
   the parser decodes that token to the RFC value. *)
Theorem C09_literal_end_to_end : forall q inf l body rest v, q = 39%N \/ q = 34%N ->
  l_rest l = body ++ q :: rest -> spec_decode q body = Some v ->
  exists k, (k <= length body + 2)%nat /\
    lex_steps k (SString q inf) l = LNext (after inf) (with_string_token l q body rest) /\
    decode_string_literal {| ty := tt_of q; tval := body; tidx := l_pos l |} = Ok v.
Proof. exact string_literal_end_to_end. Qed.
Print Assumptions C09_literal_end_to_end.

(* Rejection.  A text after the opening quote that has no prefix of the lexer-accepted shape followed by the quote
   stops the lexer with an ERROR token (tokenize then raises JSONPathSyntaxError); a body of that shape that the
   RFC does not derive is rejected by the parser (C09_decode, None case). *)
Theorem C09_lexer_rejects : forall q inf l, l_rest l <> [] -> scan q (l_rest l) [] = None ->
  exists k, (k <= length (l_rest l) + 2)%nat /\ is_error_stop (lex_steps k (SString q inf) l).
Proof. exact lex_string_reject. Qed.
Print Assumptions C09_lexer_rejects.
Theorem C09_scan_characterised : forall q s cur' rest', scan q s [] = Some (cur', rest') ->
  exists body r, s = body ++ q :: r /\ rest' = q :: r /\ cur' = rev body ++ [] /\ lex_ok q body = true.
Proof. intros q s cur' rest' H. exact (scan_sound q (length s) s [] cur' rest' (le_n _) H). Qed.
Print Assumptions C09_scan_characterised.

(* the shift/mask expression of _decode_hex_char equals the RFC formula for every surrogate pair:
   a finite domain (1024 x 1024), checked exhaustively by vm_compute in Proofs/StringProofs.v and lifted *)
Theorem C09_surrogate_arith : forall h l, is_high h = true -> is_low l = true ->
  65536 + Z.lor (Z.shiftl (Z.land h 1023) 10) (Z.land l 1023) = 65536 + (h - 55296) * 1024 + (l - 56320).
Proof. exact surrogate_arith. Qed.
Print Assumptions C09_surrogate_arith.

(* the RFC's table, on the specification side *)
Example C09_spec_table :
  spec_decode 39 [92; 98; 92; 102; 92; 110; 92; 114; 92; 116; 92; 47; 92; 92; 92; 39; 34]%N = Some [8; 12; 10; 13; 9; 47; 92; 39; 34]%N
  /\ spec_decode 34 [92; 117; 48; 48; 48; 48; 92; 117; 100; 56; 51; 68; 92; 117; 68; 69; 48; 48]%N = Some [0; 128512]%N
  /\ spec_decode 39 [92; 34]%N = None /\ spec_decode 34 [92; 117; 68; 56; 48; 48]%N = None /\ spec_decode 39 [9%N] = None.
Proof. repeat split; vm_compute; reflexivity. Qed.

(* model and specification agree on these bodies (non-vacuity of the pending theorem) *)
Example C09_model_examples :
  decode_string_literal {| ty := T_SQ_STRING; tval := [92; 117; 100; 56; 51; 68; 92; 117; 68; 69; 48; 48; 34; 92; 39]%N; tidx := 3 |}
    = Ok [128512; 34; 39]%N
  /\ decode_string_literal {| ty := T_DQ_STRING; tval := [92; 117; 68; 67; 48; 48]%N; tidx := 3 |} = Err ESyntax (Some 3).
Proof. split; vm_compute; reflexivity. Qed.

(* the lexer's regular expressions and ESCAPES in the model are the ones REGENERATED from lex.py on this run *)
From JP Require Import Proofs.TieLex Gen.LexConst Model.Lex.
Theorem C09_lexer_tables_regenerated : lex_tables_agree.      (* same matcher results on every text; same escape set *)
Proof. exact lex_tables_regenerated. Qed.
Print Assumptions C09_lexer_tables_regenerated.

(* ---- the literal inside a whole query ----
   As a name selector and as the right side of a comparison inside a filter: for every body the RFC derives (either quote style, every escape
   form), compile() of the whole query returns the query holding the RFC value of the literal - the lexer's string states entered from the
   bracket state and from the filter state, the token's decoding, the parser (Proofs/StringInQuery.v, through C03_complete_spelled). *)
From JP Require Import Model.Ast Model.Api Proofs.StringInQuery.
Theorem C09_name_selector_in_query : forall cfg q body k, q = 39%N \/ q = 34%N -> spec_decode q body = Some k ->
  m_compile cfg ([36; 91]%N ++ q :: body ++ [q; 93%N]) = Ok [Child [SName k]].
Proof. exact string_name_selector. Qed.
Print Assumptions C09_name_selector_in_query.
Theorem C09_comparison_in_query : forall cfg q body k, q = 39%N \/ q = 34%N -> spec_decode q body = Some k ->
  m_compile cfg ([36; 91; 63; 64; 61; 61]%N ++ q :: body ++ [q; 93%N]) = Ok [Child [SFilter (ECmp OEq (ERel []) (ELit (JStr k)))]].
Proof. exact string_comparison. Qed.
Print Assumptions C09_comparison_in_query.
