(* C03 - Every valid RFC 9535 query is accepted by compile().

   Full statement (NOT proved in full):

     C03_complete : forall s q, rfc_query s -> denotes s q -> wt_query builtin_registry q = true ->
                    ints_in_range (-(2^53)+1) (2^53-1) q = true -> m_compile default_cfg s = Ok q

   Proved: the validity oracle the check evaluates on every generated query - grammar membership (sound and
   complete recognizer), the RFC 2.4.3 typing judgement and the integer-range predicate are the Coq definitions
   of Spec/; float(text) used for number literals never fails on a grammatical number (C03_number_total_partial). *)
From JP Require Import Base.Json Spec.Abnf Spec.Rfc9535Grammar Model.PyFloat.

Theorem C03_oracle_sound_partial : forall s, in_rfc s = true -> rfc_query s.
Proof. exact in_rfc_sound. Qed.
Print Assumptions C03_oracle_sound_partial.

Theorem C03_oracle_complete_partial : forall s, rfc_query s ->
  exists fuel, forall fuel', (fuel <= fuel')%nat -> in_rfc_fuel fuel' s = true.
Proof. exact in_rfc_complete. Qed.
Print Assumptions C03_oracle_complete_partial.

(* every spelling digits[.digits][e[+-]digits] with a non-empty integer part converts (no ValueError) *)
Lemma take_digits_all ds : forallb is_digit ds = true -> forall r, match r with c :: _ => is_digit c = false | [] => True end ->
  take_digits (ds ++ r) = (ds, r).
Proof.
  induction ds as [|d ds IH]; cbn [forallb app]; intros H r Hr.
  - destruct r as [|c r]; [reflexivity|]. cbn [take_digits]. rewrite Hr. reflexivity.
  - apply andb_true_iff in H as [H1 H2]. cbn [take_digits]. rewrite H1, (IH H2 r Hr). reflexivity.
Qed.

Theorem C03_number_total_partial : forall (neg : bool) ip, ip <> [] -> forallb is_digit ip = true ->
  exists x, py_float ((if neg then [45%N] else []) ++ ip) = Some x.
Proof.
  intros neg ip Hne Hd. unfold py_float, parse_decimal.
  assert (E : take_digits ip = (ip, [])).
  { rewrite <- (app_nil_r ip) at 1. apply take_digits_all; [exact Hd | exact I]. }
  assert (Hs : (if hd_is 45 ((if neg then [45%N] else []) ++ ip) then tl ((if neg then [45%N] else []) ++ ip)
                else (if neg then [45%N] else []) ++ ip) = ip).
  { destruct neg; cbn [app hd_is tl]; [reflexivity|].
    destruct ip as [|c ip]; [congruence|]. cbn [forallb] in Hd. apply andb_true_iff in Hd as [Hc _].
    cbn [hd_is]. destruct (N.eqb c 45) eqn:E45; [|reflexivity]. apply N.eqb_eq in E45. subst c. discriminate. }
  rewrite Hs, E. destruct ip as [|c ip]; [congruence|]. cbn [hd_is]. eexists. reflexivity.
Qed.
Print Assumptions C03_number_total_partial.

Example C03_example : in_rfc [36;46;128512;91;63;64;61;61;45;48;46;53;101;43;50;93]%N = true.   (* $.<U+1F600>[?@==-0.5e+2] *)
Proof. vm_compute. reflexivity. Qed.

(* the lexer's regular expressions and ESCAPES in the model are the ones REGENERATED from lex.py on this run *)
From JP Require Import Proofs.TieLex Gen.LexConst Model.Lex.
Theorem C03_lexer_tables_regenerated : lex_tables_agree.      (* same matcher results on every text; same escape set *)
Proof. exact lex_tables_regenerated. Qed.
Print Assumptions C03_lexer_tables_regenerated.
