(* C03 - Every valid RFC 9535 query is accepted by compile().

   Full statement (NOT proved in full; kept here so that it is never quietly weakened):

     C03_complete : forall s q, rfc_query s -> denotes s q -> wt_query (reg cfg) q = true -> ints_in_range (min_idx cfg) (max_idx cfg) q = true ->
                    m_compile cfg s = Ok q

   Proved below (all for every registry and integer range):
     C03_tokens_complete    - the parser half: every token sequence the typed token grammar QT derives for q (RFC ABNF minus the lexical
                              layer; typing and integer range as side conditions; shorthand and bracket notation, both quote styles, any
                              parentheses) is accepted by Parser.parse, which returns q;
     C03_canonical_text     - the lexer half for one spelling of every query: the canonical text str(q) of ANY well-typed in-range query
                              (nested filters, calls, every operator; literals that survive repr()) compiles, to q with omitted slice steps
                              made explicit;
     C03_converse           - the other inclusion in full: whatever compiles is derivable from the ABNF (C04_sound), and its tokens are
                              derived by QT for the query returned;
     the validity oracle the check evaluates on every generated query - grammar membership (sound and complete recognizer), the RFC 2.4.3
     typing judgement and the integer-range predicate are the Coq definitions of Spec/; float(text) never fails on a grammatical number.
     C03_complete_filter_free / C03_exact_filter_free - for queries without filters the headline in full, relative to the spelling relation of
                              Proofs/LexSpell.v: every spelling of every derivable token sequence compiles to the query derived, and nothing else does;
     C03_complete_spelled / C03_exact_spelled - the same for ALL queries, filters included, every number spelling (fraction, exponent) included
                              (Proofs/LexCompleteF.v): compile() accepts exactly the spellings of derivable token sequences, and returns the query derived;
     C03_abnf_lexical_rules - every alternative of every LEXICAL rule of the ABNF (blank space, member-name shorthand incl. its non-ASCII ranges, int,
                              every number spelling, function names, both kinds of string literal with every escape form) is a token text the spelling
                              relation ranges over and converts without error (Proofs/AbnfInvert.v: inversion of ABNF derivations);
     C03_complete_abnf_no_filter - the headline itself, with no spelling relation in the statement, for strings without "?": every string the ABNF
                              derives that contains no "?" compiles in every environment whose integer range contains the integers it mentions
                              (Proofs/AbnfSpell.v: ABNF derivations -> token-grammar derivations + spellings, continuation-passing through the bracket structure);
     C03_complete_abnf_no_call - the same with filter selectors: logical expressions, comparisons, parentheses, negation, existence tests, nested
                              queries and nested filters - every string of the grammar that makes no function call compiles (Proofs/AbnfSpellF.v);
     C03_complete_abnf_builtin - the whole language with the built-in functions: the RFC grammar in which every function call is a well-typed use of
                              length / count / value / match / search (bf_grammar: the typing rules of RFC 9535 2.4.3 with the signatures of 2.4.4-2.4.8
                              written into the grammar; every string of it is a string of the RFC grammar, C03_builtin_is_rfc): every string it
                              derives compiles wherever those five functions are registered with those signatures and the range contains its integers
                              (Proofs/AbnfSpellG.v);
     C03_C04_builtin_exact  - and conversely (Proofs/TextSoundB.v): with the registry setup_function_extensions builds, compile() accepts EXACTLY the strings
                              of bf_grammar whose integers are in range - so what is left to read against the RFC is that one grammar
                              (Spec/BuiltinGrammar.v: the ABNF with the typing rules of 2.4.3 written into comparable, test-expr and the calls).  The check renders every generated valid query in every
   lexical form and requires it to compile to the generating structure. *)
From JP Require Import Base.Json Spec.Abnf Spec.Rfc9535Grammar Model.PyFloat.

Theorem C03_oracle_sound_partial : forall s, in_rfc s = true -> rfc_query s.
Proof. exact in_rfc_sound. Qed.
Print Assumptions C03_oracle_sound_partial.

Theorem C03_oracle_complete_partial : forall s, rfc_query s ->
  exists fuel, forall fuel', (fuel <= fuel')%nat -> in_rfc_fuel fuel' s = true.
Proof. exact in_rfc_complete. Qed.
Print Assumptions C03_oracle_complete_partial.

(* every spelling digits[.digits][e[+-]digits] with a non-empty integer part converts (no ValueError) *)
Lemma take_digits_all ds : forallb is_digit ds = true -> forall r, match r with c :: _ => is_digit c = false | [] => True end ->
  take_digits (ds ++ r) = (ds, r).
Proof.
  induction ds as [|d ds IH]; cbn [forallb app]; intros H r Hr.
  - destruct r as [|c r]; [reflexivity|]. cbn [take_digits]. rewrite Hr. reflexivity.
  - apply andb_true_iff in H as [H1 H2]. cbn [take_digits]. rewrite H1, (IH H2 r Hr). reflexivity.
Qed.

Theorem C03_number_total_partial : forall (neg : bool) ip, ip <> [] -> forallb is_digit ip = true ->
  exists x, py_float ((if neg then [45%N] else []) ++ ip) = Some x.
Proof.
  intros neg ip Hne Hd. unfold py_float, parse_decimal.
  assert (E : take_digits ip = (ip, [])).
  { rewrite <- (app_nil_r ip) at 1. apply take_digits_all; [exact Hd | exact I]. }
  assert (Hs : (if hd_is 45 ((if neg then [45%N] else []) ++ ip) then tl ((if neg then [45%N] else []) ++ ip)
                else (if neg then [45%N] else []) ++ ip) = ip).
  { destruct neg; cbn [app hd_is tl]; [reflexivity|].
    destruct ip as [|c ip]; [congruence|]. cbn [forallb] in Hd. apply andb_true_iff in Hd as [Hc _].
    cbn [hd_is]. destruct (N.eqb c 45) eqn:E45; [|reflexivity]. apply N.eqb_eq in E45. subst c. discriminate. }
  rewrite Hs, E. destruct ip as [|c ip]; [congruence|]. cbn [hd_is]. eexists. reflexivity.
Qed.
Print Assumptions C03_number_total_partial.

Example C03_example : in_rfc [36;46;128512;91;63;64;61;61;45;48;46;53;101;43;50;93]%N = true.   (* $.<U+1F600>[?@==-0.5e+2] *)
Proof. vm_compute. reflexivity. Qed.

(* ---- what is proved of the headline ---- *)
From JP Require Import Model.Tokens Model.Ast Model.Parse Model.Api Model.Serialize Spec.Types Spec.Printable Proofs.StringProofs Proofs.Requery Proofs.ParseComplete
  Proofs.ParseSound Proofs.LexShape Proofs.ReparseF Proofs.TextSound.
Theorem C03_tokens_complete : forall cfg q t v0 i0 v1 i1, QT cfg q t ->
  exists s, p_parse cfg (tk T_ROOT v0 i0 :: t ++ [tk T_EOF v1 i1]) = POk q s.
Proof. exact parse_complete. Qed.
Print Assumptions C03_tokens_complete.

Theorem C03_canonical_text : forall cfg q, in_range cfg 1 = true ->
  wt_query (reg cfg) q = true -> ints_in_range (min_idx cfg) (max_idx cfg) q = true -> lx_query q = true ->
  m_compile cfg (m_str q) = Ok (map cn_seg q).
Proof. intros cfg q H1 Hw Hi Hl. apply compile_str_f; assumption. Qed.
Print Assumptions C03_canonical_text.

Theorem C03_converse : forall cfg text q, forallb is_scalar text = true -> m_compile cfg text = Ok q ->
  rfc_query text /\ exists root t e, Model.Lex.m_tokenize text = Ok (root :: t ++ [e]) /\ QT cfg q t.
Proof.
  intros cfg text q Hs Hc. split; [exact (compile_text_sound cfg text q Hs Hc)|].
  destruct (compile_sound_tokens cfg text q Hc) as (root & t & e & Ht & _ & _ & HQ). exists root, t, e. split; assumption.
Qed.
Print Assumptions C03_converse.

(* ---- every lexical variant, for queries without filters ----
   t: any token sequence the grammar derives for q; z: any text spelling t - blanks wherever the lexical layer allows them (between segments, after
   "[" and ",", around ":" and before "]"; none after "..", inside ".name" or before the end), dot shorthand or brackets, either quote style around
   any body with any escape form, any integer spelling of an index.  Then compile("$" z) returns q; and compile accepts exactly such texts. *)
From JP Require Import Proofs.EvalProofs Proofs.LexSpell Proofs.LexComplete.
Theorem C03_complete_filter_free : forall cfg q t z a', QT cfg q t -> filter_free q = true -> forallb is_scalar z = true -> RunT a0 t z a' ->
  m_compile cfg (36%N :: z) = Ok q.
Proof. exact spelled_compiles_ff. Qed.
Print Assumptions C03_complete_filter_free.

Theorem C03_exact_filter_free : forall cfg q z, filter_free q = true -> forallb is_scalar z = true ->
  (m_compile cfg (36%N :: z) = Ok q <-> exists t a', QT cfg q t /\ RunT a0 t z a').
Proof. exact compile_iff_spelled_ff. Qed.
Print Assumptions C03_exact_filter_free.

(* the hypotheses are satisfiable, with blanks, both notations, both quote styles, an escape, a slice:  $ .a ..[ "\u0062" , 'c' ,1 : :-2 , * ]  *)
Example C03_filter_free_nonvacuous :
  let cfg := {| min_idx := -9007199254740991; max_idx := 9007199254740991; max_depth := 100; reg := []; rx := fun _ _ _ => false |} in
  let z := [32;46;97;32;46;46;91;32;34;92;117;48;48;54;50;34;32;44;32;39;99;39;32;44;49;32;58;32;58;45;50;32;44;32;42;32;93]%N in
  exists q t a', m_compile cfg (36%N :: z) = Ok q /\ filter_free q = true /\ QT cfg q t /\ RunT a0 t z a'.
Proof.
  intros cfg z. destruct (m_compile cfg (36%N :: z)) as [q| | |] eqn:E; try (vm_compute in E; discriminate E).
  destruct (compiles_spelled cfg _ q E) as (t & z' & a' & Ez & HQ & HR). inversion Ez; subst z'. exists q, t, a'. split; [reflexivity|]. split; [|split; assumption].
  vm_compute in E. inversion E. reflexivity.
Qed.

(* ---- every lexical variant, for every query ----
   The same for queries WITH filters (Proofs/LexCompleteF.v): operators and keywords with any blanks around them, parentheses anywhere the grammar allows,
   nested filters and function calls (the lexer's three stacks are threaded through the induction), both quote styles, any escape form, every number
   spelling of the two token patterns (sign, digits, optional fraction, optional exponent with or without sign). *)
From JP Require Import Proofs.LexCompleteF.
Theorem C03_complete_spelled : forall cfg q t z a', QT cfg q t -> forallb is_scalar z = true -> RunT a0 t z a' ->
  m_compile cfg (36%N :: z) = Ok q.
Proof. exact spelled_compiles. Qed.
Print Assumptions C03_complete_spelled.

(* and nothing else compiles: acceptance is EXACTLY being a spelling of a derivable token sequence, the result exactly the query derived *)
Theorem C03_exact_spelled : forall cfg q z, forallb is_scalar z = true ->
  ((exists t a', QT cfg q t /\ RunT a0 t z a') <-> m_compile cfg (36%N :: z) = Ok q).
Proof. exact compile_iff_spelled. Qed.
Print Assumptions C03_exact_spelled.

(* the hypotheses are satisfiable:  $[ ?@ .a>= 1.5e-3 &&!( count( @.* ) ==-2E+1 )|| $['b'] != "x" || @.c < 7e-2 ]  with count() registered *)
Example C03_spelled_nonvacuous :
  let rg := [([99; 111; 117; 110; 116]%N, {| f_args := [TNodes]; f_ret := TValue; f_impl := FCount |})] in
  let cfg := {| min_idx := -9007199254740991; max_idx := 9007199254740991; max_depth := 100; reg := rg; rx := fun _ _ _ => false |} in
  let z := [91;32;63;64;32;46;97;62;61;32;49;46;53;101;45;51;32;38;38;33;40;32;99;111;117;110;116;40;32;64;46;42;32;41;32;61;61;45;50;69;43;49;32;41;124;124;32;36;91;39;98;39;93;32;33;61;32;34;120;34;32;124;124;32;64;46;99;32;60;32;55;101;45;50;32;93]%N in
  exists q t a', QT cfg q t /\ forallb is_scalar z = true /\ RunT a0 t z a' /\ m_compile cfg (36%N :: z) = Ok q.
Proof.
  intros rg cfg z. destruct (m_compile cfg (36%N :: z)) as [q| | |] eqn:E; try (vm_compute in E; discriminate E).
  destruct (compiles_spelled cfg _ q E) as (t & z' & a' & Ez & HQ & HR). inversion Ez; subst z'.
  exists q, t, a'. split; [exact HQ|]. split; [vm_compute; reflexivity | split; [exact HR | reflexivity]].
Qed.

Theorem C03_accepts_only_spellings : forall cfg q z, m_compile cfg (36%N :: z) = Ok q -> exists t a', QT cfg q t /\ RunT a0 t z a'.
Proof. intros cfg q z Hc. destruct (compiles_spelled cfg _ q Hc) as (t & z' & a' & E & HQ & HR). inversion E; subst z'. exists t, a'. split; assumption. Qed.
Print Assumptions C03_accepts_only_spellings.

(* the lexer's regular expressions and ESCAPES in the model are the ones REGENERATED from lex.py on this run *)
From JP Require Import Proofs.TieLex Gen.LexConst Model.Lex.
Theorem C03_lexer_tables_regenerated : lex_tables_agree.      (* same matcher results on every text; same escape set *)
Proof. exact lex_tables_regenerated. Qed.
Print Assumptions C03_lexer_tables_regenerated.

(* ---- from the ABNF itself ----
   Proofs/AbnfInvert.v inverts derivations of the transcribed grammar.  Lexical layer: whatever the ABNF derives for a lexical rule is a token text
   of the shape the lexer's patterns and states accept (and the spelling relation ranges over), and the parser's conversions succeed on it. *)
From JP Require Import Spec.StringLit Proofs.Reparse Proofs.LexNoCrash Proofs.NumMatch Proofs.AbnfDerive Proofs.AbnfInvert Proofs.AbnfSpell Model.PyFloat Model.Parse.
Theorem C03_abnf_lexical_rules :
  (forall b, D S_ b -> blanks b) /\
  (forall s, D (R r_member_name_shorthand) s -> name_shape s) /\
  (forall s, D (R r_int) s -> int_text_ok s (int_of_index s)) /\
  (forall v, D (R r_number) v -> has_leading_zero v = false /\ (int_form v \/ float_form v) /\ exists x, py_float v = Some x) /\
  (forall s, D (R r_function_name) s -> exists c cs, s = c :: cs /\ in_ranges c Spec.Printable.cls_fn_first = true /\ forallb (fun y => in_ranges y Spec.Printable.cls_fn_char) cs = true) /\
  (forall s, D (R r_string_literal) s -> exists q body k, s = q :: body ++ [q] /\ qok q /\ spec_decode q body = Some k).
Proof. exact (conj i_S (conj abnf_name (conj abnf_int (conj abnf_number (conj abnf_function_name abnf_string))))). Qed.
Print Assumptions C03_abnf_lexical_rules.

(* The headline for strings without "?" (no filter selector): the statement mentions only the ABNF, compile() and the integer range.  B bounds the
   integers the string mentions; typing does not arise without filters. *)
Theorem C03_complete_abnf_no_filter : forall s, rfc_query s -> ~ In 63%N s ->
  exists q B, forall cfg, min_idx cfg <= - B -> B <= max_idx cfg -> m_compile cfg s = Ok q.
Proof. intros s H Hn. destruct (abnf_no_filter_compiles s H Hn) as (q & B & _ & K). exists q, B. intros cfg H1 H2. apply K. split; assumption. Qed.
Print Assumptions C03_complete_abnf_no_filter.

(* not vacuous:  $ .a ['b' , 0] ..* [ 1 : :-1 ]  *)
Example C03_abnf_no_filter_nonvacuous :
  let s := [36;32;46;97;32;91;39;98;39;32;44;32;48;93;32;46;46;42;32;91;32;49;32;58;32;58;45;49;32;93]%N in rfc_query s /\ ~ In 63%N s.
Proof. intros s. split; [apply in_rfc_sound; vm_compute; reflexivity | vm_compute; intuition discriminate]. Qed.

(* ... and with filter selectors.  The sub-language is the RFC grammar with the function-expr alternative removed from comparable and test-expr
   (nf_grammar: every derivation of it is a derivation of the RFC grammar, C03_no_call_is_rfc); without function calls well-typedness is syntactic
   (comparands are literals or singular queries by the grammar), so validity is the integer range alone. *)
From JP Require Import Proofs.AbnfSpellF.
Theorem C03_complete_abnf_no_call : forall s, derives nf_grammar (R r_jsonpath_query) s ->
  exists B, forall cfg, min_idx cfg <= - B -> B <= max_idx cfg -> exists q, m_compile cfg s = Ok q.
Proof. intros s H. destruct (abnf_no_call_compiles s H) as (B & K). exists B. intros cfg H1 H2. apply K. split; assumption. Qed.
Print Assumptions C03_complete_abnf_no_call.
Theorem C03_no_call_is_rfc : forall s, derives nf_grammar (R r_jsonpath_query) s -> rfc_query s.
Proof. intros s H. apply dn_d. exact H. Qed.
Print Assumptions C03_no_call_is_rfc.

(* not vacuous:  $[?@.a == 'x' && !( @ .b[ 0 ] <1.5e-3|| $..c [?@>= -2 ])] ['k', 1:] *)
Example C03_abnf_no_call_nonvacuous :
  let s := [36;91;63;64;46;97;32;61;61;32;39;120;39;32;38;38;32;33;40;32;64;32;46;98;91;32;48;32;93;32;60;49;46;53;101;45;51;124;124;32;36;46;46;99;32;91;63;64;62;61;32;45;50;32;93;41;93;32;91;39;107;39;44;32;49;58;93]%N in
  derives nf_grammar (R r_jsonpath_query) s.
Proof. intros s. apply (accepts_sound nf_grammar (40 * length s + 200)). vm_compute. reflexivity. Qed.

(* ---- the whole language, with the built-in functions ----
   bf_grammar: comparable = literal / singular-query / VALUE-CALL, test-expr = [!] (filter-query / LOGICAL-CALL),
   VALUE-CALL = length "(" S VALUE-ARG S ")" / count "(" S filter-query S ")" / value "(" S filter-query S ")",  VALUE-ARG = literal / singular-query / VALUE-CALL,
   LOGICAL-CALL = (match / search) "(" S VALUE-ARG S "," S VALUE-ARG S ")"; every other rule as in the RFC. *)
From JP Require Import Spec.BuiltinGrammar Proofs.AbnfSpellG.
Theorem C03_complete_abnf_builtin : forall s, derives bf_grammar (R r_jsonpath_query) s ->
  exists B, forall cfg, min_idx cfg <= - B -> B <= max_idx cfg -> std cfg -> exists q, m_compile cfg s = Ok q.
Proof. intros s H. destruct (abnf_builtin_compiles s H) as (B & K). exists B. intros cfg H1 H2 H3. apply K; [split; assumption | exact H3]. Qed.
Print Assumptions C03_complete_abnf_builtin.
Theorem C03_builtin_is_rfc : forall s, derives bf_grammar (R r_jsonpath_query) s -> rfc_query s.
Proof. exact builtin_grammar_is_rfc. Qed.
Print Assumptions C03_builtin_is_rfc.

(* not vacuous:  $[?length(@.a) >= 2 && match( @.b , 'x.*' ) || count(@..* ) == value(@.c[?@ > 1]) || !search(@['d'], "y")][ ?length( length(@) ) ==1] *)
Example C03_abnf_builtin_nonvacuous :
  let s := [36;91;63;108;101;110;103;116;104;40;64;46;97;41;32;62;61;32;50;32;38;38;32;109;97;116;99;104;40;32;64;46;98;32;44;32;39;120;46;42;39;32;41;32;124;124;32;99;111;117;110;116;40;64;46;46;42;41;32;61;61;32;118;97;108;117;101;40;64;46;99;91;63;64;32;62;32;49;93;41;32;124;124;32;33;115;101;97;114;99;104;40;64;91;39;100;39;93;44;32;34;121;34;41;93;91;32;63;108;101;110;103;116;104;40;32;108;101;110;103;116;104;40;64;41;32;41;32;61;61;49;93]%N in derives bf_grammar (R r_jsonpath_query) s.
Proof. intros s. apply (accepts_sound bf_grammar (40 * length s + 200)). vm_compute. reflexivity. Qed.

(* ... and nothing else compiles: with the registry JSONPathEnvironment.setup_function_extensions builds (Model/Ast.v builtin_registry, tied to
   environment.py by the regenerated Gen/Env.v), compile() accepts exactly the strings of bf_grammar whose integers are in range.  The converse
   inclusion is Proofs/TextSoundB.v: Proofs/TextSound.v (C04_sound) run again with the typed grammar, the typing premises of the token grammar
   picking the typed alternative of every call. *)
From JP Require Import Model.Ast Proofs.StringProofs Proofs.TextSoundB.
Theorem C03_C04_builtin_exact : forall cfg s, reg cfg = builtin_registry -> forallb is_scalar s = true ->
  ((exists q, m_compile cfg s = Ok q) -> derives bf_grammar (R r_jsonpath_query) s) /\
  (derives bf_grammar (R r_jsonpath_query) s -> exists B, min_idx cfg <= - B -> B <= max_idx cfg -> exists q, m_compile cfg s = Ok q).
Proof. exact builtin_exact. Qed.
Print Assumptions C03_C04_builtin_exact.
