(* C01 - Structural selection (segments, name/index/slice/wildcard) follows RFC 9535. *)
From JP Require Import Base.Json Model.Ast Model.Eval Spec.Sem Proofs.EvalProofs.

(* For every environment configuration, every filter-free query (any mix of child/descendant segments and
   name, index, slice, wildcard selectors) and every JSON value whose container nesting is within the
   configured limit, the model of find() returns exactly the RFC nodelist: same nodes (location and value),
   same order, duplicates kept. *)
Theorem C01_eval : forall (cfg : envcfg) (q : query) (v : json),
  filter_free q = true -> (1 <= max_depth cfg)%nat -> (nesting v <= max_depth cfg)%nat ->
  m_find cfg q v = Ok (sem (reg cfg) (rx cfg) q v).
Proof. exact find_filter_free. Qed.
Print Assumptions C01_eval.

(* the traversal used by a descendant segment is the pre-order of the RFC restricted to containers,
   and selectors select nothing from scalars, so the restriction is invisible *)
Theorem C01_visit_preorder : forall limit v d loc,
  (d <= limit)%nat -> (nesting v + d <= S limit)%nat ->
  m_visit limit d loc v = Ok ((loc, v) :: filter isc (tl (descendants loc v))).
Proof. exact visit_spec. Qed.
Print Assumptions C01_visit_preorder.

(* non-vacuity: $..[0,'a',::-1,*] on a three-level document, both sides computed *)
Definition ex_cfg : envcfg := {| min_idx := -9; max_idx := 9; max_depth := 100; reg := builtin_registry; rx := fun _ _ _ => false |}.
Definition ex_doc : json :=
  JObj [([97%N], JArr [JNum (NInt 1); JObj [([97%N], JNull)]]); ([98%N], JArr [JArr [JBool true]])].
Definition ex_q : query := [Desc [SIndex 0; SName [97%N]; SSlice None None (Some (-1)); SWild]].
Example C01_example :
  filter_free ex_q = true /\ m_find ex_cfg ex_q ex_doc = Ok (sem builtin_registry (fun _ _ _ => false) ex_q ex_doc)
  /\ length (sem builtin_registry (fun _ _ _ => false) ex_q ex_doc) = 16%nat.
Proof. repeat split; vm_compute; reflexivity. Qed.

(* the same at the level of TEXT: whatever spelling of a filter-free query compile() accepts - shorthand or brackets, either
   quote style, any blank space - find(text, value) is the RFC nodelist of the query compile() returned; that query is the one
   the typed token grammar derives from the lexer's tokens for this text (C04_compile_sound_tokens), and the text itself is
   derivable from the RFC 9535 ABNF character by character (C04_sound) *)
From JP Require Import Model.Api Model.Lex Model.Tokens Spec.Rfc9535Grammar Proofs.StringProofs Proofs.ParseComplete Proofs.ParseSound Proofs.LexShape Proofs.TextSound.
Theorem C01_find_text : forall cfg text q v, m_compile cfg text = Ok q -> filter_free q = true ->
  (1 <= max_depth cfg)%nat -> (nesting v <= max_depth cfg)%nat ->
  m_env_find cfg text v = Ok (sem (reg cfg) (rx cfg) q v) /\
  (exists root t e, m_tokenize text = Ok (root :: t ++ [e]) /\ QT cfg q t) /\
  (forallb is_scalar text = true -> rfc_query text).
Proof.
  intros cfg text q v Ec Hf H1 Hn. split; [|split].
  - unfold m_env_find. rewrite Ec. cbn [bind]. apply find_filter_free; assumption.
  - destruct (compile_sound_tokens cfg text q Ec) as (root & t & e & Ht & _ & _ & HQ). exists root, t, e. split; assumption.
  - intros Hs. exact (compile_text_sound cfg text q Hs Ec).
Qed.
Print Assumptions C01_find_text.

(* ... and every spelling does compile: for every filter-free query q, every token sequence t the grammar derives for it and every text z spelling t
   (Proofs/LexComplete.v), find("$" z, v) is the RFC nodelist of q *)
From JP Require Import Proofs.LexSpell Proofs.LexComplete.
Theorem C01_every_spelling : forall cfg q t z a' v, QT cfg q t -> filter_free q = true -> forallb is_scalar z = true -> RunT a0 t z a' ->
  (1 <= max_depth cfg)%nat -> (nesting v <= max_depth cfg)%nat ->
  m_env_find cfg (36%N :: z) v = Ok (sem (reg cfg) (rx cfg) q v).
Proof.
  intros cfg q t z a' v HQ Hff Hs HR H1 Hn. unfold m_env_find. rewrite (spelled_compiles_ff cfg q t z a' HQ Hff Hs HR). cbn [bind]. apply find_filter_free; assumption.
Qed.
Print Assumptions C01_every_spelling.

(* ... and from the ABNF itself (Proofs/AbnfSpell.v): for every string the grammar derives that contains no "?" there is a query q - the one it
   spells - such that find(string, v) is the RFC nodelist of q, in every environment whose integer range contains the integers it mentions *)
From JP Require Import Spec.Rfc9535Grammar Proofs.AbnfSpell.
Theorem C01_abnf_no_filter : forall s, rfc_query s -> ~ In 63%N s ->
  exists q B, filter_free q = true /\ forall cfg v, min_idx cfg <= - B -> B <= max_idx cfg -> (1 <= max_depth cfg)%nat -> (nesting v <= max_depth cfg)%nat ->
    m_env_find cfg s v = Ok (sem (reg cfg) (rx cfg) q v).
Proof.
  intros s H Hn. destruct (abnf_no_filter_compiles s H Hn) as (q & B & Hff & K). exists q, B. split; [exact Hff|]. intros cfg v H1 H2 H3 H4.
  unfold m_env_find. rewrite (K cfg (conj H1 H2)). cbn [bind]. apply find_filter_free; assumption.
Qed.
Print Assumptions C01_abnf_no_filter.
