(* C20 - The command-line tool is a faithful, well-behaved front end to find().
   How the front end treats every exception class in every phase, and the exception hierarchy, are REGENERATED on each
   run by fault injection against the current source (Gen/Cli.v, tools/pygen/cli_probe.py: the library call of the phase
   is made to raise, with and without --debug), together with one successful run whose output must be the JSON dump of
   find().values().  Process I/O (argparse, files, json.load/dump) is outside any Gallina model: the check exercises
   it with real subprocess runs (partial, stated as such). *)
From JP Require Import Base.Prelude Model.CliLang Gen.Cli.

Definition s_JSONPathError : str := [74; 83; 79; 78; 80; 97; 116; 104; 69; 114; 114; 111; 114]%N.
Definition s_JSONDecodeError : str := [74; 83; 79; 78; 68; 101; 99; 111; 100; 101; 69; 114; 114; 111; 114]%N.
Definition s_UnicodeDecodeError : str := [85; 110; 105; 99; 111; 100; 101; 68; 101; 99; 111; 100; 101; 69; 114; 114; 111; 114]%N.
Definition jsonpath_errors : list str :=
  map fst (filter (fun cb => is_subclass 8 g_exception_classes (fst cb) s_JSONPathError) g_exception_classes).

(* without --debug: exit status non-zero, exactly one line on standard error, no traceback, nothing on standard output;
   with --debug: the exception itself is re-raised *)
Definition handled_ok (o : obs) : bool :=
  if o_debug o then o_prop o
  else negb (o_prop o) && (0 <? o_exit o) && (o_lines o =? 1)%nat && negb (o_tb o) && o_quiet o.
Definition covered (phase : nat) (c : str) : bool :=
  existsb (fun o => (o_phase o =? phase)%nat && str_eqb (o_class o) c && o_debug o) g_cli_observed
  && existsb (fun o => (o_phase o =? phase)%nat && str_eqb (o_class o) c && negb (o_debug o)) g_cli_observed.

(* every JSONPathError subclass, raised by compile() or by find(), is reported in one line with a non-zero exit status
   (re-raised under --debug), and every one of them was exercised in both phases and both modes *)
Theorem C20_errors :
  forallb handled_ok g_cli_observed = true /\
  forallb (covered 0) jsonpath_errors = true /\ forallb (covered 1) jsonpath_errors = true /\
  (7 <= length jsonpath_errors)%nat.
Proof. repeat split; vm_compute; reflexivity. Qed.
Print Assumptions C20_errors.

(* an undecodable document is handled the same way *)
Theorem C20_decode_errors : covered 2 s_JSONDecodeError = true /\ covered 2 s_UnicodeDecodeError = true.
Proof. split; vm_compute; reflexivity. Qed.
Print Assumptions C20_decode_errors.

Theorem C20_success_shape : g_output_is_dump_of_find_values = true.
Proof. reflexivity. Qed.
Print Assumptions C20_success_shape.
