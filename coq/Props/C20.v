(* C20 - The command-line tool is a faithful, well-behaved front end to find().
   The handler tables and the exception hierarchy are REGENERATED from cli.py and exceptions.py (Gen/Cli.v); the
   generator also recognises, statement by statement, that the output is json.dump(path.find(data).values(), ...).
   Process I/O (argparse, files, json.load/dump) is outside any Gallina model: the check exercises it with real
   subprocess runs (partial, stated as such). *)
From JP Require Import Base.Prelude Model.CliLang Gen.Cli.

Definition s_JSONPathError : str := [74; 83; 79; 78; 80; 97; 116; 104; 69; 114; 114; 111; 114]%N.
Definition jsonpath_errors : list str :=
  map fst (filter (fun cb => is_subclass 8 g_exception_classes (fst cb) s_JSONPathError) g_exception_classes).
Definition well_handled (hs : list handler) (c : str) : bool :=
  match catching g_exception_classes hs c with
  | Some h => h_debug_reraise h && h_one_line h && negb (h_exit h =? 0)
  | None => false
  end.

(* every JSONPathError subclass, raised by compile() or by find(), is caught: without --debug one line goes to
   standard error and the exit status is non-zero (nothing was written to the output: the dump comes after both
   try blocks); with --debug the exception is re-raised *)
Theorem C20_errors :
  forallb (well_handled g_compile_handlers) jsonpath_errors = true /\
  forallb (well_handled g_find_handlers) jsonpath_errors = true /\
  (7 <= length jsonpath_errors)%nat.
Proof. repeat split; vm_compute; reflexivity. Qed.
Print Assumptions C20_errors.

(* an undecodable document is handled the same way *)
Theorem C20_decode_errors :
  well_handled g_find_handlers [74; 83; 79; 78; 68; 101; 99; 111; 100; 101; 69; 114; 114; 111; 114]%N = true /\
  well_handled g_find_handlers [85; 110; 105; 99; 111; 100; 101; 68; 101; 99; 111; 100; 101; 69; 114; 114; 111; 114]%N = true.
Proof. split; vm_compute; reflexivity. Qed.
Print Assumptions C20_decode_errors.

Theorem C20_success_shape : g_output_is_dump_of_find_values = true.
Proof. reflexivity. Qed.
Print Assumptions C20_success_shape.
