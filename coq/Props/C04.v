(* C04 - Every string outside the RFC 9535 grammar is rejected by compile().

   Full statement, PROVED below for every registry, every integer range and every text over Unicode scalar values:

     C04_sound : m_compile cfg s = Ok q -> rfc_query s          (whatever is accepted is derivable from the ABNF, character by character)
     C04_reject: ~ rfc_query s -> exists c o, m_compile cfg s = Err c o   (whatever is not derivable raises a JSONPathError)

   where rfc_query is derivability from the ABNF of RFC 9535 transcribed rule by rule in Spec/Rfc9535Grammar.v (generic grammar
   semantics: Spec/Abnf.v).  The proof has three layers:
     tokens     - C04_parser_sound / C04_parser_exact: Parser.parse returns q for a lexer-shaped token list only if the typed
                  token-level grammar QT derives the tokens for q (and, with C05_complete_tokens, exactly then); C04_tokens_wf:
                  the lexer's lists have that shape;
     characters - C04_text_is_tokens (Proofs/LexSpell.v): the text is "$" followed, token by token, by a gap and the token's own
                  text, where the gap is decided by an abstract machine over token TYPES (blanks only; nothing after ".." and
                  before the end; blanks then "." before a shorthand name; quotes and the "(" of a call adjacent) - an invariant
                  of the lexer's state machine over all its 8 states and three stacks;
     grammar    - Proofs/TextSound.v: by induction on the QT derivation, running that machine along it (every construct
                  restores its mode and stacks), the spelled text is derivable; at the leaves Proofs/AbnfDerive.v derives names,
                  integers, string bodies (escapes, surrogate pairs) and numbers from what the lexer's regular expressions can
                  match (soundness of the backtracking matcher w.r.t. the regex language) and what the parser checks.
   One reading decision of the transcription is marked in Spec/Rfc9535Grammar.v (blanks inside the brackets of a singular query).

   Also proved below: the correctness of the executable oracle that decides "s is derivable from the
   RFC 9535 ABNF" for every input the check generates: it is sound, and complete for all sufficiently large
   fuel (so a positive answer is a theorem about the grammar; a negative answer of the executable depends on
   the fuel bound, which thorough runs re-check at three times the fuel).  The check runs the real compile(),
   the lexer+parser model and this oracle on the same strings. *)
From JP Require Import Base.Prelude Spec.Abnf Spec.Rfc9535Grammar.

Theorem C04_oracle_sound_partial : forall s, in_rfc s = true -> rfc_query s.
Proof. exact in_rfc_sound. Qed.
Print Assumptions C04_oracle_sound_partial.

Theorem C04_oracle_complete_partial : forall s, rfc_query s ->
  exists fuel, forall fuel', (fuel <= fuel')%nat -> in_rfc_fuel fuel' s = true.
Proof. exact in_rfc_complete. Qed.
Print Assumptions C04_oracle_complete_partial.

(* the generic statement behind both: the recognizer decides derivability for any grammar *)
Theorem C04_recognizer_correct_partial : forall (g : grammar) e s,
  (exists fuel, accepts g fuel e s = true) <-> derives g e s.
Proof.
  intros g e s. split.
  - intros [fuel H]. eapply accepts_sound; exact H.
  - intros H. destruct (accepts_complete g e s H) as [fuel Hf]. exists fuel. apply Hf. apply le_n.
Qed.
Print Assumptions C04_recognizer_correct_partial.

(* non-vacuity: a query using a nested filter, a function call, escapes and blank space is derivable *)
(* the text is: $.a[?count(@.* ) >= 1 && !@['\u0062']]  without the blank after the star *)
Definition ex_text : str :=
  [36;46;97;91;63;99;111;117;110;116;40;64;46;42;41;32;62;61;32;49;32;38;38;32;33;64;91;39;92;117;48;48;54;50;39;93;93]%N.
Example C04_example : rfc_query ex_text.
Proof. apply in_rfc_sound. vm_compute. reflexivity. Qed.

(* Parser.parse is sound for the token-level grammar.  For every registry and range, every token list  ROOT, t, e  in which
   only the last token e is EOF, every INDEX token is an optional minus sign and digits, and every ".." is followed by a
   name, "*" or "[" (three facts the lexer guarantees; wf): if Parser.parse returns the query q then QT derives t for q -
   bracket structure, separators, slices, the precedence of ! && || and comparisons, parentheses, the typing rules and the
   integer range.  Proofs/ParseSound.v: one statement per parse function about the tokens it consumed and the stream it
   leaves, by induction on the fuel. *)
From JP Require Import Model.Tokens Model.Ast Model.Parse Proofs.Requery Proofs.ParseComplete Proofs.ParseSound.
Theorem C04_parser_sound : forall cfg root t e q s, ty root = T_ROOT -> wf (t ++ [e]) ->
  p_parse cfg (root :: t ++ [e]) = POk q s -> QT cfg q t.
Proof. exact parse_sound. Qed.
Print Assumptions C04_parser_sound.

(* ... and the lexer does produce such token lists (Proofs/LexShape.v: an invariant of the state machine over the tokens emitted so
   far, with what the INDEX pattern can match derived from the backtracking matcher).  So for every text: if compile() returns
   a query, the text was cut into ROOT, tokens, EOF and the token-level grammar derives those tokens for that query.  What is
   still missing for C04_sound at the level of characters: that each token's text and the blank space the lexer skipped between
   tokens are what the ABNF allows at that place. *)
From JP Require Import Model.Lex Model.Api Proofs.LexShape.
Theorem C04_tokens_wf : forall text toks, m_tokenize text = Ok toks ->
  exists root t e, toks = root :: t ++ [e] /\ ty root = T_ROOT /\ wf (t ++ [e]).
Proof. exact tokenize_wf. Qed.
Print Assumptions C04_tokens_wf.
Theorem C04_compile_sound_tokens : forall cfg text q, m_compile cfg text = Ok q ->
  exists root t e, m_tokenize text = Ok (root :: t ++ [e]) /\ ty root = T_ROOT /\ wf (t ++ [e]) /\ QT cfg q t.
Proof. exact compile_sound_tokens. Qed.
Print Assumptions C04_compile_sound_tokens.

(* the hypotheses are satisfiable: ROOT, the tokens of  ..['a', 1:][?@ == 1] , EOF *)
Example C04_parser_sound_nonvacuous :
  let t := [tk T_DOUBLE_DOT [] 1; tk T_LBRACKET [] 3; tk T_SQ_STRING [97%N] 4; tk T_COMMA [] 7; tk T_INDEX [49%N] 9; tk T_COLON [] 10; tk T_RBRACKET [] 11;
            tk T_LBRACKET [] 12; tk T_FILTER [] 13; tk T_CURRENT [] 14; tk T_EQ [] 16; tk T_INT [49%N] 19; tk T_RBRACKET [] 20] in
  wf (t ++ [tk T_EOF [] 21]).
Proof.
  cbn [app wf ty tk tval]. repeat split; try discriminate; try (intros _; unfold seghd; auto; fail).
  all: try (intros E; discriminate E).
  all: try (intros _; exists [], [49%N]; repeat split; auto; discriminate).
Qed.

(* with C05_complete_tokens: the parser accepts exactly the token lists the grammar derives, and returns the derived query *)
Theorem C04_parser_exact : forall cfg t q v0 i0 v1 i1, wf (t ++ [tk T_EOF v1 i1]) ->
  ((exists s, p_parse cfg (tk T_ROOT v0 i0 :: t ++ [tk T_EOF v1 i1]) = POk q s) <-> QT cfg q t).
Proof.
  intros cfg t q v0 i0 v1 i1 W. split.
  - intros [s H]. exact (parse_sound cfg (tk T_ROOT v0 i0) t (tk T_EOF v1 i1) q s eq_refl W H).
  - intros H. exact (parse_complete cfg q t v0 i0 v1 i1 H).
Qed.
Print Assumptions C04_parser_exact.

(* ---- the character level ---- *)
From JP Require Import Proofs.StringProofs Proofs.LexSpell Proofs.TextSound Proofs.CompileNoCrash.
Theorem C04_text_is_tokens : forall text toks, m_tokenize text = Ok toks ->
  exists r ts y a, toks = r :: ts /\ ty r = T_ROOT /\ text = 36%N :: y /\ Run a0 T_ROOT ts y a.
Proof. exact tokenize_spelled. Qed.
Print Assumptions C04_text_is_tokens.

Theorem C04_sound : forall cfg text q, forallb is_scalar text = true -> m_compile cfg text = Ok q -> rfc_query text.
Proof. exact compile_text_sound. Qed.
Print Assumptions C04_sound.

Theorem C04_reject : forall cfg text, forallb is_scalar text = true -> ~ rfc_query text -> exists c off, m_compile cfg text = Err c off.
Proof.
  intros cfg text Hs Hn. destruct (compile_total cfg text Hs) as [[q Hq] | H]; [|exact H]. exfalso. apply Hn. exact (compile_text_sound cfg text q Hs Hq).
Qed.
Print Assumptions C04_reject.

(* non-vacuity of C04_reject: a string outside the grammar ("$[01]", leading zero) *)
Example C04_reject_nonvacuous : in_rfc_fuel 400 [36; 91; 48; 49; 93]%N = false.
Proof. vm_compute. reflexivity. Qed.

(* the lexer's regular expressions and ESCAPES in the model are the ones REGENERATED from lex.py on this run *)
From JP Require Import Proofs.TieLex Proofs.TieParse Gen.LexConst Model.Lex.
Theorem C04_lexer_tables_regenerated : lex_tables_agree.      (* same matcher results on every text; same escape set *)
Proof. exact lex_tables_regenerated. Qed.
Print Assumptions C04_lexer_tables_regenerated.

(* precedences, operator tables and the key sets of token_map / function_argument_map in the model are the ones
   REGENERATED from parse.py and filter_expressions.py on this run *)
Theorem C04_parser_tables_regenerated : parse_tables_ok = true.
Proof. exact parse_tables_regenerated. Qed.
Print Assumptions C04_parser_tables_regenerated.

(* With the built-in registry the accepted language is pinned down exactly, typing included: whatever compile() accepts is a string of bf_grammar
   (Spec/BuiltinGrammar.v: the RFC grammar in which every function call is a well-typed use of the five built-in functions); Proofs/TextSoundB.v.
   The other inclusion is C03_complete_abnf_builtin. *)
From JP Require Import Model.Ast Spec.BuiltinGrammar Proofs.TextSoundB.
Theorem C04_sound_builtin : forall cfg text q, reg cfg = builtin_registry -> forallb is_scalar text = true ->
  m_compile cfg text = Ok q -> derives bf_grammar (R r_jsonpath_query) text.
Proof. intros cfg text q E Hsc Hc. exact (compile_text_sound_builtin cfg text q (proj2 (builtin_std cfg E)) Hsc Hc). Qed.
Print Assumptions C04_sound_builtin.
