(* C04 - Every string outside the RFC 9535 grammar is rejected by compile().

   Full statement (NOT proved in full; kept here so that it is never quietly weakened):

     C04_sound : forall cfg s q, m_compile cfg s = Ok q -> rfc_query s
     C04_reject: forall cfg s, ~ rfc_query s -> exists c o, m_compile cfg s = Err c o

   What is proved below is the correctness of the executable oracle that decides "s is derivable from the
   RFC 9535 ABNF" for every input the check generates: it is sound, and complete for all sufficiently large
   fuel (so a positive answer is a theorem about the grammar; a negative answer of the executable depends on
   the fuel bound, which thorough runs re-check at three times the fuel).  The check runs the real compile(),
   the lexer+parser model and this oracle on the same strings. *)
From JP Require Import Base.Prelude Spec.Abnf Spec.Rfc9535Grammar.

Theorem C04_oracle_sound_partial : forall s, in_rfc s = true -> rfc_query s.
Proof. exact in_rfc_sound. Qed.
Print Assumptions C04_oracle_sound_partial.

Theorem C04_oracle_complete_partial : forall s, rfc_query s ->
  exists fuel, forall fuel', (fuel <= fuel')%nat -> in_rfc_fuel fuel' s = true.
Proof. exact in_rfc_complete. Qed.
Print Assumptions C04_oracle_complete_partial.

(* the generic statement behind both: the recognizer decides derivability for any grammar *)
Theorem C04_recognizer_correct_partial : forall (g : grammar) e s,
  (exists fuel, accepts g fuel e s = true) <-> derives g e s.
Proof.
  intros g e s. split.
  - intros [fuel H]. eapply accepts_sound; exact H.
  - intros H. destruct (accepts_complete g e s H) as [fuel Hf]. exists fuel. apply Hf. apply le_n.
Qed.
Print Assumptions C04_recognizer_correct_partial.

(* non-vacuity: a query using a nested filter, a function call, escapes and blank space is derivable *)
(* the text is: $.a[?count(@.* ) >= 1 && !@['\u0062']]  without the blank after the star *)
Definition ex_text : str :=
  [36;46;97;91;63;99;111;117;110;116;40;64;46;42;41;32;62;61;32;49;32;38;38;32;33;64;91;39;92;117;48;48;54;50;39;93;93]%N.
Example C04_example : rfc_query ex_text.
Proof. apply in_rfc_sound. vm_compute. reflexivity. Qed.

(* the lexer's regular expressions and ESCAPES in the model are the ones REGENERATED from lex.py on this run *)
From JP Require Import Proofs.TieLex Proofs.TieParse Gen.LexConst Model.Lex.
Theorem C04_lexer_tables_regenerated : lex_tables_agree.      (* same matcher results on every text; same escape set *)
Proof. exact lex_tables_regenerated. Qed.
Print Assumptions C04_lexer_tables_regenerated.

(* precedences, operator tables and the key sets of token_map / function_argument_map in the model are the ones
   REGENERATED from parse.py and filter_expressions.py on this run *)
Theorem C04_parser_tables_regenerated : parse_tables_ok = true.
Proof. exact parse_tables_regenerated. Qed.
Print Assumptions C04_parser_tables_regenerated.
