(* C06 - Comparison operators implement the RFC 9535 comparison table. *)
From JP Require Import Base.Json Model.Ast Model.Compare Model.Eval Spec.Compare Proofs.CompareProofs.

(* For all comparands a, b (Nothing or any well-formed JSON value, of any depth), in every way they reach a
   comparison (literal / function result / one-node list / empty list / NOTHING), and all six operators, the
   model of ComparisonExpression.evaluate + _compare gives the RFC table's answer. *)
Theorem C06_table : forall o a b pa pb,
  wf_c a = true -> wf_c b = true -> reaches a pa -> reaches b pb ->
  m_cmp o (m_unwrap1 pa) (m_unwrap1 pb) = cmp o a b.
Proof. exact compare_table. Qed.
Print Assumptions C06_table.

(* Python-dict equality as written in _eq (same number of members, each left member found equal on the right)
   is equality of objects as maps, given distinct names - at every depth *)
Theorem C06_deep_equality : forall a b, wf_json a = true -> wf_json b = true -> m_json_eq a b = json_eq a b.
Proof. exact m_json_eq_spec. Qed.
Print Assumptions C06_deep_equality.

(* consequences of the table, stated on the specification side *)
Theorem C06_derived : forall a b,
  cmp ONe a b = negb (cmp OEq a b) /\ cmp OGt a b = cmp OLt b a /\
  cmp OLe a b = (cmp OLt a b || cmp OEq a b) /\ cmp OGe a b = (cmp OGt a b || cmp OEq a b).
Proof. intros; repeat split; reflexivity. Qed.
Print Assumptions C06_derived.

Definition orderable (c : comparand) : bool := match c with Val (JNum _) | Val (JStr _) => true | _ => false end.
Theorem C06_unordered : forall a b, orderable a = false \/ orderable b = false -> cmp OLt a b = false /\ cmp OGt a b = false.
Proof.
  intros a b [H|H]; split; destruct a as [|[]], b as [|[]]; try reflexivity; discriminate.
Qed.
Print Assumptions C06_unordered.

Theorem C06_true_is_not_one : forall n, cmp OEq (Val (JBool true)) (Val (JNum n)) = false
  /\ cmp OEq (Val (JArr [JBool true])) (Val (JArr [JNum n])) = false.
Proof. intros; split; reflexivity. Qed.
Print Assumptions C06_true_is_not_one.

Example C06_example :
  m_cmp OEq (m_unwrap1 (PNodes [([], JObj [([120%N], JArr [JNum (NInt 1); JNum (NFlt 1 (-1))]); ([121%N], JNull)])]))
            (PVal (JObj [([121%N], JNull); ([120%N], JArr [JNum (NFlt 1 0); JNum (NFlt 1 (-1))])])) = true
  /\ m_cmp OLe (PVal (JNum (NInt 9007199254740993))) (PVal (JNum (NFlt 1 53))) = false.
Proof. split; vm_compute; reflexivity. Qed.
