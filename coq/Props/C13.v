(* C13 - compile() and find() are total: they return or raise a JSONPathError.

   In the model every place where Python would raise something other than a JSONPathError is an explicit
   [Crash] (int(inf), len() of a non-sized value, a missing dict key, an out-of-range list index, attribute access
   on the wrong type, wrong arity), and running out of recursion fuel is [OutOfFuel]; termination of the model
   itself is Coq's.  Proved below: evaluation of every well-typed query on every well-formed value within the
   depth limit returns a nodelist (no error of any kind), and compile() of ANY text of scalar values never ends in an
   exception that is not a JSONPathError (C13_compile_no_other_exception), the lexer's state machine and the parser's
   recursion terminate on every text (C13_tokenize_terminates, C13_parse_terminates), hence compile() is total:
   C13_compile_total; and find() of a compiled query on ANY well-formed value, however deep, returns a nodelist or
   raises JSONPathRecursionError: C13_find_total, C13_env_find_total. *)
From JP Require Import Base.Json Model.Ast Model.Eval Spec.Sem Spec.Types Proofs.FilterProofs.

Theorem C13_eval_total_partial : forall cfg, reg_ok (reg cfg) = true -> (1 <= max_depth cfg)%nat ->
  forall q v, wt_query (reg cfg) q = true -> good cfg v -> exists ns, m_find cfg q v = Ok ns.
Proof. intros cfg Hr HN q v Hwt Hg. eexists. apply find_well_typed; assumption. Qed.
Print Assumptions C13_eval_total_partial.

(* with C05_sound: the query of every text that compiles evaluates to a nodelist on every well-formed value within the depth limit *)
From JP Require Import Model.Api Proofs.ParseTyped.
Theorem C13_find_total_compiled : forall cfg, reg_ok (reg cfg) = true -> (1 <= max_depth cfg)%nat ->
  forall text q v, m_compile cfg text = Ok q -> good cfg v -> exists ns, m_find cfg q v = Ok ns.
Proof.
  intros cfg Hr HN text q v Ec Hg. eexists. apply find_well_typed; try assumption. exact (proj1 (compile_typed cfg text q Ec)).
Qed.
Print Assumptions C13_find_total_compiled.

(* compile(): whatever the text, no IndexError from the lexer's filter stack or the string decoder, no KeyError from the
   parser's dispatch tables, ... escapes.  Proofs/LexNoCrash.v (state-machine invariant: filter_depth = len(stack),
   non-empty inside filters; every string token body has the shape C09_decode needs), Proofs/ParseNoCrash.v (KeyErrors
   are raised only below parse_filter_expression, which catches them), Proofs/CompileNoCrash.v. *)
From JP Require Import Model.Api Proofs.StringProofs Proofs.CompileNoCrash.
Theorem C13_compile_no_other_exception : forall cfg text, forallb is_scalar text = true -> forall x, m_compile cfg text <> Crash x.
Proof. exact compile_no_crash. Qed.
Print Assumptions C13_compile_no_other_exception.

(* the lexer's run loop (while state is not None: state = state(lexer)) stops on every text: the model's fuel
   (4 * len + 16 transitions) is never exhausted, because 4 * (characters left) + a rank of the state < 4 decreases at
   every transition (Proofs/LexTerm.v; every pattern the lexer matches with consumes at least one character) *)
From JP Require Import Proofs.LexTerm.
Theorem C13_tokenize_terminates : forall text, m_tokenize text <> OutOfFuel.
Proof. exact tokenize_terminates. Qed.
Print Assumptions C13_tokenize_terminates.

(* the parser: "5 * (tokens left that are not EOF) + rank of the function (<= 5)" bounds the depth of the recursion of
   the fourteen mutually recursive parse functions, and Parser.parse is given 6 * len(tokens) + 16 (Proofs/ParseTerm.v:
   every cycle in the call graph consumes a token) *)
From JP Require Import Model.Parse Proofs.ParseTerm.
Theorem C13_parse_terminates : forall cfg toks, p_parse cfg toks <> PFuel.
Proof. exact parse_terminates. Qed.
Print Assumptions C13_parse_terminates.

(* compile() of any text of scalar values returns a query or raises a JSONPathError: nothing else, and it terminates *)
Theorem C13_compile_total : forall cfg text, forallb is_scalar text = true ->
  (exists q, m_compile cfg text = Ok q) \/ (exists c off, m_compile cfg text = Err c off).
Proof. exact compile_total. Qed.
Print Assumptions C13_compile_total.

(* find() on any well-formed value: evaluation depends on max_recursion_depth only through the depth test of '..', so it
   either agrees with evaluation under a limit the value fits in (which returns a nodelist: C02's theorem) or raises
   JSONPathRecursionError (Proofs/EvalTotal.v) *)
From JP Require Import Proofs.EvalTotal.
Theorem C13_find_total : forall cfg, reg_ok (reg cfg) = true ->
  forall text q v, m_compile cfg text = Ok q -> wf_json v = true ->
  (exists ns, m_find cfg q v = Ok ns) \/ m_find cfg q v = Err ERecursion None.
Proof. intros cfg Hr text q v Ec Hv. apply find_total; [exact Hr | exact (proj1 (compile_typed cfg text q Ec)) | exact Hv]. Qed.
Print Assumptions C13_find_total.

(* JSONPathEnvironment.find(text, value) = compile(text).find(value): a nodelist or a JSONPathError, for every text of
   scalar values and every well-formed value *)
Theorem C13_env_find_total : forall cfg, reg_ok (reg cfg) = true ->
  forall text v, forallb is_scalar text = true -> wf_json v = true ->
  (exists ns, m_env_find cfg text v = Ok ns) \/ (exists c off, m_env_find cfg text v = Err c off).
Proof.
  intros cfg Hr text v Hs Hv. unfold m_env_find.
  destruct (compile_total cfg text Hs) as [[q Eq] | [c [off Ec]]]; [|rewrite Ec; right; do 2 eexists; reflexivity].
  rewrite Eq. cbn [bind]. destruct (C13_find_total cfg Hr text q v Eq Hv) as [[ns E] | E]; rewrite E;
    [left; eexists; reflexivity | right; do 2 eexists; reflexivity].
Qed.
Print Assumptions C13_env_find_total.

(* the error string: position() is defined for every offset, including the synthetic index -1 *)
From JP Require Import Model.Position.
Theorem C13_error_str_total : forall query index, exists ln col, m_position query index = (ln, col).
Proof. intros. unfold m_position. eauto. Qed.
Print Assumptions C13_error_str_total.

(* the lexer's regular expressions and ESCAPES in the model are the ones REGENERATED from lex.py on this run *)
From JP Require Import Proofs.TieLex Gen.LexConst Model.Lex.
Theorem C13_lexer_tables_regenerated : lex_tables_agree.      (* same matcher results on every text; same escape set *)
Proof. exact lex_tables_regenerated. Qed.
Print Assumptions C13_lexer_tables_regenerated.
