(* C10 - length/count/value and the function-call type conversions follow RFC 9535. *)
From JP Require Import Base.Json Model.Ast Model.Compare Model.Eval Spec.Compare Spec.Sem Spec.Types.
From JP Require Import Proofs.CompareProofs Proofs.FilterProofs.

(* At every call, built-in or user-registered (any registry whose declarations are type-consistent),
   the function body receives: for a ValueType parameter the literal / the single selected value / Nothing,
   for a NodesType parameter the nodelist, for a LogicalType parameter true/false (a nodelist converts to
   "non-empty"); and its result is used according to the declared result type.  [R want o s] relates what the
   implementation computes (o) to the RFC's typed value (s) of the whole expression in a position of type want. *)
Theorem C10_typed_refinement : forall cfg, reg_ok (reg cfg) = true -> (1 <= max_depth cfg)%nat ->
  forall e want root cur, wt_expr (reg cfg) want e = true -> good cfg root -> good cfg cur ->
  exists o, m_expr cfg root cur e = Ok o /\ R want o (s_expr (reg cfg) (rx cfg) want root cur e).
Proof. exact expr_refines. Qed.
Print Assumptions C10_typed_refinement.

(* the arguments after _unpack_node_lists, and the function body applied to them *)
Theorem C10_args : forall cfg, reg_ok (reg cfg) = true -> (1 <= max_depth cfg)%nat ->
  forall args tys root cur, wt_args cfg tys args = true -> good cfg root -> good cfg cur ->
  exists vs us, m_args cfg root cur args = Ok vs /\ m_unpack tys vs = Ok us /\
                args_ok tys us (s_args cfg root cur tys args).
Proof.
  intros cfg Hr HN args tys root cur Hwt Hg Hc. apply args_ok_eval; try assumption.
  rewrite Forall_forall. intros a _. destruct (refine_all cfg Hr HN) as [_ [He _]]. apply He.
Qed.
Print Assumptions C10_args.

Theorem C10_builtins : forall cfg d us svs, decl_ok d = true -> args_ok (f_args d) us svs ->
  exists o, m_apply cfg d us = Ok o /\ R (f_ret d) o (fn_sem (rx cfg) d svs).
Proof. exact apply_ok. Qed.
Print Assumptions C10_builtins.

(* the specification of the three built-ins, spelled out *)
Theorem C10_spec_builtins : forall rxf s l m n ns,
  let d nm := match find_assoc nm builtin_registry with Some d => d | None => {| f_args := []; f_ret := TValue; f_impl := FFirst |} end in
  fn_sem rxf (d s_length) [SV (Val (JStr s))] = SV (Val (JNum (NInt (zlen s)))) /\
  fn_sem rxf (d s_length) [SV (Val (JArr l))] = SV (Val (JNum (NInt (zlen l)))) /\
  fn_sem rxf (d s_length) [SV (Val (JObj m))] = SV (Val (JNum (NInt (zlen m)))) /\
  fn_sem rxf (d s_length) [SV (Val (JNum n))] = SV Nothing /\
  fn_sem rxf (d s_length) [SV Nothing] = SV Nothing /\
  fn_sem rxf (d s_count) [SN ns] = SV (Val (JNum (NInt (zlen ns)))) /\
  fn_sem rxf (d s_value) [SN ns] = SV (match ns with [x] => Val (snd x) | _ => Nothing end).
Proof. intros. repeat split; try reflexivity. destruct ns as [|x [|y ns]]; reflexivity. Qed.
Print Assumptions C10_spec_builtins.

Example C10_example :
  reg_ok builtin_registry = true /\
  wt_expr builtin_registry TLogical
    (ECmp OEq (ECall s_length [ERel []]) (ECall s_count [ERel [Child [SWild]]])) = true.
Proof. split; vm_compute; reflexivity. Qed.

(* the built-in signatures and the environment's constants in the model are the ones REGENERATED from
   environment.py and function_extensions/*.py on this run *)
From JP Require Import Proofs.TieEnv Gen.Env.
Theorem C10_signatures_regenerated : g_builtin_registry = builtin_registry /\ g_max_int_index = 2 ^ 53 - 1 /\ g_min_int_index = - (2 ^ 53) + 1.
Proof. repeat split; reflexivity. Qed.
Print Assumptions C10_signatures_regenerated.
