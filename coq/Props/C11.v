(* C11 - match() and search() implement I-Regexp whole-string / substring matching.
   Three ties: (1) map_re - the only regex logic in this repository - is modelled (Model/MapRe.v) and compared with the
   code on every generated pattern; (2) which regex entry point each function calls and that no dialect flags are passed
   is REGENERATED on every run by executing both functions under a recording proxy around the regex module (Gen/Rx.v, tools/pygen/rx_probe.py); (3) the third-party engines (regex, iregexp_check) are NOT
   modelled: they are validated on generated patterns against the I-Regexp semantics below, whose executable
   matcher is proved to decide the language definition.  Partial, stated as such. *)
From JP Require Import Base.Json Model.Ast Model.Eval Model.MapRe Spec.IRegexp Gen.Rx Proofs.TieRx.

(* the oracle: for every category assignment, expression and string, the derivative matcher answers exactly
   "the string is in the language of the expression" *)
Theorem C11_oracle_correct : forall gc r s, matches gc r s = true <-> lang gc r s.
Proof. intros. apply matches_correct. Qed.
Print Assumptions C11_oracle_correct.

(* '.' matches any character except LF and CR *)
Theorem C11_dot : forall gc c, cs_mem gc c CDot = negb (N.eqb c 10 || N.eqb c 13).
Proof. reflexivity. Qed.
Print Assumptions C11_dot.

(* map_re rewrites nothing but unescaped dots *)
Lemma map_re_no_dot : forall s esc cc, ~ In 46%N s -> map_re_loop s esc cc = s.
Proof.
  induction s as [|ch r IH]; intros esc cc H; [reflexivity|]. cbn [map_re_loop].
  assert (Hr : ~ In 46%N r) by (intros X; apply H; right; exact X).
  assert (Hc : N.eqb ch 46 = false) by (apply N.eqb_neq; intros ->; apply H; left; reflexivity).
  destruct esc; [rewrite IH by exact Hr; reflexivity|]. rewrite Hc.
  destruct (N.eqb ch 92); [rewrite IH by exact Hr; reflexivity|].
  destruct (N.eqb ch 91); [rewrite IH by exact Hr; reflexivity|].
  destruct (N.eqb ch 93); rewrite IH by exact Hr; reflexivity.
Qed.
Theorem C11_map_re_identity : forall p, ~ In 46%N p -> m_map_re p = p.
Proof. intros. apply map_re_no_dot. assumption. Qed.
Print Assumptions C11_map_re_identity.

(* inside a character class (no backslash, no brackets in the body) every character, dots included, is kept *)
Lemma map_re_in_class : forall body rest, ~ In 92%N body -> ~ In 91%N body -> ~ In 93%N body ->
  map_re_loop (body ++ 93%N :: rest) false true = body ++ 93%N :: map_re_loop rest false false.
Proof.
  induction body as [|ch r IH]; intros rest H1 H2 H3; [reflexivity|]. cbn [app map_re_loop].
  assert (E92 : N.eqb ch 92 = false) by (apply N.eqb_neq; intros ->; apply H1; left; reflexivity).
  assert (E91 : N.eqb ch 91 = false) by (apply N.eqb_neq; intros ->; apply H2; left; reflexivity).
  assert (E93 : N.eqb ch 93 = false) by (apply N.eqb_neq; intros ->; apply H3; left; reflexivity).
  assert (IH' : map_re_loop (r ++ 93%N :: rest) false true = r ++ 93%N :: map_re_loop rest false false).
  { apply IH; intros X; [apply H1 | apply H2 | apply H3]; right; exact X. }
  destruct (N.eqb ch 46); [cbn [app]; rewrite IH'; reflexivity|].
  rewrite E92, E91, E93, IH'. reflexivity.
Qed.
Theorem C11_class_contents_literal : forall body rest, ~ In 92%N body -> ~ In 91%N body -> ~ In 93%N body ->
  m_map_re (91%N :: body ++ 93%N :: rest) = 91%N :: body ++ 93%N :: m_map_re rest.
Proof. intros. unfold m_map_re. cbn [map_re_loop]. rewrite map_re_in_class by assumption. reflexivity. Qed.
Print Assumptions C11_class_contents_literal.

(* an unescaped dot outside a class becomes "one scalar value other than CR and LF" in the host dialect *)
Theorem C11_dot_outside_class : forall rest, m_map_re (46%N :: rest) = dot_replacement ++ m_map_re rest.
Proof. reflexivity. Qed.
Print Assumptions C11_dot_outside_class.

(* the three statements above are instances of one: read the pattern as I-Regexp reads it lexically - escape pairs, character classes whose
   items are escape pairs or characters other than backslash and brackets, dots, other characters (Proofs/MapReExact.v; every I-Regexp is
   such a sequence, and so is every pattern [plex] reads).  Then map_re's result is the same sequence printed with every dot that is neither
   escaped nor inside a class replaced by the host expression for "one character other than CR and LF", and nothing else changed. *)
From JP Require Import Proofs.MapReExact.
Theorem C11_map_re_exact : forall ts, forallb ptok_ok ts = true -> m_map_re (pr false ts) = pr true ts.
Proof. exact map_re_exact. Qed.
Print Assumptions C11_map_re_exact.
Theorem C11_map_re_lexed : forall p ts, plex (S (length p)) p = Some ts -> m_map_re p = pr true ts.
Proof. exact map_re_lexed. Qed.
Print Assumptions C11_map_re_lexed.
Example C11_map_re_exact_example :    (* a\.[.\]x].b : one escaped dot, one class holding a dot, an escaped bracket and x, one free dot *)
  plex 20 [97; 92; 46; 91; 46; 92; 93; 120; 93; 46; 98]%N = Some [PRaw 97; PEsc 46; PClass [KRaw 46; KEsc 93; KRaw 120]; PDot; PRaw 98] /\
  m_map_re [97; 92; 46; 91; 46; 92; 93; 120; 93; 46; 98]%N = [97; 92; 46; 91; 46; 92; 93; 120; 93]%N ++ dot_replacement ++ [98%N].
Proof. split; vm_compute; reflexivity. Qed.

(* regenerated from the current source: fullmatch and search of the regex module, with no flag argument, called exactly
   once per evaluation with (map_re(pattern), string) *)
Theorem C11_no_dialect_flags : g_match_flags = 0%nat /\ g_search_flags = 0%nat /\
  g_match_entry = [102; 117; 108; 108; 109; 97; 116; 99; 104]%N /\ g_search_entry = [115; 101; 97; 114; 99; 104]%N /\
  g_match_maps = true /\ g_search_maps = true.
Proof. exact rx_calls_regenerated. Qed.
Print Assumptions C11_no_dialect_flags.

(* neither function ever raises in the model, whatever it is given; non-strings give false *)
Theorem C11_total : forall cfg (a b : pyobj),
  (exists o, m_apply cfg {| f_args := [TValue; TValue]; f_ret := TLogical; f_impl := FMatch |} [a; b] = Ok o) /\
  (exists o, m_apply cfg {| f_args := [TValue; TValue]; f_ret := TLogical; f_impl := FSearch |} [a; b] = Ok o).
Proof.
  intros cfg a b. split; cbn [m_apply f_impl]; destruct a as [[]| |]; try (eexists; reflexivity); destruct b as [[]| |]; eexists; reflexivity.
Qed.
Print Assumptions C11_total.

Example C11_example :   (* [a||b] contains '|' literally; a.c does not match "a\nc" *)
  i_match (fun _ => []) [124%N] [91; 97; 124; 124; 98; 93]%N = 2 /\ i_match (fun _ => []) [97; 10; 99]%N [97; 46; 99]%N = 1 /\
  i_search (fun _ => []) [120; 97; 98; 121]%N [97; 98; 63]%N = 2.
Proof. repeat split; vm_compute; reflexivity. Qed.
