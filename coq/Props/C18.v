(* C18 - Descendant traversal is bounded: deep/cyclic data raises JSONPathRecursionError. *)
From JP Require Import Base.Json Model.Descent Model.Eval Proofs.EvalProofs Proofs.DescentProofs Gen.Env Proofs.TieEnv.

(* Data as a finite graph of cells (Python values may be self-referential).  budget = max_recursion_depth.
   The traversal completes exactly when no chain of more than `limit` nested containers starts at the root ... *)
Theorem C18_completes : forall g limit loc id, is_cont (cell_of g id) = true -> ~ cchain g id (S limit) ->
  exists r, gvisit g limit loc id = Ok r.
Proof. exact gvisit_completes. Qed.
Print Assumptions C18_completes.

Theorem C18_raises : forall g limit loc id, cchain g id (S limit) -> gvisit g limit loc id = Err ERecursion None.
Proof. exact gvisit_raises. Qed.
Print Assumptions C18_raises.

(* ... a self-referential structure has chains of every length, so it raises for every configured limit; and the
   traversal is a total function of the graph model (it terminates on cycles: the recursion is on the budget) *)
Theorem C18_cyclic_raises : forall g limit id, reaches g id id -> forall loc, gvisit g limit loc id = Err ERecursion None.
Proof. exact cyclic_raises. Qed.
Print Assumptions C18_cyclic_raises.

(* no other outcome exists: a result or JSONPathRecursionError, never another error *)
Theorem C18_outcomes : forall g limit loc id, (exists r, gvisit g limit loc id = Ok r) \/ gvisit g limit loc id = Err ERecursion None.
Proof. intros. apply gvisit_ok_or_rec. Qed.
Print Assumptions C18_outcomes.

(* the same two directions for the evaluator model on JSON trees (depth counted from the node the segment is applied to) *)
Theorem C18_tree_complete : forall limit v loc, (1 <= limit)%nat -> (nesting v <= limit)%nat ->
  m_visit limit 1 loc v = Ok ((loc, v) :: filter isc (tl (Spec.Sem.descendants loc v))).
Proof. intros. apply visit_spec; lia. Qed.
Print Assumptions C18_tree_complete.

Theorem C18_tree_raises : forall limit v loc, is_container v = true -> (limit < nesting v)%nat ->
  m_visit limit 1 loc v = Err ERecursion None.
Proof. intros. apply visit_raises; [assumption | lia]. Qed.
Print Assumptions C18_tree_raises.

(* the default limit, regenerated from environment.py *)
Theorem C18_default_limit : g_max_recursion_depth = 100.
Proof. reflexivity. Qed.
Print Assumptions C18_default_limit.

(* Nondeterministic mode draws the same line, whatever the random choices: the traversal raises JSONPathRecursionError
   exactly when the nesting of the value exceeds the limit (or the limit is below 1), and otherwise returns; the loop
   bound of the model is never reached (Proofs/NdDepth.v, on top of the simulation of Proofs/NdSim.v). *)
From JP Require Import Model.NdVisit Proofs.NdDepth.
Theorem C18_nd_agrees : forall script limit v,
  nd_visit limit script ([], v) = Err ERecursion None <-> (limit < nesting v \/ limit < 1)%nat.
Proof.
  intros script limit v. destruct (Nat.lt_ge_cases limit 1) as [Hl | Hl].
  - split; [intros _; right; exact Hl|]. intros _. unfold nd_visit. assert (E : (limit <? 1)%nat = true) by (apply Nat.ltb_lt; exact Hl). rewrite E. reflexivity.
  - destruct (nd_visit_depth limit script ([], v) Hl) as [(ns & E & Hn) | (E & Hn)]; cbn [snd] in *; rewrite E; split.
    + discriminate.
    + intros [H | H]; lia.
    + intros _. left. exact Hn.
    + reflexivity.
Qed.
Print Assumptions C18_nd_agrees.
Theorem C18_nd_outcomes : forall script limit v, (1 <= limit)%nat ->
  (exists ns, nd_visit limit script ([], v) = Ok ns) \/ nd_visit limit script ([], v) = Err ERecursion None.
Proof. intros script limit v Hl. destruct (nd_visit_depth limit script ([], v) Hl) as [(ns & E & _) | (E & _)]; [left; exists ns | right]; exact E. Qed.
Print Assumptions C18_nd_outcomes.

Example C18_example :   (* a -> [b], b -> {x: a} : a 2-cycle; and [[[1]]] with limit 3 / 2 *)
  gvisit [CArr [1%nat]; CObj [([120%N], 0%nat)]] 100 [] 0 = Err ERecursion None /\
  (exists r, gvisit [CArr [1%nat]; CArr [2%nat]; CArr [3%nat]; CScalar] 3 [] 0 = Ok r) /\
  gvisit [CArr [1%nat]; CArr [2%nat]; CArr [3%nat]; CScalar] 2 [] 0 = Err ERecursion None.
Proof. repeat split; try (vm_compute; reflexivity). eexists. vm_compute. reflexivity. Qed.

(* ---- nondeterministic mode on self-referential data ----
   Model/NdGraph.v: the loop of _nondeterministic_visit over a graph of cells.  Proofs/NdGraphSim.v: it does, step for step, what the loop
   of Model/NdVisit.v does on the tree obtained by unfolding the graph down to the depth limit (containers one level below the limit
   shown empty - the loop raises when it reaches one and never looks inside), so the theorems for trees carry over; the nesting of the
   unfolding is the longest chain of nested containers of the graph.  Whatever the random choices: the traversal completes exactly
   when no chain of more than `limit` nested containers starts at the root and raises JSONPathRecursionError otherwise - never another
   error - within a number of iterations of its loop that graph and limit determine (gnd_bound: bounded time); in particular it raises
   on every structure that can reach itself. *)
From JP Require Import Model.NdGraph Proofs.NdGraphSim.
Theorem C18_nd_graph_outcome : forall g limit script loc id fuel, (1 <= limit)%nat -> (gnd_bound g limit id <= fuel)%nat ->
  (~ cchain g id (S limit) /\ exists r, gnd_visit g fuel limit script (loc, id) = Ok r)
  \/ (cchain g id (S limit) /\ gnd_visit g fuel limit script (loc, id) = Err ERecursion None).
Proof. exact gnd_visit_outcome. Qed.
Print Assumptions C18_nd_graph_outcome.
Theorem C18_nd_cyclic_raises : forall g limit script loc id fuel, (1 <= limit)%nat -> (gnd_bound g limit id <= fuel)%nat -> reaches g id id ->
  gnd_visit g fuel limit script (loc, id) = Err ERecursion None.
Proof. exact gnd_cyclic_raises. Qed.
Print Assumptions C18_nd_cyclic_raises.
(* when it completes, the locations visited are those the tree traversal visits on the unfolding, in that order (a valid order by C17_valid_at) *)
Theorem C18_nd_graph_locations : forall g limit script loc id fuel r, (1 <= limit)%nat -> gnd_visit g fuel limit script (loc, id) = Ok r ->
  exists r', nd_loop fuel limit script [(Unstarted (loc, unfold g limit id), 2%nat)] [(loc, unfold g limit id)] = Ok r' /\ map fst r' = map fst r.
Proof. exact gnd_visit_locations. Qed.
Print Assumptions C18_nd_graph_locations.
Example C18_nd_graph_example :   (* the 2-cycle a -> [b], b -> {x: a}; and the chain [[[1]]] with limit 3 / 2, scripts [0;0;0;0] *)
  gnd_visit [CArr [1%nat]; CObj [([120%N], 0%nat)]] 50 5 [3; 1; 4]%Z ([], 0%nat) = Err ERecursion None /\
  (exists r, gnd_visit [CArr [1%nat]; CArr [2%nat]; CArr [3%nat]; CScalar] 50 3 [0; 0]%Z ([], 0%nat) = Ok r) /\
  gnd_visit [CArr [1%nat]; CArr [2%nat]; CArr [3%nat]; CScalar] 50 2 [] ([], 0%nat) = Err ERecursion None /\
  reaches [CArr [1%nat]; CObj [([120%N], 0%nat)]] 0 0.
Proof.
  repeat split; try (vm_compute; reflexivity).
  - eexists. vm_compute. reflexivity.
  - eapply R_trans; [eapply (R_kid _ 0%nat (KIdx 0) 1%nat); [left; reflexivity | reflexivity] | eapply (R_kid _ 1%nat (KName [120%N]) 0%nat); [left; reflexivity | reflexivity]].
Qed.
