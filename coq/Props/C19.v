(* C19 - Reported error positions are real positions in the query text. *)
From JP Require Import Base.Prelude Model.Position Spec.Position Proofs.PositionProofs.

(* For every query text and every offset inside it (0 <= off <= length), Token.position - as written in
   tokens.py: query.count("\n", 0, index) + 1 and index - query.rfind("\n", 0, index) - 1 - is exactly
   (1 + number of LF before the offset, number of characters since the last LF before the offset).
   Lines are separated by LF only; CR is blank space but not a line break. *)
Theorem C19_line_col : forall (query : str) (off : nat), (off <= length query)%nat ->
  m_position query (Z.of_nat off) = (line_of query off, col_of query off).
Proof. exact position_is_line_col. Qed.
Print Assumptions C19_line_col.

(* The other half: whenever compile() raises a JSONPathError - from the lexer's state machine, from tokenize()
   (error token, unbalanced bracket) or from any of the parser's functions - the error carries an offset i with
   0 <= i <= len(text).  Proofs/LexInv.v: in every reachable lexer state the consumed / pending / remaining parts
   partition the text at the recorded offsets and every token holds the slice of the text at its index.
   Proofs/ParseInv.v: the push-back token stream never holds more than one pushed token between parser steps, none
   where a token is pushed back, and ends with the lexer's EOF token, so the synthetic EOF token of
   TokenStream.close() (index -1) never becomes current and every error index is the index of a real token. *)
From JP Require Import Model.Tokens Model.Ast Model.Api Proofs.CompileOffsets.
Theorem C19_offset_in_text : forall cfg text c o, m_compile cfg text = Err c o -> exists i, o = Some i /\ 0 <= i <= zlen text.
Proof. exact compile_offset_in_text. Qed.
Print Assumptions C19_offset_in_text.

(* the hypothesis is met: three rejected texts, the error raised by the lexer, by tokenize() and by the parser *)
Definition c19_cfg : envcfg := {| min_idx := -9; max_idx := 9; max_depth := 100; reg := Model.Ast.builtin_registry; rx := fun _ _ _ => false |}.
Example C19_offset_examples :
  m_compile c19_cfg [36; 46; 46]%N = Err ESyntax (Some 3)                                        (* "$.."  : lexer *)
  /\ m_compile c19_cfg [36; 91; 49]%N = Err ESyntax (Some 3)                                     (* "$[1"  : error token at the end *)
  /\ m_compile c19_cfg [36;91;63;64;46;97;61;61;10;32;48;49;93]%N = Err ESyntax (Some 10).       (* parser: bad literal on line 2 *)
Proof. repeat split; vm_compute; reflexivity. Qed.

Theorem C19_tokens_are_slices : forall text toks, m_tokenize text = Ok toks ->
  Forall (fun t => exists a b, text = a ++ tval t ++ b /\ zlen a = tidx t) toks.
Proof. exact tokens_are_slices. Qed.
Print Assumptions C19_tokens_are_slices.

Example C19_example :   (* "$[?@.a==\n 01]" : the bad literal is at offset 10 = line 2, column 1 *)
  m_position [36;91;63;64;46;97;61;61;10;32;48;49;93]%N 10 = (2, 1).
Proof. reflexivity. Qed.

(* the lexer's regular expressions and ESCAPES in the model are the ones REGENERATED from lex.py on this run *)
From JP Require Import Proofs.TieLex Gen.LexConst Model.Lex.
Theorem C19_lexer_tables_regenerated : lex_tables_agree.      (* same matcher results on every text; same escape set *)
Proof. exact lex_tables_regenerated. Qed.
Print Assumptions C19_lexer_tables_regenerated.
