(* C19 - Reported error positions are real positions in the query text. *)
From JP Require Import Base.Prelude Model.Position Spec.Position Proofs.PositionProofs.

(* For every query text and every offset inside it (0 <= off <= length), Token.position - as written in
   tokens.py: query.count("\n", 0, index) + 1 and index - query.rfind("\n", 0, index) - 1 - is exactly
   (1 + number of LF before the offset, number of characters since the last LF before the offset).
   Lines are separated by LF only; CR is blank space but not a line break. *)
Theorem C19_line_col : forall (query : str) (off : nat), (off <= length query)%nat ->
  m_position query (Z.of_nat off) = (line_of query off, col_of query off).
Proof. exact position_is_line_col. Qed.
Print Assumptions C19_line_col.

(* Full statement of the other half (NOT proved; decided by the correspondence of error offsets and by the
   range test on every rejected input in the check):
     C19_offset_in_text : forall cfg s c o, m_compile cfg s = Err c o -> exists i, o = Some i /\ 0 <= i <= zlen s *)

Example C19_example :   (* "$[?@.a==\n 01]" : the bad literal is at offset 10 = line 2, column 1 *)
  m_position [36;91;63;64;46;97;61;61;10;32;48;49;93]%N 10 = (2, 1).
Proof. reflexivity. Qed.

(* the lexer's regular expressions and ESCAPES in the model are the ones REGENERATED from lex.py on this run *)
From JP Require Import Proofs.GenTies Gen.LexConst Model.Lex.
Theorem C19_lexer_tables_regenerated :
  g_RE_WHITESPACE = RE_WHITESPACE /\ g_RE_PROPERTY = RE_PROPERTY /\ g_RE_INDEX = RE_INDEX /\ g_RE_INT = RE_INT /\
  g_RE_FLOAT = RE_FLOAT /\ g_RE_FUNCTION_NAME = RE_FUNCTION_NAME /\ g_ESCAPES = ESCAPES.
Proof. exact lex_regexes_regenerated. Qed.
Print Assumptions C19_lexer_tables_regenerated.
