(* C05 - Validity rules: function well-typedness, singular comparands, integer range.
   The typing judgement and range predicate are Spec/Types.v; the check evaluates them on the AST of every
   generated query and compares with compile() for random registries.

   C05_sound below is the soundness half for every text: whatever compile() accepts is well-typed and in range.
   The completeness half is C05_complete_tokens, at the level of token sequences: every token sequence the typed
   token-level grammar derives (Proofs/ParseComplete.v: QT, the RFC 9535 ABNF without its lexical layer, with the typing
   rules of 2.4.3 and the integer range as side conditions - parentheses included, which the syntax tree does not record:
   a parenthesised argument is a logical-expr) is accepted by Parser.parse, which returns the derived query.  That the
   lexer turns every grammatical TEXT into such a token sequence is decided by the correspondence (C03).

   Also proved below: the compile-time checks of the parser model, as functions on expressions, coincide with the
   judgement's side conditions for every registry. *)
From JP Require Import Base.Json Model.Ast Model.Parse Model.Api Spec.Types Proofs.ParseTyped.

(* For every environment (any registry of declared function types, any integer range) and every text: if compile()
   returns a query, every function call in it is declared and well-typed (argument by argument, nested calls
   included), only singular queries, literals and value-typed calls are compared, the operands of ! && || and every
   filter are logical, and every index and slice integer lies in the range.  Proofs/ParseTyped.v: an invariant
   through the fourteen mutually recursive parser functions. *)
Theorem C05_sound : forall cfg text q, m_compile cfg text = Ok q ->
  wt_query (reg cfg) q = true /\ ints_in_range (min_idx cfg) (max_idx cfg) q = true.
Proof. exact compile_typed. Qed.
Print Assumptions C05_sound.

(* Completeness, on token sequences: for every registry and range, Parser.parse accepts ROOT, the tokens of a
   well-formed, well-typed, in-range query, EOF - shorthand or bracketed segments, either quote style, parentheses
   wherever the grammar allows them, any nesting of filters and function calls - and returns that query.
   Proofs/ParseComplete.v: fuel monotonicity, the prefix property of the Pratt loop, one lemma per production. *)
From JP Require Import Model.Tokens Proofs.Requery Proofs.ParseComplete.
Theorem C05_complete_tokens : forall cfg q t v0 i0 v1 i1, QT cfg q t ->
  exists s, p_parse cfg (tk T_ROOT v0 i0 :: t ++ [tk T_EOF v1 i1]) = POk q s.
Proof. exact parse_complete. Qed.
Print Assumptions C05_complete_tokens.

(* ... and what the grammar derives is exactly what the judgement of Spec/Types.v calls valid (with C05_sound's parser-level form) *)
Theorem C05_grammar_typed : forall cfg q t, QT cfg q t ->
  wt_query (reg cfg) q = true /\ ints_in_range (min_idx cfg) (max_idx cfg) q = true.
Proof.
  intros cfg q t H. destruct (parse_complete cfg q t [] 0 [] 0 H) as [s E]. exact (parse_typed cfg _ q s E).
Qed.
Print Assumptions C05_grammar_typed.

(* the grammar is not empty: the tokens of the query  $[?@.a == 1 && !(count(@[*]) > 2)]  (wildcard written in shorthand), with the built-in count *)
Example C05_complete_nonvacuous :
  let rg := [([99; 111; 117; 110; 116]%N, {| f_args := [TNodes]; f_ret := TValue; f_impl := FCount |})] in
  let cfg := {| min_idx := -9007199254740991; max_idx := 9007199254740991; max_depth := 100; reg := rg; rx := fun _ _ _ => false |} in
  exists q t, QT cfg q t /\ t <> [].
Proof.
  intros rg cfg.
  assert (L1 : lit_tok (JNum (NInt 1)) (tk T_INT [49%N] 0)).
  { right. right. right. right. left. split; [reflexivity|]. split; [reflexivity|]. eexists. split; reflexivity. }
  assert (L2 : lit_tok (JNum (NInt 2)) (tk T_INT [50%N] 0)).
  { right. right. right. right. left. split; [reflexivity|]. split; [reflexivity|]. eexists. split; reflexivity. }
  pose proof (qt_cons cfg _ _ _ _ (sg_prop cfg [97%N] 0) (qt_nil cfg)) as Qa.
  pose proof (qt_cons cfg _ _ _ _ (sg_wild cfg [] 0) (qt_nil cfg)) as Qw.
  pose proof (tt_rel cfg TValue _ _ [] 0 Qa (fun _ => eq_refl)) as Ta.
  assert (Hw : TNodes = TValue -> singular [Child [SWild]] = true) by discriminate.
  pose proof (tt_rel cfg TNodes _ _ [] 0 Qw Hw) as Tw.
  pose proof (tt_call cfg TValue [99; 111; 117; 110; 116]%N _ _ _ 0 [] 0 eq_refl eq_refl (as_one cfg _ _ _ (ar_nodes cfg _ _ Tw))) as Tc.
  pose proof (et_cmp cfg OEq _ _ _ [] 0 _ (ct_test cfg _ _ Ta) (ct_lit cfg _ _ L1)) as C1.
  pose proof (et_cmp cfg OGt _ _ _ [] 0 _ (ct_test cfg _ _ Tc) (ct_lit cfg _ _ L2)) as C2.
  pose proof (et_not_paren cfg _ _ [] 0 [] 0 [] 0 (et_34 cfg _ _ (et_45 cfg _ _ C2))) as N2.
  pose proof (et_34 cfg _ _ (et_and cfg _ _ _ [] 0 _ C1 (et_45 cfg _ _ (et_57 cfg _ _ N2)))) as A.
  pose proof (qt_cons cfg _ _ _ _ (sg_br cfg _ _ [] 0 [] 0 (ss_one cfg _ _ (st_filter cfg _ _ [] 0 A))) (qt_nil cfg)) as Q.
  eexists. eexists. split; [exact Q | discriminate].
Qed.

Theorem C05_singular_partial : forall q, m_singular q = singular q.
Proof. intros q. unfold m_singular, singular.
  induction q as [|g q IH]; [reflexivity|]. cbn [forallb]. rewrite IH. f_equal.
Qed.
Print Assumptions C05_singular_partial.

(* the shallow argument test of check_well_typedness is the judgement's rule for each parameter type *)
Definition shallow (rg : registry) (t : ty3) (a : expr) : bool :=
  match t with
  | TValue => match a with
              | ELit _ => true
              | ERel q | EAbs q => singular q
              | ECall f _ => match find_assoc f rg with Some d => ret_ok TValue (f_ret d) | None => false end
              | _ => false
              end
  | TLogical => match a with
                | ELit _ => false
                | ERel _ | EAbs _ | ENot _ | EAnd _ _ | EOr _ _ | ECmp _ _ _ => true
                | ECall f _ => match find_assoc f rg with Some d => ret_ok TLogical (f_ret d) | None => false end
                end
  | TNodes => match a with
              | ERel _ | EAbs _ => true
              | ECall f _ => match find_assoc f rg with Some d => ret_ok TNodes (f_ret d) | None => false end
              | _ => false
              end
  end.

Theorem C05_check_args_partial : forall cfg tys args, length args = length tys ->
  check_args cfg tys args = forallb (fun ta => shallow (reg cfg) (fst ta) (snd ta)) (combine tys args).
Proof.
  intros cfg tys. induction tys as [|t tys IH]; intros args Hl; [reflexivity|].
  destruct args as [|a args]; [discriminate|]. cbn [check_args combine forallb fst snd]. injection Hl as Hl.
  rewrite (IH args Hl). f_equal.
  destruct t, a; cbn [shallow is_literal is_filter_query is_compound query_of function_return_type opt_ty_is orb andb];
    rewrite ?C05_singular_partial; try reflexivity;
    try (match goal with |- context [find_assoc ?f ?r] => destruct (find_assoc f r) as [d|] end;
         cbn [opt_ty_is]; try reflexivity; destruct (f_ret d); reflexivity);
    try (destruct (singular q); reflexivity).
Qed.
Print Assumptions C05_check_args_partial.

Example C05_example :
  wt_query builtin_registry [Child [SFilter (ECall s_length [ERel []])]] = false /\
  wt_query builtin_registry [Child [SFilter (ECmp OEq (ECall s_length [ERel []]) (ELit (JNum (NInt 1))))]] = true /\
  ints_in_range (-9) 9 [Child [SIndex 10]] = false.
Proof. repeat split; reflexivity. Qed.

(* the built-in signatures and the environment's constants in the model are the ones REGENERATED from
   environment.py and function_extensions/*.py on this run *)
From JP Require Import Proofs.TieEnv Gen.Env.
Theorem C05_signatures_regenerated : g_builtin_registry = builtin_registry /\ g_max_int_index = 2 ^ 53 - 1 /\ g_min_int_index = - (2 ^ 53) + 1.
Proof. repeat split; reflexivity. Qed.
Print Assumptions C05_signatures_regenerated.

(* The validity rules as a grammar.  With the registry JSONPathEnvironment.setup_function_extensions builds, the texts compile() accepts are exactly
   the strings of bf_grammar (Spec/BuiltinGrammar.v: the RFC 9535 ABNF with the typing rules of 2.4.3 and the signatures of 2.4.4-2.4.8 written
   into comparable, test-expr and the calls - singular comparands, value-typed and logical calls, well-typed arguments) whose integers are in range:
   Proofs/AbnfSpellG.v (every such string compiles) and Proofs/TextSoundB.v (nothing else does). *)
From JP Require Import Model.Ast Model.Api Spec.Abnf Spec.Rfc9535Grammar Spec.BuiltinGrammar Proofs.StringProofs Proofs.TextSoundB.
Theorem C05_builtin_exact : forall cfg s, reg cfg = builtin_registry -> forallb is_scalar s = true ->
  ((exists q, m_compile cfg s = Ok q) -> derives bf_grammar (R r_jsonpath_query) s) /\
  (derives bf_grammar (R r_jsonpath_query) s -> exists B, min_idx cfg <= - B -> B <= max_idx cfg -> exists q, m_compile cfg s = Ok q).
Proof. exact builtin_exact. Qed.
Print Assumptions C05_builtin_exact.
