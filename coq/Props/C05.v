(* C05 - Validity rules: function well-typedness, singular comparands, integer range.
   The typing judgement and range predicate are Spec/Types.v; the check evaluates them on the AST of every
   generated query and compares with compile() for random registries.

   C05_sound below is the soundness half for every text: whatever compile() accepts is well-typed and in range.
   The completeness half (NOT proved: it needs the token-level parser theorem of C03/C04):
     C05_complete : forall cfg toks q, grammatical toks q -> wt_query (reg cfg) q = true -> ints_in_range lo hi q = true ->
                    exists s, p_parse cfg toks = POk q s
   is decided by the correspondence on generated well-typed queries.  Parentheses are not represented in the syntax
   tree the judgement is about: that a parenthesised argument counts as a logical-expr is stated about the parser model
   only (grouped_ok in Model/Parse.v) and checked against the code on a grid of parenthesised arguments.

   Also proved below: the compile-time checks of the parser model, as functions on expressions, coincide with the
   judgement's side conditions for every registry. *)
From JP Require Import Base.Json Model.Ast Model.Parse Model.Api Spec.Types Proofs.ParseTyped.

(* For every environment (any registry of declared function types, any integer range) and every text: if compile()
   returns a query, every function call in it is declared and well-typed (argument by argument, nested calls
   included), only singular queries, literals and value-typed calls are compared, the operands of ! && || and every
   filter are logical, and every index and slice integer lies in the range.  Proofs/ParseTyped.v: an invariant
   through the fourteen mutually recursive parser functions. *)
Theorem C05_sound : forall cfg text q, m_compile cfg text = Ok q ->
  wt_query (reg cfg) q = true /\ ints_in_range (min_idx cfg) (max_idx cfg) q = true.
Proof. exact compile_typed. Qed.
Print Assumptions C05_sound.

Theorem C05_singular_partial : forall q, m_singular q = singular q.
Proof. intros q. unfold m_singular, singular.
  induction q as [|g q IH]; [reflexivity|]. cbn [forallb]. rewrite IH. f_equal.
Qed.
Print Assumptions C05_singular_partial.

(* the shallow argument test of check_well_typedness is the judgement's rule for each parameter type *)
Definition shallow (rg : registry) (t : ty3) (a : expr) : bool :=
  match t with
  | TValue => match a with
              | ELit _ => true
              | ERel q | EAbs q => singular q
              | ECall f _ => match find_assoc f rg with Some d => ret_ok TValue (f_ret d) | None => false end
              | _ => false
              end
  | TLogical => match a with
                | ELit _ => false
                | ERel _ | EAbs _ | ENot _ | EAnd _ _ | EOr _ _ | ECmp _ _ _ => true
                | ECall f _ => match find_assoc f rg with Some d => ret_ok TLogical (f_ret d) | None => false end
                end
  | TNodes => match a with
              | ERel _ | EAbs _ => true
              | ECall f _ => match find_assoc f rg with Some d => ret_ok TNodes (f_ret d) | None => false end
              | _ => false
              end
  end.

Theorem C05_check_args_partial : forall cfg tys args, length args = length tys ->
  check_args cfg tys args = forallb (fun ta => shallow (reg cfg) (fst ta) (snd ta)) (combine tys args).
Proof.
  intros cfg tys. induction tys as [|t tys IH]; intros args Hl; [reflexivity|].
  destruct args as [|a args]; [discriminate|]. cbn [check_args combine forallb fst snd]. injection Hl as Hl.
  rewrite (IH args Hl). f_equal.
  destruct t, a; cbn [shallow is_literal is_filter_query is_compound query_of function_return_type opt_ty_is orb andb];
    rewrite ?C05_singular_partial; try reflexivity;
    try (match goal with |- context [find_assoc ?f ?r] => destruct (find_assoc f r) as [d|] end;
         cbn [opt_ty_is]; try reflexivity; destruct (f_ret d); reflexivity);
    try (destruct (singular q); reflexivity).
Qed.
Print Assumptions C05_check_args_partial.

Example C05_example :
  wt_query builtin_registry [Child [SFilter (ECall s_length [ERel []])]] = false /\
  wt_query builtin_registry [Child [SFilter (ECmp OEq (ECall s_length [ERel []]) (ELit (JNum (NInt 1))))]] = true /\
  ints_in_range (-9) 9 [Child [SIndex 10]] = false.
Proof. repeat split; reflexivity. Qed.

(* the built-in signatures and the environment's constants in the model are the ones REGENERATED from
   environment.py and function_extensions/*.py on this run *)
From JP Require Import Proofs.TieEnv Gen.Env.
Theorem C05_signatures_regenerated : g_builtin_registry = builtin_registry /\ g_max_int_index = 2 ^ 53 - 1 /\ g_min_int_index = - (2 ^ 53) + 1.
Proof. repeat split; reflexivity. Qed.
Print Assumptions C05_signatures_regenerated.
