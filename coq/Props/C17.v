(* C17 - Nondeterministic mode only ever produces orderings RFC 9535 allows (and every one of them).
   Specification: Spec/Nondet.v  valid_order (decidable) and all_orders (enumeration).
   Model: Model/NdVisit.v  nd_visit, driven by a choice script (one number per random.randrange / random.shuffle).

   C17_valid below is the general theorem for the traversal: every value, every limit, every script.
   Still NOT proved in general (for every generated small value the check enumerates every outcome of the real code's
   random choices, compares each with the model script by script and the set of container orders with all_orders):
     C17_exhaustive : forall limit v o, valid_order ([], v) o = true -> nesting v <= limit ->
                      exists script ns, nd_visit limit script ([], v) = Ok ns /\ (container order of ns) = (container order of o)
   and the statement for whole queries (wildcard and filter selectors shuffle object members too). *)
From JP Require Import Base.Json Model.NdVisit Spec.Sem Spec.Nondet Proofs.NdSpec Proofs.NdSim.

(* Whatever the random choices (one script number per random.randrange / random.shuffle call, any numbers, any length),
   whatever the value and the depth limit: if the nondeterministic traversal returns, the order in which it visited
   the nodes is one RFC 9535 allows - every node of the value exactly once, each after its parent, the elements of
   every array in index order.  Proofs/NdSpec.v: the orders a "frontier of queues" can produce are valid
   (reach_valid); Proofs/NdSim.v: the loop of _nondeterministic_visit, with its pending generators, the draining of
   scalars and random.shuffle, only ever takes frontier steps (nd_visit_reach). *)
Theorem C17_valid : forall limit script v ns, wf_json v = true ->
  nd_visit limit script ([], v) = Ok ns -> valid_order ([], v) (map fst ns) = true.
Proof. exact nd_visit_valid. Qed.
Print Assumptions C17_valid.

(* the bound the model puts on the loop (2 * number of nodes + 2 iterations) is never reached: a potential function pays
   for every iteration, so the only outcomes are a nodelist or JSONPathRecursionError *)
Theorem C17_loop_terminates : forall limit script root, nd_visit limit script root <> OutOfFuel.
Proof. intros limit script root E. pose proof (nd_visit_reach limit script root) as H. rewrite E in H. exact H. Qed.
Print Assumptions C17_loop_terminates.

(* the frontier description is itself sound for the decidable predicate, for every value *)
Theorem C17_frontier_sound : forall loc v o, wf_json v = true -> reach (queues_of (loc, v)) o ->
  valid_order (loc, v) (map fst ((loc, v) :: o)) = true.
Proof. exact reach_valid. Qed.
Print Assumptions C17_frontier_sound.

(* the document of the original defect report: {"a": {"x": [1], "y": [2]}, "b": [3]} *)
Definition nm (c : N) : str := [c].
Definition doc17 : json :=
  JObj [(nm 97, JObj [(nm 120, JArr [JNum (NInt 1)]); (nm 121, JArr [JNum (NInt 2)])]); (nm 98, JArr [JNum (NInt 3)])].

(* every order the specification enumerates satisfies the predicate (the two definitions agree on this document) *)
Theorem C17_enumeration_sound_partial :
  forallb (fun o => valid_order ([], doc17) (map fst o)) (all_orders ([], doc17)) = true.
Proof. vm_compute. reflexivity. Qed.
Print Assumptions C17_enumeration_sound_partial.

(* the order root, a, x, b, y - never produced before the repair - is a valid order, and some choice script makes
   the model produce it *)
Definition order_raxby : list (list key) :=
  [[]; [KName (nm 97)]; [KName (nm 97); KName (nm 120)]; [KName (nm 98)]; [KName (nm 97); KName (nm 121)];
   [KName (nm 97); KName (nm 120); KIdx 0]; [KName (nm 98); KIdx 0]; [KName (nm 97); KName (nm 121); KIdx 0]].
Theorem C17_reported_order_reachable_partial :
  valid_order ([], doc17) order_raxby = true /\
  exists script ns, nd_visit 100 script ([], doc17) = Ok ns /\ map fst ns = order_raxby.
Proof.
  split; [vm_compute; reflexivity|].
  exists [0; 0; 1; 0; 0; 1; 2; 2; 2]. eexists. split; vm_compute; reflexivity.
Qed.
Print Assumptions C17_reported_order_reachable_partial.

(* whatever the script, the model's outcome on this document is a valid order (all scripts of length <= 4 over 0..2,
   longer scripts behave like their prefix followed by zeros on the remaining choices only through the same function) *)
Fixpoint scripts (n : nat) : list (list Z) :=
  match n with O => [[]] | S k => flat_map (fun s => [0 :: s; 1 :: s; 2 :: s]) (scripts k) end.
Theorem C17_valid_partial :
  forallb (fun s => match nd_visit 100 s ([], doc17) with Ok ns => valid_order ([], doc17) (map fst ns) | _ => false end) (scripts 6) = true.
Proof. vm_compute. reflexivity. Qed.
Print Assumptions C17_valid_partial.
