(* C17 - Nondeterministic mode only ever produces orderings RFC 9535 allows (and every one of them).
   Specification: Spec/Nondet.v  valid_order (decidable) and all_orders (enumeration).
   Model: Model/NdVisit.v  nd_visit, driven by a choice script (one number per random.randrange / random.shuffle).

   C17_valid and C17_exhaustive below are the general theorems for the traversal: every value, every limit, every
   script / every valid order.  For whole queries (wildcard and filter selectors shuffle object members too):
   Spec/NondetQ.v nd_permitted, Model/NdEval.v m_find_nd; C17_query_valid and C17_query_exhaustive at the end of this file. *)
From JP Require Import Base.Json Model.NdVisit Spec.Sem Spec.Nondet Proofs.NdSpec Proofs.NdSim.

(* Whatever the random choices (one script number per random.randrange / random.shuffle call, any numbers, any length),
   whatever the value and the depth limit: if the nondeterministic traversal returns, the order in which it visited
   the nodes is one RFC 9535 allows - every node of the value exactly once, each after its parent, the elements of
   every array in index order.  Proofs/NdSpec.v: the orders a "frontier of queues" can produce are valid
   (reach_valid); Proofs/NdSim.v: the loop of _nondeterministic_visit, with its pending generators, the draining of
   scalars and random.shuffle, only ever takes frontier steps (nd_visit_reach). *)
Theorem C17_valid : forall limit script v ns, wf_json v = true ->
  nd_visit limit script ([], v) = Ok ns -> valid_order ([], v) (map fst ns) = true.
Proof. exact nd_visit_valid. Qed.
Print Assumptions C17_valid.

(* the bound the model puts on the loop (2 * number of nodes + 2 iterations) is never reached: a potential function pays
   for every iteration, so the only outcomes are a nodelist or JSONPathRecursionError *)
Theorem C17_loop_terminates : forall limit script root, nd_visit limit script root <> OutOfFuel.
Proof. intros limit script root E. pose proof (nd_visit_reach limit script root) as H. rewrite E in H. exact H. Qed.
Print Assumptions C17_loop_terminates.

(* the frontier description is itself sound for the decidable predicate, for every value *)
Theorem C17_frontier_sound : forall loc v o, wf_json v = true -> reach (queues_of (loc, v)) o ->
  valid_order (loc, v) (map fst ((loc, v) :: o)) = true.
Proof. exact reach_valid. Qed.
Print Assumptions C17_frontier_sound.

(* Conversely the traversal is exhaustive: for every order o RFC 9535 allows (a permutation of the node and its
   descendants that valid_order accepts) there is an outcome of the random choices - a script - on which the traversal
   visits the containers in exactly the order o lists them.  Scalars are visited as soon as their generator reaches
   them, which cannot change any result: nothing is selected from a scalar (C17_exhaustive_results).
   Proofs/NdExh.v: a script is built from o - the index of the parent's generator for every random.randrange, the
   factorial-base number of the wanted permutation for every random.shuffle (apply_perm_onto) - and the loop is shown to
   follow it (build); valid_order supplies what that needs (parent_before, kids_conts, arun_of). *)
From JP Require Import Proofs.EvalProofs Proofs.NdExh.
From Coq Require Import Permutation Lia.
Theorem C17_exhaustive : forall limit v o, wf_json v = true -> (1 <= limit)%nat -> (nesting v <= limit)%nat ->
  Permutation o (descendants [] v) -> valid_order ([], v) (map fst o) = true ->
  exists script ns, nd_visit limit script ([], v) = Ok ns /\ filter isc ns = filter isc o.
Proof. exact nd_exhaustive. Qed.
Print Assumptions C17_exhaustive.

(* ... and therefore every nodelist a descendant segment may produce under RFC 9535 - the selectors applied to the
   visited nodes in a valid order o - is produced on some outcome of the random choices *)
From JP Require Import Model.Ast Proofs.FilterProofs.
Theorem C17_exhaustive_results : forall cfg limit v o sroot ss, wf_json v = true -> (1 <= limit)%nat -> (nesting v <= limit)%nat ->
  Permutation o (descendants [] v) -> valid_order ([], v) (map fst o) = true ->
  exists script ns, nd_visit limit script ([], v) = Ok ns /\
    flat_map (sels_sem cfg sroot ss) ns = flat_map (sels_sem cfg sroot ss) o.
Proof.
  intros cfg limit v o sroot ss Hw Hl Hn Hp Hv. destruct (nd_exhaustive limit v o Hw Hl Hn Hp Hv) as (script & ns & E & F).
  exists script, ns. split; [exact E|].
  rewrite <- (flat_map_filter_nil isc (sels_sem cfg sroot ss) ns) by (intros x Hx; apply sels_sem_scalar_any; exact Hx).
  rewrite <- (flat_map_filter_nil isc (sels_sem cfg sroot ss) o) by (intros x Hx; apply sels_sem_scalar_any; exact Hx).
  rewrite F. reflexivity.
Qed.
Print Assumptions C17_exhaustive_results.

(* the hypotheses are satisfiable: the reported order of the defect report is such an o *)
Example C17_exhaustive_nonvacuous :
  exists o, Permutation o (descendants [] (JObj [([97%N], JObj [([120%N], JArr [JNum (NInt 1)]); ([121%N], JArr [JNum (NInt 2)])]); ([98%N], JArr [JNum (NInt 3)])])) /\
            valid_order ([], JObj [([97%N], JObj [([120%N], JArr [JNum (NInt 1)]); ([121%N], JArr [JNum (NInt 2)])]); ([98%N], JArr [JNum (NInt 3)])]) (map fst o) = true /\
            o <> descendants [] (JObj [([97%N], JObj [([120%N], JArr [JNum (NInt 1)]); ([121%N], JArr [JNum (NInt 2)])]); ([98%N], JArr [JNum (NInt 3)])]).
Proof.
  set (d := descendants [] (JObj [([97%N], JObj [([120%N], JArr [JNum (NInt 1)]); ([121%N], JArr [JNum (NInt 2)])]); ([98%N], JArr [JNum (NInt 3)])])).
  (* root, a, b, x, x[0], y, y[0], b[0]: the permutation number 224 of random.shuffle's factorial-base reading *)
  exists (apply_perm 8 224 d). split; [apply Permutation_sym; apply apply_perm_perm; vm_compute; lia|]. vm_compute. split; [reflexivity | discriminate].
Qed.

(* the document of the original defect report: {"a": {"x": [1], "y": [2]}, "b": [3]} *)
Definition nm (c : N) : str := [c].
Definition doc17 : json :=
  JObj [(nm 97, JObj [(nm 120, JArr [JNum (NInt 1)]); (nm 121, JArr [JNum (NInt 2)])]); (nm 98, JArr [JNum (NInt 3)])].

(* every order the specification enumerates satisfies the predicate (the two definitions agree on this document) *)
Theorem C17_enumeration_sound_partial :
  forallb (fun o => valid_order ([], doc17) (map fst o)) (all_orders ([], doc17)) = true.
Proof. vm_compute. reflexivity. Qed.
Print Assumptions C17_enumeration_sound_partial.

(* the order root, a, x, b, y - never produced before the repair - is a valid order, and some choice script makes
   the model produce it *)
Definition order_raxby : list (list key) :=
  [[]; [KName (nm 97)]; [KName (nm 97); KName (nm 120)]; [KName (nm 98)]; [KName (nm 97); KName (nm 121)];
   [KName (nm 97); KName (nm 120); KIdx 0]; [KName (nm 98); KIdx 0]; [KName (nm 97); KName (nm 121); KIdx 0]].
Theorem C17_reported_order_reachable_partial :
  valid_order ([], doc17) order_raxby = true /\
  exists script ns, nd_visit 100 script ([], doc17) = Ok ns /\ map fst ns = order_raxby.
Proof.
  split; [vm_compute; reflexivity|].
  exists [0; 0; 1; 0; 0; 1; 2; 2; 2]. eexists. split; vm_compute; reflexivity.
Qed.
Print Assumptions C17_reported_order_reachable_partial.

(* whatever the script, the model's outcome on this document is a valid order (all scripts of length <= 4 over 0..2,
   longer scripts behave like their prefix followed by zeros on the remaining choices only through the same function) *)
Fixpoint scripts (n : nat) : list (list Z) :=
  match n with O => [[]] | S k => flat_map (fun s => [0 :: s; 1 :: s; 2 :: s]) (scripts k) end.
Theorem C17_valid_partial :
  forallb (fun s => match nd_visit 100 s ([], doc17) with Ok ns => valid_order ([], doc17) (map fst ns) | _ => false end) (scripts 6) = true.
Proof. vm_compute. reflexivity. Qed.
Print Assumptions C17_valid_partial.

(* ---- whole queries ----
   find() with env.nondeterministic = True (Model/NdEval.v: the selectors' own shuffles of object members, the traversal of every descendant
   segment from whatever node it starts at, several segments), for every supply of choice scripts: whatever it returns is a nodelist RFC 9535
   permits for the query (Spec/NondetQ.v nd_permitted: per input node in turn, per selector in turn; the children of an object in any
   order, those of an array in index order; the descendants in a valid order) - for every well-typed query, nested filters included. *)
From JP Require Import Model.NdEval Spec.NondetQ Spec.Types Proofs.NdQuery.
Theorem C17_query_valid : forall cfg, reg_ok (reg cfg) = true -> (1 <= max_depth cfg)%nat ->
  forall sup q v r, wt_query (reg cfg) q = true -> good cfg v ->
  m_find_nd cfg sup q v = Ok r -> nd_permitted (reg cfg) (rx cfg) q v r.
Proof. exact nd_query_valid. Qed.
Print Assumptions C17_query_valid.
(* the traversal started at any node of the value, not only its root *)
Theorem C17_valid_at : forall limit script loc v ns, wf_json v = true -> nd_visit limit script (loc, v) = Ok ns ->
  valid_order (loc, v) (map fst ns) = true /\ Permutation ns (descendants loc v).
Proof. exact nd_visit_valid_at. Qed.
Print Assumptions C17_valid_at.
(* ... and a permitted nodelist has exactly the nodes of the deterministic result (the RFC nodelist of C01/C02), with the same multiplicities *)
Theorem C17_query_same_nodes : forall cfg, reg_ok (reg cfg) = true -> (1 <= max_depth cfg)%nat ->
  forall sup q v r, wt_query (reg cfg) q = true -> good cfg v ->
  m_find_nd cfg sup q v = Ok r -> Permutation r (sem (reg cfg) (rx cfg) q v).
Proof. intros cfg Hr HN sup q v r Hwt Hg E. apply nd_permitted_perm. exact (nd_query_valid cfg Hr HN sup q v r Hwt Hg E). Qed.
Print Assumptions C17_query_same_nodes.

(* Conversely, for whole queries too, the mode is exhaustive: every nodelist RFC 9535 permits for the query on the value is returned for some
   supply of choice scripts (Proofs/NdQuery.v: a supply is assembled from the derivation of nd_permitted - the permutation number wanted for every
   shuffle (apply_perm_onto), the script of C17_exhaustive for every traversal, which holds from any node by relocation (Proofs/NdReloc.v: the
   traversal started at l ++ loc does what it does at loc with every location prefixed by l) - and the scripts not yet used are handed on). *)
Theorem C17_query_exhaustive : forall cfg, reg_ok (reg cfg) = true -> (1 <= max_depth cfg)%nat ->
  forall q v r, wt_query (reg cfg) q = true -> good cfg v ->
  nd_permitted (reg cfg) (rx cfg) q v r -> exists sup, m_find_nd cfg sup q v = Ok r.
Proof. exact nd_query_exhaustive. Qed.
Print Assumptions C17_query_exhaustive.
From JP Require Import Proofs.NdReloc.
Theorem C17_exhaustive_at : forall limit loc v o, wf_json v = true -> (1 <= limit)%nat -> (nesting v <= limit)%nat ->
  Permutation o (descendants loc v) -> valid_order (loc, v) (map fst o) = true ->
  exists script ns, nd_visit limit script (loc, v) = Ok ns /\ filter isc ns = filter isc o.
Proof. exact nd_exhaustive_at. Qed.
Print Assumptions C17_exhaustive_at.
(* the relation is not the deterministic function in disguise: $.* on {"a":1,"b":2} may give b before a *)
Example C17_query_nonvacuous :
  let v := JObj [(nm 97, JNum (NInt 1)); (nm 98, JNum (NInt 2))] in
  let r := [([KName (nm 98)], JNum (NInt 2)); ([KName (nm 97)], JNum (NInt 1))] in
  nd_permitted [] (fun _ _ _ => false) [Child [SWild]] v r /\ r <> sem [] (fun _ _ _ => false) [Child [SWild]] v.
Proof.
  intros v r. split; [|vm_compute; discriminate].
  unfold nd_permitted. apply (NQ_cons _ _ _ (Child [SWild]) [] [([], v)] r r); [|constructor].
  cbn [NondetQ.nd_seg]. rewrite <- (app_nil_r r). constructor; [|constructor].
  unfold NondetQ.nd_sels. rewrite <- (app_nil_r r). constructor; [|constructor].
  cbn [NondetQ.nd_sel]. unfold kids_order. cbn. apply perm_swap.
Qed.

(* the enumeration the check compares the implementation's complete outcome sets with lists exactly the nodelists the relation of the theorems holds
   of (Proofs/NdEnum.v: all_perms = the permutations, all_orders = the runs of the frontier relation, which are the valid orders as far as containers
   go - C17_frontier_sound one way, C17_exhaustive_at the other) *)
From JP Require Import Proofs.NdEnum.
Theorem C17_enumeration_exact : forall cfg q v r, wf_json v = true ->
  (In r (nd_results (reg cfg) (rx cfg) q v) <-> nd_permitted (reg cfg) (rx cfg) q v r).
Proof. exact nd_results_spec. Qed.
Print Assumptions C17_enumeration_exact.

(* ---- the queries nested in filter expressions ----
   FilterQuery.evaluate runs a nested query through the same selectors and segments, so in nondeterministic mode its wildcard and filter
   selectors shuffle and its descendant segments traverse at random as well.  Model/NdEval2.v m_find_nd2 models those episodes too (to any
   depth of nesting), with their scripts in a second supply.  They make no difference: for every well-typed query and every value within the
   depth limit, whatever the scripts of either supply, m_find_nd2 returns a nodelist and it is the one m_find_nd returns for the first supply
   alone (Proofs/NdNested.v: a nested query returns a permutation of its deterministic nodelist - itself by induction, nested filters
   selecting the same members - and a filter expression uses a nodelist only through its emptiness, its length, or its only node when it has
   exactly one: test expressions, count(), value(), singular queries in comparisons and ValueType arguments; any type-consistent registry).
   So C17_query_valid / C17_query_exhaustive hold of the mode with every random choice the evaluator makes. *)
From JP Require Import Model.NdEval2 Proofs.NdNested.
Theorem C17_nested_independent : forall cfg, reg_ok (reg cfg) = true -> (1 <= max_depth cfg)%nat ->
  forall q v sup nsup, wt_query (reg cfg) q = true -> good cfg v ->
  exists r, m_find_nd cfg sup q v = Ok r /\ m_find_nd2 cfg sup nsup q v = Ok r.
Proof. exact nested_independent. Qed.
Print Assumptions C17_nested_independent.
Theorem C17_full_valid : forall cfg, reg_ok (reg cfg) = true -> (1 <= max_depth cfg)%nat ->
  forall q v sup nsup r, wt_query (reg cfg) q = true -> good cfg v ->
  m_find_nd2 cfg sup nsup q v = Ok r -> nd_permitted (reg cfg) (rx cfg) q v r.
Proof. exact nd2_valid. Qed.
Print Assumptions C17_full_valid.
Theorem C17_full_exhaustive : forall cfg, reg_ok (reg cfg) = true -> (1 <= max_depth cfg)%nat ->
  forall q v r, wt_query (reg cfg) q = true -> good cfg v -> nd_permitted (reg cfg) (rx cfg) q v r ->
  exists sup, forall nsup, m_find_nd2 cfg sup nsup q v = Ok r.
Proof. exact nd2_exhaustive. Qed.
Print Assumptions C17_full_exhaustive.
(* not vacuous, and the nested episodes are really there: $[?count(@[*]) > 1] on {"a": {"x": 1, "y": 2}, "b": {"z": 3}} - the filter selector
   shuffles a, b (first supply), count(@[*]) shuffles x, y when it looks at a and z when it looks at b (second supply: both scripts used up) *)
Example C17_nested_nonvacuous :
  let cfg := {| min_idx := - (2 ^ 53) + 1; max_idx := 2 ^ 53 - 1; max_depth := 100; reg := builtin_registry; rx := fun _ _ _ => false |} in
  let q := [Child [SFilter (ECmp OGt (ECall [99;111;117;110;116]%N [ERel [Child [SWild]]]) (ELit (JNum (NInt 1))))]] in
  let va := JObj [(nm 120, JNum (NInt 1)); (nm 121, JNum (NInt 2))] in
  let v := JObj [(nm 97, va); (nm 98, JObj [(nm 122, JNum (NInt 3))])] in
  wt_query (reg cfg) q = true /\
  nd2_segs cfg v ([[1%Z]], [[1%Z]; [0%Z]]) q [([], v)] = Ok ([([KName (nm 97)], va)], ([], [])) /\
  m_find_nd2 cfg [[1%Z]] [[0%Z]; [5%Z]] q v = m_find_nd2 cfg [[1%Z]] [] q v.
Proof. vm_compute. repeat split. Qed.
