(* C12 - str(query) is a faithful canonical form: it reparses to the same query.

   C12_roundtrip below proves the property for every well-typed, in-range query - any nesting of !, &&, ||, comparisons,
   function calls and embedded filters - whose literals are strings, booleans, null, integers that survive repr() and
   float(), and floats whose repr() is a text of the FLOAT token's shape that float() reads back as the same float
   (lx_query, a decidable condition evaluated on every generated query by the check; that repr() of EVERY float has that
   shape is a fact about the shortest-repr algorithm and is not proved).  C12_filter_free_roundtrip is the earlier special case. *)
From JP Require Import Base.Json Model.Ast Model.Serialize Model.Api Spec.NormPath Spec.Sem Proofs.SerializeProofs Proofs.Reparse.

(* Every query built from name, index, slice and wildcard selectors (any number per segment, at least one) in child and
   descendant segments - names over all Unicode scalar values, integers the environment admits: the text str() prints
   compiles; the compiled query is the original one with every omitted slice step made explicit (1); printing it gives
   the identical text; and it selects exactly the same nodes on every value.  End to end through Model/Serialize.v,
   Model/Lex.v (within its fuel) and Model/Parse.v (within its fuel): Proofs/Reparse.v. *)
Theorem C12_filter_free_roundtrip : forall cfg q, Forall seg_ok q -> Forall (seg_range cfg) q ->
  let q' := map canon_seg q in
  m_compile cfg (m_str q) = Ok q' /\ m_str q' = m_str q /\ m_compile cfg (m_str q') = Ok q' /\
  (forall rg rxf v, sem rg rxf q' v = sem rg rxf q v).
Proof.
  intros cfg q Hok Hrg. cbv zeta. repeat split.
  - apply compile_str; assumption.
  - apply str_canon.
  - rewrite str_canon. apply compile_str; assumption.
  - intros. apply sem_canon.
Qed.
Print Assumptions C12_filter_free_roundtrip.

(* The general theorem.  For every registry and range (containing 1, the step str() prints for an omitted one) and every
   well-typed, in-range query q that satisfies lx_query: the text str(q) lexes and parses - through Model/Serialize.v, the
   whole state machine of Model/Lex.v including the filter state with its three stacks, and the Pratt parser of
   Model/Parse.v - to q' = q with omitted slice steps made explicit; q' prints the identical text, compiles to itself, and
   selects the same nodes as q on every value.  Proofs/ReparseF.v (lexer on canonical text, by induction on the syntax
   tree, producing a derivation of the token-level grammar) + Proofs/ParseComplete.v (the parser on every derivable token
   sequence). *)
From JP Require Import Model.Parse Spec.Types Spec.Printable Proofs.ReparseF.
Theorem C12_roundtrip : forall cfg q, in_range cfg 1 = true ->
  wt_query (reg cfg) q = true -> ints_in_range (min_idx cfg) (max_idx cfg) q = true -> lx_query q = true ->
  let q' := map cn_seg q in
  m_compile cfg (m_str q) = Ok q' /\ m_str q' = m_str q /\ m_compile cfg (m_str q') = Ok q' /\
  (forall rg rxf v, sem rg rxf q' v = sem rg rxf q v).
Proof.
  intros cfg q H1 Hw Hi Hl. cbv zeta. repeat split.
  - apply compile_str_f; assumption.
  - apply str_cn.
  - rewrite str_cn. apply compile_str_f; assumption.
  - intros. apply sem_cn.
Qed.
Print Assumptions C12_roundtrip.

(* for whatever compile() returned (C05_sound supplies well-typedness and range) *)
From JP Require Import Proofs.ParseTyped.
Theorem C12_roundtrip_compiled : forall cfg text q, in_range cfg 1 = true -> m_compile cfg text = Ok q -> lx_query q = true ->
  m_compile cfg (m_str q) = Ok (map cn_seg q) /\ m_str (map cn_seg q) = m_str q /\
  (forall rg rxf v, sem rg rxf (map cn_seg q) v = sem rg rxf q v).
Proof.
  intros cfg text q H1 Ec Hl. destruct (compile_typed cfg text q Ec) as [Hw Hi].
  destruct (C12_roundtrip cfg q H1 Hw Hi Hl) as (A & B & _ & D). repeat split; assumption.
Qed.
Print Assumptions C12_roundtrip_compiled.

(* ... and that text is itself derivable from the RFC 9535 ABNF, character by character (with C04_sound) *)
From JP Require Import Spec.Rfc9535Grammar Proofs.StringProofs Proofs.TextSound.
Theorem C12_str_in_grammar : forall cfg q, in_range cfg 1 = true ->
  wt_query (reg cfg) q = true -> ints_in_range (min_idx cfg) (max_idx cfg) q = true -> lx_query q = true ->
  forallb is_scalar (m_str q) = true -> rfc_query (m_str q).
Proof.
  intros cfg q H1 Hw Hi Hl Hs. apply (compile_text_sound cfg (m_str q) (map cn_seg q) Hs). apply compile_str_f; assumption.
Qed.
Print Assumptions C12_str_in_grammar.

(* the hypotheses are satisfiable: the query of C12_example below, with count() registered *)
Example C12_roundtrip_nonvacuous :
  let rg := [([99; 111; 117; 110; 116]%N, {| f_args := [TNodes]; f_ret := TValue; f_impl := FCount |})] in
  let cfg := {| min_idx := -9007199254740991; max_idx := 9007199254740991; max_depth := 100; reg := rg; rx := fun _ _ _ => false |} in
  let q := [Child [SFilter (EAnd (ENot (ECmp OEq (ERel [Child [SName [97%N]]]) (ELit (JNum (NInt 1)))))
                                 (EOr (ECmp OGt (ECall [99; 111; 117; 110; 116]%N [ERel [Child [SWild; SSlice None (Some 2) None]]]) (ELit (JStr [0%N; 39%N])))
                                      (EAbs [Desc [SFilter (ERel [Child [SName [99%N]]])]])))]] in
  in_range cfg 1 = true /\ wt_query (reg cfg) q = true /\ ints_in_range (min_idx cfg) (max_idx cfg) q = true /\ lx_query q = true /\
  m_compile cfg (m_str q) = Ok (map cn_seg q).
Proof. intros rg cfg q. assert (H : in_range cfg 1 = true /\ wt_query (reg cfg) q = true /\ ints_in_range (min_idx cfg) (max_idx cfg) q = true /\ lx_query q = true) by (vm_compute; repeat split; reflexivity).
  destruct H as (A & B & C & D). split; [exact A|]. split; [exact B|]. split; [exact C|]. split; [exact D|]. apply compile_str_f; assumption. Qed.

Example C12_filter_free_example :   (* $..['a', -1, 1::2, *]['\u0000'] *)
  let q := [Desc [SName [97%N]; SIndex (-1); SSlice (Some 1) None (Some 2); SWild]; Child [SName [0%N]]] in
  Forall seg_ok q /\ m_str q = [36;46;46;91;39;97;39;44;32;45;49;44;32;49;58;58;50;44;32;42;93;91;39;92;117;48;48;48;48;39;93]%N.
Proof. split; [repeat constructor; discriminate | vm_compute; reflexivity]. Qed.

(* names and string literals appear in the RFC's canonical single-quoted form, with only the mandated escapes *)
Theorem C12_quotes_canonical : forall s,
  sel_str (SName s) = norm_name s /\ expr_str (ELit (JStr s)) = norm_name s /\ canon_str (ELit (JStr s)) 1 = norm_name s.
Proof. intros s. repeat split; apply canonical_string_is_norm_name. Qed.
Print Assumptions C12_quotes_canonical.

(* parentheses are kept wherever dropping them would change the grouping: the serializer's decision table *)
Theorem C12_parentheses : forall a b c o x y,
  (* || under && *)  canon_str (EAnd (EOr a b) c) 1 = paren (canon_str a 3 ++ [32; 124; 124; 32]%N ++ canon_str b 3) ++ [32; 38; 38; 32]%N ++ canon_str c 4 /\
  (* comparison under ! *) canon_str (ENot (ECmp o x y)) 1 = 33%N :: paren (expr_str x ++ [32%N] ++ op_str o ++ [32%N] ++ expr_str y) /\
  (* ! under ! *) canon_str (ENot (ENot a)) 1 = 33%N :: paren (33%N :: canon_str a 7) /\
  (* && under || needs none *) canon_str (EOr (EAnd a b) c) 1 = (canon_str a 4 ++ [32; 38; 38; 32]%N ++ canon_str b 4) ++ [32; 124; 124; 32]%N ++ canon_str c 3.
Proof. intros. repeat split; reflexivity. Qed.
Print Assumptions C12_parentheses.

Example C12_example :   (* $[?!(@.a == 1) && (@.b || $.c)] *)
  m_str [Child [SFilter (EAnd (ENot (ECmp OEq (ERel [Child [SName [97%N]]]) (ELit (JNum (NInt 1)))))
                              (EOr (ERel [Child [SName [98%N]]]) (EAbs [Child [SName [99%N]]])))]]
  = [36;91;63;33;40;64;91;39;97;39;93;32;61;61;32;49;41;32;38;38;32;40;64;91;39;98;39;93;32;124;124;32;36;91;39;99;39;93;41;93]%N.
Proof. vm_compute. reflexivity. Qed.

(* precedences, operator tables and the key sets of token_map / function_argument_map in the model are the ones
   REGENERATED from parse.py and filter_expressions.py on this run *)
From JP Require Import Proofs.TieParse.
Theorem C12_parser_tables_regenerated : parse_tables_ok = true.
Proof. exact parse_tables_regenerated. Qed.
Print Assumptions C12_parser_tables_regenerated.

(* the per-literal condition on floats is met by ordinary floats in each printed shape:  1.5  2.0  -0.1  123456.789  1e-05  1.5e-07 ;
   a float printed with a positive exponent is outside it (and outside the property's range) *)
From JP Require Import Spec.Printable.
Example C12_float_condition_nonvacuous :
  forallb flt_rt [NFlt 3 (-1); NFlt 1 1; NFlt (-3602879701896397) (-55); NFlt 8483885939586761 (-36); NFlt 5902958103587057 (-69); NFlt 2833419889721787 (-74); NNegZero] = true
  /\ flt_rt (NFlt 152587890625 16) = false.     (* 1e+16 *)
Proof. vm_compute. split; reflexivity. Qed.
