(* C15 - All entry points agree: find, finditer, find_one, compile().apply, module-level.
   The entry points below (names starting with g_) are REGENERATED from query.py / environment.py / __init__.py by tools/pygen/gen_api.py,
   which recognises each method body statement by statement and fails closed on any other shape. *)
From JP Require Import Base.Json Model.Ast Model.Api Model.ApiLang Gen.Api.

(* find() is the list of finditer(); apply is find *)
Theorem C15_find_is_list_of_iter : forall cfg q v, q_sem cfg g_query_find q v = q_sem cfg g_query_finditer q v.
Proof. reflexivity. Qed.
Print Assumptions C15_find_is_list_of_iter.

Theorem C15_apply_is_find : forall cfg q v, q_sem cfg g_query_apply q v = q_sem cfg g_query_find q v.
Proof. reflexivity. Qed.
Print Assumptions C15_apply_is_find.

(* find_one() is the first element of that list, or None when it is empty *)
Theorem C15_find_one_is_head : forall cfg q v ns, q_sem cfg g_query_finditer q v = Ok (ONodes ns) ->
  q_sem cfg g_query_find_one q v = Ok (OOne (hd_error ns)).
Proof. intros cfg q v ns H. cbn [g_query_find_one q_sem] in *. unfold g_query_finditer in H. cbn [q_sem] in H. rewrite H. reflexivity. Qed.
Print Assumptions C15_find_one_is_head.

(* the environment's methods are compile followed by the compiled query's method; the module-level functions are
   the default environment's methods *)
Theorem C15_paths_agree : forall dflt cfg text v,
  t_sem dflt cfg g_env_find text v = (do q <- m_compile cfg text; q_sem cfg g_query_find q v) /\
  t_sem dflt cfg g_env_finditer text v = (do q <- m_compile cfg text; q_sem cfg g_query_finditer q v) /\
  t_sem dflt cfg g_env_find_one text v = (do q <- m_compile cfg text; q_sem cfg g_query_find_one q v) /\
  t_sem dflt cfg g_module_find text v = t_sem dflt dflt g_env_find text v /\
  t_sem dflt cfg g_module_finditer text v = t_sem dflt dflt g_env_finditer text v /\
  t_sem dflt cfg g_module_find_one text v = t_sem dflt dflt g_env_find_one text v.
Proof. intros. repeat split; reflexivity. Qed.
Print Assumptions C15_paths_agree.

(* an invalid query makes every entry point raise the same error, before the value is looked at *)
Theorem C15_same_error : forall dflt cfg text c o, m_compile cfg text = Err c o -> forall v,
  t_sem dflt cfg g_env_find text v = Err c o /\ t_sem dflt cfg g_env_finditer text v = Err c o /\
  t_sem dflt cfg g_env_find_one text v = Err c o.
Proof. intros dflt cfg text c o H v. cbn [t_sem g_env_find g_env_finditer g_env_find_one]. rewrite H. repeat split; reflexivity. Qed.
Print Assumptions C15_same_error.
