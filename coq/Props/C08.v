From JP Require Import Base.Json.
