(* C08 - Nodes carry exact locations and canonical, re-queryable normalized paths. *)
From JP Require Import Base.Json Model.Ast Model.Eval Model.Serialize Spec.Sem Spec.NormPath Spec.Types.
From JP Require Import Proofs.SerializeProofs Proofs.LocationProofs Proofs.FilterProofs.

(* Following the location of any node of any RFC result (every query, filters included) from the root
   reaches that node's value. *)
Theorem C08_location_spec : forall rg rxf q v, wf_json v = true ->
  Forall (fun n => lookup v (fst n) = Some (snd n)) (sem rg rxf q v).
Proof.
  intros rg rxf q v Hw. eapply Forall_impl; [|apply sem_located; exact Hw]. intros n [H _]. exact H.
Qed.
Print Assumptions C08_location_spec.

(* ... and therefore of any result the evaluator model computes for a well-typed query *)
Theorem C08_location : forall cfg, reg_ok (reg cfg) = true -> (1 <= max_depth cfg)%nat ->
  forall q v ns, wt_query (reg cfg) q = true -> good cfg v -> m_find cfg q v = Ok ns ->
  Forall (fun n => lookup v (fst n) = Some (snd n)) ns.
Proof.
  intros cfg Hr HN q v ns Hwt Hg E. rewrite (find_well_typed cfg Hr HN q v Hwt Hg) in E. inversion E; subst.
  apply C08_location_spec. destruct Hg as [_ Hw]. exact Hw.
Qed.
Print Assumptions C08_location.

(* locations never contain a negative index *)
Theorem C08_indices_nonneg : forall loc root x, lookup root loc = Some x ->
  Forall (fun k => match k with KIdx i => 0 <= i | _ => True end) loc.
Proof. exact lookup_nonneg. Qed.
Print Assumptions C08_indices_nonneg.

(* JSONPathNode.path() - json.dumps escaping followed by the two replace passes, as written in serialize.py -
   is the RFC 9535 normalized path of the location, for every location (every member name over all code points) *)
Theorem C08_path_canonical : forall loc, Forall (fun k => match k with KIdx i => 0 <= i | _ => True end) loc ->
  m_path loc = norm_path loc.
Proof. exact path_is_norm_path. Qed.
Print Assumptions C08_path_canonical.

(* Full statement of the re-query half (NOT proved: needs the lexer/parser theorem on canonical texts; decided on
   every generated node against the real code):
     C08_requery : forall cfg v loc x, lookup v loc = Some x ->
                   exists q, m_compile cfg (norm_path loc) = Ok q /\ m_find cfg q v = Ok [(loc, x)] *)

Example C08_example :
  m_path [KName [39; 0; 92; 34; 128512]%N; KIdx 3] = [36; 91; 39; 92; 39; 92; 117; 48; 48; 48; 48; 92; 92; 34; 128512; 39; 93; 91; 51; 93]%N.
Proof. vm_compute. reflexivity. Qed.
