(* C08 - Nodes carry exact locations and canonical, re-queryable normalized paths. *)
From JP Require Import Base.Json Model.Ast Model.Eval Model.Serialize Spec.Sem Spec.NormPath Spec.Types.
From JP Require Import Proofs.SerializeProofs Proofs.LocationProofs Proofs.FilterProofs.

(* Following the location of any node of any RFC result (every query, filters included) from the root
   reaches that node's value. *)
Theorem C08_location_spec : forall rg rxf q v, wf_json v = true ->
  Forall (fun n => lookup v (fst n) = Some (snd n)) (sem rg rxf q v).
Proof.
  intros rg rxf q v Hw. eapply Forall_impl; [|apply sem_located; exact Hw]. intros n [H _]. exact H.
Qed.
Print Assumptions C08_location_spec.

(* ... and therefore of any result the evaluator model computes for a well-typed query *)
Theorem C08_location : forall cfg, reg_ok (reg cfg) = true -> (1 <= max_depth cfg)%nat ->
  forall q v ns, wt_query (reg cfg) q = true -> good cfg v -> m_find cfg q v = Ok ns ->
  Forall (fun n => lookup v (fst n) = Some (snd n)) ns.
Proof.
  intros cfg Hr HN q v ns Hwt Hg E. rewrite (find_well_typed cfg Hr HN q v Hwt Hg) in E. inversion E; subst.
  apply C08_location_spec. destruct Hg as [_ Hw]. exact Hw.
Qed.
Print Assumptions C08_location.

(* locations never contain a negative index *)
Theorem C08_indices_nonneg : forall loc root x, lookup root loc = Some x ->
  Forall (fun k => match k with KIdx i => 0 <= i | _ => True end) loc.
Proof. exact lookup_nonneg. Qed.
Print Assumptions C08_indices_nonneg.

(* JSONPathNode.path() - json.dumps escaping followed by the two replace passes, as written in serialize.py -
   is the RFC 9535 normalized path of the location, for every location (every member name over all code points) *)
Theorem C08_path_canonical : forall loc, Forall (fun k => match k with KIdx i => 0 <= i | _ => True end) loc ->
  m_path loc = norm_path loc.
Proof. exact path_is_norm_path. Qed.
Print Assumptions C08_path_canonical.

(* The re-query half, end to end through the lexer, parser and evaluator models: for the location of ANY node of any
   value (member names over all Unicode scalar values, indices the environment's integer range admits), the text
   path() prints compiles, to the query made of one name/index selector per key, and that query applied to the value
   selects exactly that node.  (Proofs/Requery.v: canonical spelling decodes to the name; the lexer's regular
   expressions and string states on the text; the parser on the resulting tokens; the evaluator on the result.) *)
From JP Require Import Model.Api Proofs.StringProofs Proofs.Requery.
Definition names_scalar (loc : list key) : Prop :=
  Forall (fun k => match k with KName s => forallb is_scalar s = true | KIdx _ => True end) loc.
Definition indices_admitted (cfg : envcfg) (loc : list key) : Prop :=
  Forall (fun k => match k with KIdx i => Model.Parse.in_range cfg i = true | KName _ => True end) loc.
Theorem C08_requery : forall cfg v loc x, lookup v loc = Some x -> names_scalar loc -> indices_admitted cfg loc ->
  m_compile cfg (m_path loc) = Ok (q_of loc) /\ m_env_find cfg (m_path loc) v = Ok [(loc, x)].
Proof.
  intros cfg v loc x H Hn Hi. pose proof (lookup_nonneg loc v x H) as Hnn.
  rewrite (path_is_norm_path loc Hnn).
  assert (Hk : Forall key_ok loc).
  { unfold names_scalar in Hn. rewrite Forall_forall in *. intros k Hin. specialize (Hn k Hin). specialize (Hnn k Hin). destruct k; assumption. }
  split; [apply compile_norm_path; assumption | apply requery; assumption].
Qed.
Print Assumptions C08_requery.

(* the hypotheses are met, and the result is not trivial *)
Example C08_requery_example :
  let v := JObj [([39; 0; 92; 34; 128512]%N, JArr [JNull; JBool true; JNum (NInt 7); JStr [97]%N])] in
  let cfg := {| min_idx := -9; max_idx := 9; max_depth := 100; reg := builtin_registry; rx := fun _ _ _ => false |} in
  lookup v [KName [39; 0; 92; 34; 128512]%N; KIdx 3] = Some (JStr [97]%N)
  /\ m_env_find cfg (m_path [KName [39; 0; 92; 34; 128512]%N; KIdx 3]) v = Ok [([KName [39; 0; 92; 34; 128512]%N; KIdx 3], JStr [97]%N)].
Proof. split; vm_compute; reflexivity. Qed.

Example C08_example :
  m_path [KName [39; 0; 92; 34; 128512]%N; KIdx 3] = [36; 91; 39; 92; 39; 92; 117; 48; 48; 48; 48; 92; 92; 34; 128512; 39; 93; 91; 51; 93]%N.
Proof. vm_compute. reflexivity. Qed.
