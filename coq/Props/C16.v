(* C16 - Lazy result iterators are independent under any interleaving or threading.
   Model: a pool of live iterators, each the remaining part of its own sequence; next() on one of them touches
   nothing else.  That this is the right model of the generators - no state shared between iterators, compiled
   objects never written after construction - is the REGENERATED effect obligation C16_effects.
   OS-level thread schedules cannot be exhibited by a Gallina model: the theorem covers all logical interleavings
   of next() calls; thread runs in the check are supporting evidence (partial, stated as such). *)
From JP Require Import Base.Json Model.History Model.EffectLang Gen.Effects Proofs.EffectsPolicy Proofs.TieEffects.

Theorem C16_effects : pure_package g_effects g_bindings = true.
Proof. exact package_is_pure. Qed.
Print Assumptions C16_effects.

Lemma update_nth_same {A} (f : A -> A) : forall l n x, nth_error l n = Some x -> nth_error (update_nth n f l) n = Some (f x).
Proof. induction l as [|y l IH]; intros [|n] x H; cbn in *; try discriminate; [inversion H; reflexivity | apply IH; exact H]. Qed.
Lemma update_nth_other' {A} (f : A -> A) : forall l n m, n <> m -> nth_error (update_nth n f l) m = nth_error l m.
Proof.
  induction l as [|x l IH]; intros n m H; [destruct n; reflexivity|].
  destruct n as [|n], m as [|m]; cbn; try reflexivity; try congruence. apply IH. congruence.
Qed.

(* outputs of iterator i, in order, under a schedule *)
Definition outputs_of (i : nat) (tr : list (nat * option node)) : list (option node) :=
  map snd (filter (fun p => Nat.eqb (fst p) i) tr).
Fixpoint solo (rest : list node) (n : nat) : list (option node) :=
  match n with O => [] | S n' => match rest with x :: r => Some x :: solo r n' | [] => None :: solo [] n' end end.

(* For every pool, every schedule and every iterator i: what i yields under the schedule is exactly what it
   yields when advanced alone the same number of times (abandoning = no longer scheduling; exhausted = None forever) *)
Theorem C16_interleave : forall sched p i rest, nth_error p i = Some rest ->
  outputs_of i (prun p sched) = solo rest (length (filter (Nat.eqb i) sched)).
Proof.
  induction sched as [|j sched IH]; intros p i rest Hi; [reflexivity|].
  cbn [prun]. unfold pnext. destruct (Nat.eqb i j) eqn:E.
  - apply Nat.eqb_eq in E. subst j. rewrite Hi. cbn [filter]. rewrite Nat.eqb_refl. cbn [length solo].
    destruct rest as [|x r].
    + unfold outputs_of. cbn [filter fst]. rewrite Nat.eqb_refl. cbn [map snd]. f_equal. apply (IH p i []). exact Hi.
    + unfold outputs_of. cbn [filter fst]. rewrite Nat.eqb_refl. cbn [map snd]. f_equal.
      apply (IH _ i r). erewrite update_nth_same; [reflexivity | exact Hi].
  - cbn [filter]. rewrite E. assert (Hne : j <> i) by (intros ->; rewrite Nat.eqb_refl in E; discriminate).
    destruct (nth_error p j) as [[|x r]|] eqn:Ej; unfold outputs_of; cbn [filter fst];
      (replace (Nat.eqb j i) with false by (symmetry; apply Nat.eqb_neq; exact Hne));
      try (apply (IH p i rest Hi)).
    apply (IH _ i rest). rewrite update_nth_other' by exact Hne. exact Hi.
Qed.
Print Assumptions C16_interleave.
