(* C02 - Filter selection follows RFC 9535 (existence, logic, scoping, iteration). *)
From JP Require Import Base.Json Model.Ast Model.Compare Model.Eval Spec.Sem Spec.Types Proofs.EvalProofs Proofs.FilterProofs.

(* For every environment whose registry is type-consistent, every well-typed filter expression e, every
   (well-formed, not too deep) query argument root and every node n below it, the model of
   FilterSelector.resolve selects exactly the children of n, in order, whose RFC logical value is true;
   '@' is the child, '$' the query argument. *)
Theorem C02_filter : forall cfg, reg_ok (reg cfg) = true -> (1 <= max_depth cfg)%nat ->
  forall e root n, wt_expr (reg cfg) TLogical e = true -> good cfg root -> good cfg (snd n) ->
  m_sel cfg root (SFilter e) n
  = Ok (filter (fun c => as_bool (s_expr (reg cfg) (rx cfg) TLogical root (snd c) e)) (children n)).
Proof. exact filter_selects. Qed.
Print Assumptions C02_filter.

(* whole queries containing filters (nested to any depth, inside descendant segments, ...) *)
Theorem C02_find : forall cfg, reg_ok (reg cfg) = true -> (1 <= max_depth cfg)%nat ->
  forall q v, wt_query (reg cfg) q = true -> good cfg v ->
  m_find cfg q v = Ok (sem (reg cfg) (rx cfg) q v).
Proof. exact find_well_typed. Qed.
Print Assumptions C02_find.

(* ... and since compile() only returns well-typed queries (C05_sound), for EVERY text that compiles: what
   env.find(text, value) returns is the RFC nodelist of the compiled query - filters, functions and all *)
From JP Require Import Model.Api Proofs.ParseTyped.
Theorem C02_find_compiled : forall cfg, reg_ok (reg cfg) = true -> (1 <= max_depth cfg)%nat ->
  forall text q v, m_compile cfg text = Ok q -> good cfg v ->
  m_env_find cfg text v = Ok (sem (reg cfg) (rx cfg) q v).
Proof.
  intros cfg Hr HN text q v Ec Hg. unfold m_env_find. rewrite Ec. cbn [bind].
  apply find_well_typed; try assumption. exact (proj1 (compile_typed cfg text q Ec)).
Qed.
Print Assumptions C02_find_compiled.

(* the truth value the implementation derives from any well-typed logical expression is the RFC's *)
Theorem C02_truthy : forall cfg, reg_ok (reg cfg) = true -> (1 <= max_depth cfg)%nat ->
  forall e root cur, wt_expr (reg cfg) TLogical e = true -> good cfg root -> good cfg cur ->
  exists o, m_expr cfg root cur e = Ok o /\
            m_is_truthy o = as_bool (s_expr (reg cfg) (rx cfg) TLogical root cur e).
Proof.
  intros cfg Hr HN e root cur Hwt Hg Hc.
  destruct (expr_refines cfg Hr HN e TLogical root cur Hwt Hg Hc) as [o [Eo Ro]].
  exists o. split; [exact Eo | symmetry; exact Ro].
Qed.
Print Assumptions C02_truthy.

(* a query used as a test is true iff it selects at least one node, whatever the node's value;
   '!', '&&', '||' are classical; this is the specification the theorems above are stated against *)
Theorem C02_spec_logic : forall rg rxf root cur a b q,
  as_bool (s_expr rg rxf TLogical root cur (ENot a)) = negb (as_bool (s_expr rg rxf TLogical root cur a)) /\
  as_bool (s_expr rg rxf TLogical root cur (EAnd a b))
    = (as_bool (s_expr rg rxf TLogical root cur a) && as_bool (s_expr rg rxf TLogical root cur b)) /\
  as_bool (s_expr rg rxf TLogical root cur (EOr a b))
    = (as_bool (s_expr rg rxf TLogical root cur a) || as_bool (s_expr rg rxf TLogical root cur b)) /\
  as_bool (s_expr rg rxf TLogical root cur (ERel q)) = nonempty (s_segs rg rxf root q [([], cur)]) /\
  as_bool (s_expr rg rxf TLogical root cur (EAbs q)) = nonempty (s_segs rg rxf root q [([], root)]).
Proof.
  intros. set (cfg := {| min_idx := 0; max_idx := 0; max_depth := 0; reg := rg; rx := rxf |}).
  repeat split; try reflexivity.
  - exact (f_equal as_bool (s_expr_rel cfg TLogical root cur q)).
  - exact (f_equal as_bool (s_expr_abs cfg TLogical root cur q)).
Qed.
Print Assumptions C02_spec_logic.

(* filters applied to scalars select nothing *)
Theorem C02_scalars : forall rg rxf root e n, is_container (snd n) = false -> s_sel rg rxf root (SFilter e) n = [].
Proof. intros rg rxf root e [loc v] H. cbn [snd] in H. destruct v; try discriminate; reflexivity. Qed.
Print Assumptions C02_scalars.

(* non-vacuity: a nested filter whose inner '$' must reach the outermost argument, on falsy children *)
Definition c02_cfg : envcfg := {| min_idx := -9; max_idx := 9; max_depth := 100; reg := builtin_registry; rx := fun _ _ _ => false |}.
Definition nm (c : N) : str := [c].
Definition c02_doc : json :=
  JObj [(nm 107, JNum (NInt 1));
        (nm 97, JArr [JObj [(nm 98, JArr [JNum (NInt 0); JBool false; JStr []; JNull])]; JObj [(nm 98, JArr [])]])].
(* $.a[?@.b[?$.k == 1 && @ != null]] *)
Definition c02_q : query :=
  [Child [SName (nm 97)];
   Child [SFilter (ERel [Child [SName (nm 98)];
                         Child [SFilter (EAnd (ECmp OEq (EAbs [Child [SName (nm 107)]]) (ELit (JNum (NInt 1))))
                                              (ECmp ONe (ERel []) (ELit JNull)))]])]].
Example C02_example :
  wt_query builtin_registry c02_q = true /\ reg_ok builtin_registry = true /\
  m_find c02_cfg c02_q c02_doc = Ok (sem builtin_registry (fun _ _ _ => false) c02_q c02_doc) /\
  length (sem builtin_registry (fun _ _ _ => false) c02_q c02_doc) = 1%nat.
Proof. repeat split; vm_compute; reflexivity. Qed.

(* precedences, operator tables and the key sets of token_map / function_argument_map in the model are the ones
   REGENERATED from parse.py and filter_expressions.py on this run *)
From JP Require Import Proofs.TieParse.
Theorem C02_parser_tables_regenerated : parse_tables_ok = true.
Proof. exact parse_tables_regenerated. Qed.
Print Assumptions C02_parser_tables_regenerated.

(* ... and from the ABNF itself (Proofs/AbnfSpellF.v): for every string of the grammar that makes no function call - filters, comparisons, nested
   filters and all - find(string, v) is the RFC nodelist of a query (the one the string spells), in every environment whose integer range contains
   the integers it mentions *)
From JP Require Import Spec.Abnf Spec.Rfc9535Grammar Proofs.AbnfSpell Proofs.AbnfSpellF.
Theorem C02_abnf_no_call : forall s, derives nf_grammar (R r_jsonpath_query) s ->
  exists B, forall cfg, reg_ok (reg cfg) = true -> (1 <= max_depth cfg)%nat -> min_idx cfg <= - B -> B <= max_idx cfg ->
    exists q, forall v, good cfg v -> m_env_find cfg s v = Ok (sem (reg cfg) (rx cfg) q v).
Proof.
  intros s H. destruct (abnf_no_call_compiles s H) as (B & K). exists B. intros cfg Hr HN H1 H2. destruct (K cfg (conj H1 H2)) as (q & Ec). exists q. intros v Hg.
  apply (C02_find_compiled cfg Hr HN s q v Ec Hg).
Qed.
Print Assumptions C02_abnf_no_call.

(* ... and for the whole language with the built-in functions (Proofs/AbnfSpellG.v: the RFC grammar with every function call a well-typed use of
   length / count / value / match / search): find(string, v) is the RFC nodelist of a query, wherever those functions are registered with their signatures *)
From JP Require Import Spec.BuiltinGrammar Proofs.AbnfSpellG.
Theorem C02_abnf_builtin : forall s, derives bf_grammar (R r_jsonpath_query) s ->
  exists B, forall cfg, reg_ok (reg cfg) = true -> (1 <= max_depth cfg)%nat -> min_idx cfg <= - B -> B <= max_idx cfg -> std cfg ->
    exists q, forall v, good cfg v -> m_env_find cfg s v = Ok (sem (reg cfg) (rx cfg) q v).
Proof.
  intros s H. destruct (abnf_builtin_compiles s H) as (B & K). exists B. intros cfg Hr HN H1 H2 H3. destruct (K cfg (conj H1 H2) H3) as (q & Ec). exists q. intros v Hg.
  apply (C02_find_compiled cfg Hr HN s q v Ec Hg).
Qed.
Print Assumptions C02_abnf_builtin.
