(* C07 - Index and slice selectors implement RFC 9535 array arithmetic.
   Only statements here; proofs are in Proofs/SliceProofs.v. *)
From JP Require Import Base.Json Model.Slice Spec.Slice Proofs.SliceProofs.

(* For every array and every start/end/step (present or omitted, any integers), the model of
   SliceSelector.resolve selects exactly the elements the RFC procedure selects, in its order,
   paired with their non-negative index; step 0 selects nothing. *)
Theorem C07_slice : forall (l : list json) (s e t : option Z),
  m_slice_select l s e t = select_at l (rfc_slice (zlen l) s e t)
  /\ Forall (fun i => 0 <= i < zlen l) (rfc_slice (zlen l) s e t).
Proof. exact slice_model_is_rfc. Qed.
Print Assumptions C07_slice.

Theorem C07_slice_step0 : forall l s e, m_slice_select l s e (Some 0) = [].
Proof. reflexivity. Qed.
Print Assumptions C07_slice_step0.

(* The RFC loops are defined with fuel len+1; more fuel never changes the result,
   so the fuel is not what makes C07_slice true. *)
Theorem C07_fuel_adequate : forall fuel len s e t, 0 <= len -> (slice_fuel len <= fuel)%nat ->
  rfc_slice_fuel fuel len s e t = rfc_slice len s e t.
Proof. exact rfc_slice_fuel_irrelevant. Qed.
Print Assumptions C07_fuel_adequate.

(* For every array and every index i, the model of IndexSelector.resolve selects element
   Normalize(i, len) iff 0 <= Normalize(i, len) < len. *)
Theorem C07_index : forall (l : list json) (i : Z),
  m_index_select l i = select_at l (rfc_index (zlen l) i).
Proof. exact index_model_is_rfc. Qed.
Print Assumptions C07_index.

Theorem C07_location_nonneg : forall l s e t i,
  Forall (fun p => 0 <= fst p < zlen l) (m_slice_select l s e t) /\
  Forall (fun p => 0 <= fst p < zlen l) (m_index_select l i).
Proof. intros. split; [apply slice_locations_nonneg | apply index_locations_nonneg]. Qed.
Print Assumptions C07_location_nonneg.

(* non-vacuity: a concrete reverse slice and negative index *)
Example C07_example :
  m_slice_select [JNull; JBool true; JBool false; JStr []; JNull] (Some 5) (Some (-5)) (Some (-2))
    = [(4, JNull); (2, JBool false)]
  /\ m_index_select [JNull; JBool true; JBool false] (-1) = [(2, JBool false)].
Proof. split; reflexivity. Qed.
