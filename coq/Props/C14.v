(* C14 - Evaluation is pure and repeatable; queries and environments do not interfere.
   Two halves: (a) in the model, the result of every operation is a function of the text, the value and the
   registry/configuration of the one environment involved - histories cannot influence it otherwise;
   (b) the REGENERATED inventory of every store and mutation in the package (Gen/Effects.v) satisfies the policy of
   Proofs/EffectsPolicy.v: no global state besides DEFAULT_ENV, compiled objects are written only in __init__, data
   reached through parameters is never mutated, no caching decorators. *)
From JP Require Import Base.Json Model.Ast Model.Api Model.History Model.EffectLang Gen.Effects Proofs.EffectsPolicy Proofs.TieEffects.

Theorem C14_effects : pure_package g_effects g_bindings = true.
Proof. exact package_is_pure. Qed.
Print Assumptions C14_effects.

(* applying a compiled query depends only on the query, the value and its own environment's current state *)
Theorem C14_repeatable : forall dflt s s' cq v,
  nth_error (compiled s) cq = nth_error (compiled s') cq ->
  (forall e q, nth_error (compiled s) cq = Some (e, q) -> nth_error (envs s) e = nth_error (envs s') e) ->
  snd (hstep dflt s (HApply cq v)) = snd (hstep dflt s' (HApply cq v)).
Proof.
  intros dflt s s' cq v Hc He. cbn [hstep]. rewrite <- Hc. destruct (nth_error (compiled s) cq) as [[e q]|] eqn:E; [|reflexivity].
  rewrite <- (He e q eq_refl). destruct (nth_error (envs s) e); reflexivity.
Qed.
Print Assumptions C14_repeatable.

Lemma update_nth_other {A} (f : A -> A) : forall l n m, n <> m -> nth_error (update_nth n f l) m = nth_error l m.
Proof.
  induction l as [|x l IH]; intros n m H; [destruct n; reflexivity|].
  destruct n as [|n], m as [|m]; cbn; try reflexivity; try congruence. apply IH. congruence.
Qed.

(* no operation on one environment changes another environment, the module-level default, or existing compiled queries *)
Theorem C14_env_isolation : forall dflt s o e,
  (forall n d, o <> HRegister e n d) -> (e < length (envs s))%nat ->
  nth_error (envs (fst (hstep dflt s o))) e = nth_error (envs s) e.
Proof.
  intros dflt s o e Hne Hlt. destruct o as [base | e' n d | e' t | cq v | e' t v | t v]; cbn [hstep].
  - cbn [fst envs]. rewrite nth_error_app1 by exact Hlt. reflexivity.
  - cbn [fst envs]. apply update_nth_other. intros ->. eapply Hne. reflexivity.
  - destruct (nth_error (envs s) e'); [|reflexivity]. destruct (m_compile e0 t); reflexivity.
  - destruct (nth_error (compiled s) cq) as [[e0 q]|]; [|reflexivity]. destruct (nth_error (envs s) e0); reflexivity.
  - destruct (nth_error (envs s) e'); reflexivity.
  - reflexivity.
Qed.
Print Assumptions C14_env_isolation.

Theorem C14_compiled_stable : forall dflt s o cq, (cq < length (compiled s))%nat ->
  nth_error (compiled (fst (hstep dflt s o))) cq = nth_error (compiled s) cq.
Proof.
  intros dflt s o cq Hlt. destruct o as [base | e' n d | e' t | c v | e' t v | t v]; cbn [hstep]; try reflexivity.
  - destruct (nth_error (envs s) e'); [|reflexivity]. destruct (m_compile e t); try reflexivity.
    cbn [fst compiled]. rewrite nth_error_app1 by exact Hlt. reflexivity.
  - destruct (nth_error (compiled s) c) as [[e0 q]|]; [|reflexivity]. destruct (nth_error (envs s) e0); reflexivity.
  - destruct (nth_error (envs s) e'); reflexivity.
Qed.
Print Assumptions C14_compiled_stable.

(* the module-level functions depend on nothing in the history *)
Theorem C14_module_independent : forall dflt s s' t v, snd (hstep dflt s (HFindModule t v)) = snd (hstep dflt s' (HFindModule t v)).
Proof. reflexivity. Qed.
Print Assumptions C14_module_independent.
