(* Backtracking matcher with Python re.match semantics (leftmost alternative first, greedy repetition)
   for the regex subset lex.py uses: classes, sequence, alternation, greedy star, empty. *)
From JP Require Export Base.Prelude.

Inductive re :=
| REps
| RClass (neg : bool) (rs : list (N * N))   (* [lo-hi ...] or [^...] *)
| RSeq (a b : re)
| RAlt (a b : re)
| RStar (a : re).

Definition RPlus (a : re) : re := RSeq a (RStar a).
Definition ROpt (a : re) : re := RAlt a REps.
Definition RChar (c : N) : re := RClass false [(c, c)].

Fixpoint in_ranges (c : N) (rs : list (N * N)) : bool :=
  match rs with
  | [] => false
  | (lo, hi) :: rs' => ((lo <=? c) && (c <=? hi))%N || in_ranges c rs'
  end.

(* number of characters consumed by the first successful path, continuation-passing *)
Fixpoint rm (fuel : nat) (r : re) (s : list N) (n : Z) (k : list N -> Z -> option Z) {struct fuel} : option Z :=
  match fuel with
  | O => None
  | S f =>
    match r with
    | REps => k s n
    | RClass neg rs =>
        match s with
        | c :: s' => if xorb neg (in_ranges c rs) then k s' (n + 1) else None
        | [] => None
        end
    | RSeq a b => rm f a s n (fun s' n' => rm f b s' n' k)
    | RAlt a b => match rm f a s n k with Some x => Some x | None => rm f b s n k end
    | RStar a =>
        match rm f a s n (fun s' n' => if n' =? n then None else rm f (RStar a) s' n' k) with
        | Some x => Some x
        | None => k s n
        end
    end
  end.

(* pattern.match(text, pos): length of the match at the start of s, if any *)
Definition re_match (r : re) (s : list N) : option Z :=
  rm (8 * length s + 64) r s 0 (fun _ n => Some n).
