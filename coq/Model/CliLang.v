(* vocabulary of the regenerated observations of the command-line front end (Gen/Cli.v) *)
From JP Require Export Base.Prelude.
Record handler := { h_classes : list str; h_debug_reraise : bool; h_one_line : bool; h_exit : Z }.
(* one fault-injection run: the library call of a phase (0 compile, 1 find, 2 load) raises an exception of the class;
   exit status (-1: an exception left main()), whether that exception was the injected one, non-blank lines on standard
   error, whether they contain a traceback, whether standard output stayed empty *)
Record obs := { o_phase : nat; o_class : str; o_debug : bool; o_exit : Z; o_prop : bool; o_lines : nat; o_tb : bool; o_quiet : bool }.

(* subclass relation from a (class, base) table *)
Fixpoint base_of (tbl : list (str * str)) (c : str) : option str :=
  match tbl with [] => None | (c', b) :: r => if str_eqb c c' then Some b else base_of r c end.
Fixpoint is_subclass (fuel : nat) (tbl : list (str * str)) (c d : str) : bool :=
  str_eqb c d ||
  match fuel with
  | O => false
  | S f => match base_of tbl c with Some b => is_subclass f tbl b d | None => false end
  end.
(* the first handler whose class list catches an exception of class c *)
Fixpoint catching (tbl : list (str * str)) (hs : list handler) (c : str) : option handler :=
  match hs with
  | [] => None
  | h :: r => if existsb (fun d => is_subclass 8 tbl c d) (h_classes h) then Some h else catching tbl r c
  end.
