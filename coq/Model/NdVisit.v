(* segments._nondeterministic_visit / _nondeterministic_children driven by a choice script: every call of
   random.randrange(n) takes the next script number (mod n); random.shuffle of n >= 2 items takes one number,
   read as a factorial-base permutation index.  An exhausted script answers 0. *)
From JP Require Export Base.Json.

Definition take1 (script : list Z) : Z * list Z := match script with x :: r => (x, r) | [] => (0, []) end.

Fixpoint remove_nth {A} (n : nat) (l : list A) : list A :=
  match l with [] => [] | x :: r => match n with O => r | S n' => x :: remove_nth n' r end end.
(* pool.pop(idx mod k) for k = n, n-1, ..., 1 *)
Fixpoint apply_perm {A} (fuel : nat) (idx : Z) (pool : list A) : list A :=
  match fuel with
  | O => []
  | S f =>
      match pool with
      | [] => []
      | _ => let k := zlen pool in
             let j := Z.to_nat (idx mod k) in
             match nth_error pool j with
             | Some x => x :: apply_perm f (idx / k) (remove_nth j pool)
             | None => []
             end
      end
  end.
Definition shuffle {A} (script : list Z) (items : list A) : list A * list Z :=
  match items with
  | [] | [_] => (items, script)
  | _ => let '(p, r) := take1 script in (apply_perm (length items) p items, r)
  end.

(* a pending entry: the children generator of a visited node (not yet started, or what remains of it), and the depth of those children *)
Inductive gen_state := Unstarted (n : node) | Remaining (ns : list node).
Definition pending := list (gen_state * nat).

(* next(children): (yielded node or StopIteration, new generator state, script) *)
Definition gen_next (script : list Z) (g : gen_state) : option node * gen_state * list Z :=
  match g with
  | Remaining (x :: r) => (Some x, Remaining r, script)
  | Remaining [] => (None, Remaining [], script)
  | Unstarted n =>
      let '(items, script') :=
          match snd n with
          | JObj _ => shuffle script (children n)
          | _ => (children n, script)
          end in
      match items with
      | x :: r => (Some x, Remaining r, script')
      | [] => (None, Remaining [], script')
      end
  end.

Fixpoint set_nth {A} (n : nat) (x : A) (l : list A) : list A :=
  match l with [] => [] | y :: r => match n with O => x :: r | S n' => y :: set_nth n' x r end end.

(* next(children) repeatedly while it yields scalars: the scalars passed over (in order), then the first container or exhaustion *)
Fixpoint drain (fuel : nat) (script : list Z) (g : gen_state) (skipped : list node) : list node * option node * gen_state * list Z :=
  match fuel with
  | O => (skipped, None, g, script)
  | S f =>
      match gen_next script g with
      | (None, g', script') => (skipped, None, g', script')
      | (Some nd, g', script') =>
          if is_container (snd nd) then (skipped, Some nd, g', script')
          else drain f script' g' (skipped ++ [nd])
      end
  end.

Fixpoint nd_loop (fuel : nat) (limit : nat) (script : list Z) (pend : pending) (acc : list node) : result (list node) :=
  match fuel with
  | O => OutOfFuel
  | S f =>
      match pend with
      | [] => Ok (rev acc)
      | _ =>
          let '(r, script1) := take1 script in
          let idx := Z.to_nat (r mod zlen pend) in
          match nth_error pend idx with
          | None => Crash XIndexError
          | Some (g, depth) =>
              match drain (S fuel) script1 g [] with
              | (skipped, None, _, script2) => nd_loop f limit script2 (remove_nth idx pend) (rev skipped ++ acc)
              | (skipped, Some nd, g', script2) =>
                  if (limit <? depth)%nat then Err ERecursion None
                  else nd_loop f limit script2 (set_nth idx (g', depth) pend ++ [(Unstarted nd, S depth)]) (nd :: rev skipped ++ acc)
              end
          end
      end
  end.

Fixpoint count_nodes (v : json) : nat :=
  match v with
  | JArr l => S (fold_right (fun x a => count_nodes x + a)%nat O l)
  | JObj m => S (fold_right (fun kv a => count_nodes (snd kv) + a)%nat O m)
  | _ => 1%nat
  end.

(* _nondeterministic_visit(root, depth=1) *)
Definition nd_visit (limit : nat) (script : list Z) (root : node) : result (list node) :=
  if (limit <? 1)%nat then Err ERecursion None
  else nd_loop (2 * count_nodes (snd root) + 2) limit script [(Unstarted root, 2%nat)] [root].
