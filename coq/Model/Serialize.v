(* serialize.canonical_string (json.dumps escaping + two str.replace passes), JSONPathNode.path,
   the __str__ methods of query / segments / selectors / filter expressions, repr() of numbers. *)
From JP Require Export Base.Json Model.Ast Model.PyFloat.

(* --- json.dumps(s, ensure_ascii=False)[1:-1] --------------------------------------------------- *)
Definition hex_digit_lower (d : Z) : N := if d <? 10 then Z.to_N (48 + d) else Z.to_N (87 + d).
Definition dumps_char (c : N) : str :=
  if N.eqb c 92 then [92; 92]%N
  else if N.eqb c 34 then [92; 34]%N
  else if N.eqb c 8 then [92; 98]%N
  else if N.eqb c 12 then [92; 102]%N
  else if N.eqb c 10 then [92; 110]%N
  else if N.eqb c 13 then [92; 114]%N
  else if N.eqb c 9 then [92; 116]%N
  else if (c <? 32)%N then [92; 117; 48; 48; hex_digit_lower (Z.of_N c / 16); hex_digit_lower (Z.of_N c mod 16)]%N
  else [c].
Definition dumps_body (s : str) : str := flat_map dumps_char s.

(* .replace('\\"', '"'): leftmost, non-overlapping *)
Fixpoint replace_bq (s : str) : str :=
  match s with
  | [] => []
  | c :: r =>
      match r with
      | d :: r' => if N.eqb c 92 && N.eqb d 34 then 34%N :: replace_bq r' else c :: replace_bq r
      | [] => [c]
      end
  end.
(* .replace("'", "\\'") *)
Definition replace_sq (s : str) : str := flat_map (fun c => if N.eqb c 39 then [92; 39]%N else [c]) s.

Definition m_canonical_string (s : str) : str := 39%N :: replace_sq (replace_bq (dumps_body s)) ++ [39%N].

(* --- repr(int) ---------------------------------------------------------------------------------- *)
Fixpoint digits_of_pos (fuel : nat) (n : Z) (acc : str) : str :=
  match fuel with
  | O => acc
  | S f => if n <? 10 then Z.to_N (48 + n) :: acc else digits_of_pos f (n / 10) (Z.to_N (48 + n mod 10) :: acc)
  end.
Definition repr_nat (n : Z) : str := digits_of_pos (S (Z.to_nat (Z.log2 n))) n [].
Definition repr_int (z : Z) : str := if z <? 0 then 45%N :: repr_nat (- z) else repr_nat z.

(* --- repr(float): shortest digits that round-trip, Python's fixed/exponent layout ----------------- *)
(* x = num/den > 0.  floor(log10 x) *)
Definition lt_ratio (n1 d1 n2 d2 : Z) : bool := n1 * d2 <? n2 * d1.
Definition pow10 (k : Z) : Z * Z := if 0 <=? k then (10 ^ k, 1) else (1, 10 ^ (- k)).
Definition floor_log10 (num den : Z) : Z :=
  let est := ((Z.log2 num - Z.log2 den) * 30103) / 100000 in
  let fix_down (e : Z) := let '(pn, pd) := pow10 e in if lt_ratio num den pn pd then e - 1 else e in
  let fix_up (e : Z) := let '(pn, pd) := pow10 (e + 1) in if lt_ratio num den pn pd then e else e + 1 in
  fix_up (fix_up (fix_down (fix_down (est + 1)))).
(* round num/den to n significant digits: (D, k) with value ~ D * 10^k, 10^(n-1) <= D < 10^n *)
Definition round_sig (num den : Z) (n : Z) : Z * Z :=
  let e10 := floor_log10 num den in
  let k := e10 - (n - 1) in
  let '(sn, sd) := if 0 <=? k then (num, den * 10 ^ k) else (num * 10 ^ (- k), den) in
  let q := sn / sd in
  let r := sn mod sd in
  let q' := if sd <? 2 * r then q + 1 else if (sd =? 2 * r) && Z.odd q then q + 1 else q in
  if q' =? 10 ^ n then (10 ^ (n - 1), k + 1) else (q', k).
Fixpoint shortest (fuel : nat) (n : Z) (m e : Z) (num den : Z) : Z * Z :=
  match fuel with
  | O => round_sig num den 17
  | S f =>
      let '(D, k) := round_sig num den n in
      let back := if 0 <=? k then round_ratio (D * 10 ^ k) 1 else round_ratio D (10 ^ (- k)) in
      match back with
      | Some (m', e') => if (m' =? m) && (e' =? e) then (D, k) else shortest f (n + 1) m e num den
      | None => shortest f (n + 1) m e num den
      end
  end.
Fixpoint strip_zeros (fuel : nat) (D k : Z) : Z * Z :=
  match fuel with O => (D, k) | S f => if (D mod 10 =? 0) && negb (D =? 0) then strip_zeros f (D / 10) (k + 1) else (D, k) end.
Definition zeros (n : Z) : str := repeat 48%N (Z.to_nat n).
Definition repr_pos_float (m e : Z) : str :=
  let '(num, den) := if 0 <=? e then (m * 2 ^ e, 1) else (m, 2 ^ (- e)) in
  let '(D0, k0) := shortest 17 1 m e num den in
  let '(D, k) := strip_zeros 20 D0 k0 in
  let ds := repr_nat D in
  let nd := zlen ds in
  let decpt := nd + k in
  if (-4 <? decpt) && (decpt <=? 16) then
    if decpt <=? 0 then [48; 46]%N ++ zeros (- decpt) ++ ds
    else if nd <=? decpt then ds ++ zeros (decpt - nd) ++ [46; 48]%N
    else firstn (Z.to_nat decpt) ds ++ [46%N] ++ skipn (Z.to_nat decpt) ds
  else
    let ex := decpt - 1 in
    let mant := match ds with d :: [] => [d] | d :: r => d :: 46%N :: r | [] => [] end in
    let exs := repr_nat (Z.abs ex) in
    mant ++ [101%N; if ex <? 0 then 45%N else 43%N] ++ (if zlen exs <? 2 then 48%N :: exs else exs).
Definition repr_float (x : num) : str :=
  match x with
  | NInt z => repr_int z
  | NFlt 0 _ => [48; 46; 48]%N
  | NFlt m e => if m <? 0 then 45%N :: repr_pos_float (- m) e else repr_pos_float m e
  | NNegZero => [45; 48; 46; 48]%N
  | NInf s => if s then [45; 105; 110; 102]%N else [105; 110; 102]%N
  end.

(* --- str() of compiled objects ------------------------------------------------------------------ *)
Definition s_of (l : list N) : str := l.
Definition str_join (sep : str) (parts : list str) : str :=
  match parts with
  | [] => []
  | p :: ps => p ++ flat_map (fun x => sep ++ x) ps
  end.
Definition op_str (o : cmpop) : str :=
  match o with
  | OEq => [61; 61] | ONe => [33; 61] | OLt => [60] | OLe => [60; 61] | OGt => [62] | OGe => [62; 61]
  end%N.
(* FilterExpressionLiteral.__str__: repr(value).lower(), canonical_string for strings, "null" *)
Definition lit_str (v : json) : str :=
  match v with
  | JNull => [110; 117; 108; 108]%N
  | JBool true => [116; 114; 117; 101]%N
  | JBool false => [102; 97; 108; 115; 101]%N
  | JNum n => repr_float n
  | JStr s => m_canonical_string s
  | _ => []
  end.
Definition opt_int_str (o : option Z) (dflt : str) : str := match o with Some i => repr_int i | None => dflt end.
Definition paren (s : str) : str := 40%N :: s ++ [41%N].
Definition is_cmp_or_not (e : expr) : bool := match e with ECmp _ _ _ | ENot _ => true | _ => false end.

Fixpoint sel_str (s : sel) {struct s} : str :=
  match s with
  | SName k => m_canonical_string k
  | SIndex i => repr_int i
  | SSlice a b c => opt_int_str a [] ++ [58%N] ++ opt_int_str b [] ++ [58%N] ++ opt_int_str c [49%N]
  | SWild => [42%N]
  | SFilter e => 63%N :: canon_str e 1
  end
(* Expression.__str__ *)
with expr_str (e : expr) {struct e} : str :=
  match e with
  | ELit v => lit_str v
  | ERel q => 64%N :: (fix go (q : list seg) : str := match q with [] => [] | g :: q' => seg_str g ++ go q' end) q
  | EAbs q => 36%N :: (fix go (q : list seg) : str := match q with [] => [] | g :: q' => seg_str g ++ go q' end) q
  | ECall f args =>
      f ++ paren (str_join [44; 32]%N
                   ((fix go (l : list expr) : list str := match l with [] => [] | a :: l' => expr_str a :: go l' end) args))
  | ENot a => if is_cmp_or_not a then 33%N :: paren (expr_str a) else 33%N :: expr_str a
  | EAnd a b => paren (expr_str a ++ [32; 38; 38; 32]%N ++ expr_str b)
  | EOr a b => paren (expr_str a ++ [32; 124; 124; 32]%N ++ expr_str b)
  | ECmp o a b => expr_str a ++ [32%N] ++ op_str o ++ [32%N] ++ expr_str b
  end
(* FilterExpression._canonical_string(expression, parent_precedence) *)
with canon_str (e : expr) (parent : Z) {struct e} : str :=
  match e with
  | EAnd a b =>
      let t := canon_str a 4 ++ [32; 38; 38; 32]%N ++ canon_str b 4 in
      if 4 <=? parent then paren t else t
  | EOr a b =>
      let t := canon_str a 3 ++ [32; 124; 124; 32]%N ++ canon_str b 3 in
      if 3 <=? parent then paren t else t
  | ENot a =>
      let t := 33%N :: canon_str a 7 in
      if 7 <=? parent then paren t else t
  | ECmp o a b =>
      let t := expr_str a ++ [32%N] ++ op_str o ++ [32%N] ++ expr_str b in
      if 7 <=? parent then paren t else t
  | ELit v => lit_str v
  | ERel q => 64%N :: (fix go (q : list seg) : str := match q with [] => [] | g :: q' => seg_str g ++ go q' end) q
  | EAbs q => 36%N :: (fix go (q : list seg) : str := match q with [] => [] | g :: q' => seg_str g ++ go q' end) q
  | ECall f args =>
      f ++ paren (str_join [44; 32]%N
                   ((fix go (l : list expr) : list str := match l with [] => [] | a :: l' => expr_str a :: go l' end) args))
  end
with seg_str (g : seg) {struct g} : str :=
  match g with
  | Child ss => 91%N :: str_join [44; 32]%N ((fix go (l : list sel) : list str := match l with [] => [] | s :: l' => sel_str s :: go l' end) ss) ++ [93%N]
  | Desc ss => [46; 46; 91]%N ++ str_join [44; 32]%N ((fix go (l : list sel) : list str := match l with [] => [] | s :: l' => sel_str s :: go l' end) ss) ++ [93%N]
  end.

(* JSONPathQuery.__str__ *)
Definition m_str (q : query) : str := 36%N :: flat_map seg_str q.

(* JSONPathNode.path() *)
Definition key_str (k : key) : str :=
  match k with
  | KName s => 91%N :: m_canonical_string s ++ [93%N]
  | KIdx i => 91%N :: repr_int i ++ [93%N]
  end.
Definition m_path (loc : list key) : str := 36%N :: flat_map key_str loc.
