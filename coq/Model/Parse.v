(* parse.py (Parser), the compile-time checks of environment.py, IndexSelector/SliceSelector range checks.
   Every Python function is one Gallina function of the same name (p_ prefix); the token stream is threaded
   explicitly; loops are recursion on fuel.  Exceptions: PErr (a JSONPathError subclass + index of its token),
   PCrash (any other exception, with the stream state at that moment: parse_filter_expression's
   `except KeyError` also catches KeyErrors raised deeper inside and then reads stream.current). *)
From JP Require Export Base.Json Model.Tokens Model.Ast Model.PyFloat.

Inductive pres (A : Type) :=
| POk (a : A) (s : stream)
| PErr (c : jperr) (off : Z)
| PCrash (x : pyexn) (s : stream)
| PFuel.
Arguments POk {A} a s. Arguments PErr {A} c off. Arguments PCrash {A} x s. Arguments PFuel {A}.

Definition pbind {A B} (r : pres A) (f : A -> stream -> pres B) : pres B :=
  match r with
  | POk a s => f a s
  | PErr c o => PErr c o
  | PCrash x s => PCrash x s
  | PFuel => PFuel
  end.
Notation "'dop' x , s <- r ; k" := (pbind r (fun x s => k)) (at level 200, x pattern, s name, r at level 100, k at level 200).

Definition cty (s : stream) : ttype := ty (cur s).
Definition is_ty (t : ttype) (s : stream) : bool := ttype_eqb (cty s) t.
Definition peek_ty (s : stream) : ttype := ty (fst (s_peek s)).
Definition err_cur {A} (c : jperr) (s : stream) : pres A := PErr c (tidx (cur s)).
Definition err_peek {A} (c : jperr) (s : stream) : pres A := PErr c (tidx (fst (s_peek s))).
(* statement-level next_token(): drop the returned token *)
Definition adv (s : stream) : stream := snd (s_next s).
(* peek mutates the stream (push-back deque); keep the mutation *)
Definition after_peek (s : stream) : stream := snd (s_peek s).

(* --- tables of parse.py (regenerated copy: Gen/ParseConst.v) ------------------------------- *)
Definition PRECEDENCE_LOWEST : Z := 1.
Definition PRECEDENCE_PREFIX : Z := 7.
Definition precedence_of (t : ttype) : Z :=      (* PRECEDENCES.get(t, PRECEDENCE_LOWEST) *)
  match t with
  | T_AND => 4 | T_EQ | T_GE | T_GT | T_LE | T_LT | T_NE => 5 | T_NOT => 7 | T_OR => 3 | T_RPAREN => 1
  | _ => 1
  end.
Inductive binop := BAnd | BOr | BCmp (o : cmpop).
Definition binary_operator (t : ttype) : option binop :=     (* BINARY_OPERATORS *)
  match t with
  | T_AND => Some BAnd | T_OR => Some BOr
  | T_EQ => Some (BCmp OEq) | T_GE => Some (BCmp OGe) | T_GT => Some (BCmp OGt)
  | T_LE => Some (BCmp OLe) | T_LT => Some (BCmp OLt) | T_NE => Some (BCmp ONe)
  | _ => None
  end.
Definition is_comparison_tok (t : ttype) : bool :=
  match binary_operator t with Some (BCmp _) => true | _ => false end.
(* keys of token_map and of function_argument_map *)
Definition in_token_map (t : ttype) : bool :=
  match t with
  | T_DQ_STRING | T_FALSE | T_FLOAT | T_FUNCTION | T_INT | T_LPAREN | T_NOT | T_NULL | T_ROOT | T_CURRENT
  | T_SQ_STRING | T_TRUE => true
  | _ => false
  end.
Definition in_function_argument_map (t : ttype) : bool := in_token_map t.

(* --- expression classes, as isinstance sees them --------------------------------------------- *)
Definition is_literal (e : expr) : bool := match e with ELit _ => true | _ => false end.
Definition is_filter_query (e : expr) : bool := match e with ERel _ | EAbs _ => true | _ => false end.
Definition is_compound (e : expr) : bool := match e with ENot _ | EAnd _ _ | EOr _ _ | ECmp _ _ _ => true | _ => false end.
(* JSONPathQuery.singular_query *)
Definition m_singular (q : list seg) : bool :=
  forallb (fun sg => match sg with
                     | Child [SName _] | Child [SIndex _] => true
                     | _ => false
                     end) q.
Definition query_of (e : expr) : list seg := match e with ERel q | EAbs q => q | _ => [] end.
(* JSONPathEnvironment._function_return_type *)
Definition function_return_type (rg : registry) (e : expr) : option ty3 :=
  match e with
  | ECall f _ => match find_assoc f rg with Some d => Some (f_ret d) | None => None end
  | _ => None
  end.
Definition opt_ty_is (o : option ty3) (t : ty3) : bool := match o with Some t' => ty3_eqb t t' | None => false end.

(* --- string literal decoding -------------------------------------------------------------------- *)
(* value.replace('"', '\\"') *)
Fixpoint replace_dq (s : str) : str :=
  match s with
  | [] => []
  | c :: s' => if N.eqb c 34 then 92%N :: 34%N :: replace_dq s' else c :: replace_dq s'
  end.
(* .replace("\\'", "'")  leftmost, non-overlapping *)
Fixpoint replace_esc_sq (s : str) : str :=
  match s with
  | [] => []
  | c :: s' =>
      match s' with
      | d :: s'' => if N.eqb c 92 && N.eqb d 39 then 39%N :: replace_esc_sq s'' else c :: replace_esc_sq s'
      | [] => [c]
      end
  end.

Definition hex_val (c : N) : option Z :=
  if ((48 <=? c) && (c <=? 57))%N then Some (Z.of_N c - 48)
  else if ((65 <=? c) && (c <=? 70))%N then Some (Z.of_N c - 65 + 10)
  else if ((97 <=? c) && (c <=? 102))%N then Some (Z.of_N c - 97 + 10)
  else None.
(* _parse_hex_digits on value[i:i+4]: None = JSONPathSyntaxError *)
Definition parse_hex4 (v : str) (i : Z) : option Z :=
  match znth v i, znth v (i + 1), znth v (i + 2), znth v (i + 3) with
  | Some a, Some b, Some c, Some d =>
      match hex_val a, hex_val b, hex_val c, hex_val d with
      | Some a', Some b', Some c', Some d' => Some (((a' * 16 + b') * 16 + c') * 16 + d')
      | _, _, _, _ => None
      end
  | _, _, _, _ => None
  end.
Definition is_high_surrogate (c : Z) : bool := (55296 <=? c) && (c <=? 56319).
Definition is_low_surrogate (c : Z) : bool := (56320 <=? c) && (c <=? 57343).

Inductive dres := DOk (cp : Z) (index : Z) | DSyntax | DIndexError.
Definition ceq_z (o : option N) (c : N) : bool := match o with Some d => N.eqb d c | None => false end.

(* _decode_hex_char(value, index): index points at 'u' *)
Definition decode_hex_char (v : str) (index : Z) : dres :=
  let length := zlen v in
  if length <=? index + 4 then DSyntax else
  let index := index + 1 in
  match parse_hex4 v index with
  | None => DSyntax
  | Some cp =>
    if is_low_surrogate cp then DSyntax
    else if is_high_surrogate cp then
      if (index + 9 <? length) && ceq_z (znth v (index + 4)) 92 && ceq_z (znth v (index + 5)) 117 then
        match parse_hex4 v (index + 6) with
        | None => DSyntax
        | Some low =>
            if is_low_surrogate low
            then DOk (65536 + (Z.lor (Z.shiftl (Z.land cp 1023) 10) (Z.land low 1023))) (index + 9)
            else DSyntax
        end
      else DSyntax
    else DOk cp (index + 3)
  end.

(* _decode_escape_sequence(value, index): returns (character, index) *)
Definition decode_escape (v : str) (index : Z) : dres :=
  match znth v index with
  | None => DIndexError
  | Some ch =>
      if N.eqb ch 34 then DOk 34 index
      else if N.eqb ch 92 then DOk 92 index
      else if N.eqb ch 47 then DOk 47 index
      else if N.eqb ch 98 then DOk 8 index
      else if N.eqb ch 102 then DOk 12 index
      else if N.eqb ch 110 then DOk 10 index
      else if N.eqb ch 114 then DOk 13 index
      else if N.eqb ch 116 then DOk 9 index
      else if N.eqb ch 117 then decode_hex_char v index
      else DSyntax
  end.

(* _unescape_string: the while loop on index, fuel = len(value) + 1 *)
Fixpoint unescape_loop (fuel : nat) (v : str) (index : Z) (acc : list N) : option (option str) :=
  (* Some (Some s) ok, Some None syntax error, None crash/fuel *)
  match fuel with
  | O => None
  | S f =>
    if zlen v <=? index then Some (Some (rev acc)) else
    match znth v index with
    | None => None
    | Some ch =>
        if N.eqb ch 92 then
          match decode_escape v (index + 1) with
          | DOk cp i' => unescape_loop f v (i' + 1) (Z.to_N cp :: acc)
          | DSyntax => Some None
          | DIndexError => None
          end
        else if (ch <=? 31)%N then Some None          (* _string_from_codepoint: raw control character *)
        else unescape_loop f v (index + 1) (ch :: acc)
    end
  end.

(* _decode_string_literal(token) *)
Definition decode_string_literal (t : token) : result str :=
  let v := if ttype_eqb (ty t) T_SQ_STRING then replace_esc_sq (replace_dq (tval t)) else tval t in
  match unescape_loop (S (length v)) v 0 [] with
  | Some (Some s) => Ok s
  | Some None => Err ESyntax (Some (tidx t))
  | None => Crash XIndexError
  end.

(* --- numbers --------------------------------------------------------------------------------------- *)
Definition starts_with (p s : str) : bool :=
  (fix go (p s : str) : bool :=
     match p with [] => true | c :: p' => match s with d :: s' => N.eqb c d && go p' s' | [] => false end end) p s.
(* int(token.value) for an INDEX token (-?[0-9]+) *)
Definition int_of_index (v : str) : Z :=
  match v with
  | 45%N :: r => - digits_val r
  | _ => digits_val v
  end.
(* Parser._has_leading_zero: value.lstrip("-").replace("E","e").split("e")[0].split(".")[0] *)
Fixpoint lstrip_minus (s : str) : str := match s with 45%N :: r => lstrip_minus r | _ => s end.
Fixpoint take_until (stop : N -> bool) (s : str) : str :=
  match s with c :: r => if stop c then [] else c :: take_until stop r | [] => [] end.
Definition has_leading_zero (v : str) : bool :=
  let d := take_until (fun c => N.eqb c 46) (take_until (fun c => N.eqb c 101 || N.eqb c 69) (lstrip_minus v)) in
  (1 <? zlen d) && starts_with [48%N] d.

Section Parser.
  Variable cfg : envcfg.
  Notation rg := (reg cfg).

  Definition in_range (i : Z) : bool := (min_idx cfg <=? i) && (i <=? max_idx cfg).

  (* parse_boolean / parse_null / parse_string_literal / parse_integer_literal / parse_float_literal *)
  Definition p_literal (s : stream) : pres (expr * Z) :=
    let t := cur s in
    let ok v := POk (ELit v, tidx t) s in
    match ty t with
    | T_TRUE => ok (JBool true)
    | T_FALSE => ok (JBool false)
    | T_NULL => ok JNull
    | T_SQ_STRING | T_DQ_STRING =>
        match decode_string_literal t with
        | Ok str => ok (JStr str)
        | Err c _ => PErr c (tidx t)
        | Crash x => PCrash x s
        | OutOfFuel => PFuel
        end
    | T_INT =>
        if has_leading_zero (tval t) then err_cur ESyntax s else
        match py_float (tval t) with
        | None => err_cur ESyntax s
        | Some x => match py_int_of_float x with
                    | Some z => ok (JNum (NInt z))
                    | None => ok (JNum x)          (* OverflowError: keep the float *)
                    end
        end
    | T_FLOAT =>
        if has_leading_zero (tval t) then err_cur ESyntax s else
        match py_float (tval t) with
        | None => err_cur ESyntax s
        | Some x => ok (JNum x)
        end
    | _ => PCrash XKeyError s
    end.

  (* parse_slice._maybe_index *)
  Definition maybe_index (s : stream) : pres bool :=
    if is_ty T_INDEX s then
      let v := tval (cur s) in
      if (1 <? zlen v) && (starts_with [48%N] v || starts_with [45%N; 48%N] v) then err_cur ESyntax s
      else POk true s
    else POk false s.

  (* parse_slice *)
  Definition p_slice (s0 : stream) : pres sel :=
    let tok := cur s0 in
    dop b1, s <- maybe_index s0;
    let '(start, s) := if b1 then (Some (int_of_index (tval (cur s))), adv s) else (None, s) in
    if negb (is_ty T_COLON s) then err_cur ESyntax s else
    let s := adv s in
    dop b2, s <- maybe_index s;
    let '(stop, second, s) :=
        if b2 then
          let v := int_of_index (tval (cur s)) in
          let s := adv s in
          if is_ty T_COLON s then (Some v, true, adv s) else (Some v, false, s)
        else if is_ty T_COLON s then (None, true, adv s) else (None, false, s) in
    dop b3, s <- (if second then maybe_index s else POk false s);
    let '(step, s) := if b3 then (Some (int_of_index (tval (cur s))), adv s) else (None, s) in
    let s := s_push s (cur s) in
    let okr o := match o with Some i => in_range i | None => true end in
    if okr start && okr stop && okr step then POk (SSlice start stop step) s
    else PErr EIndex (tidx tok).

  (* _raise_for_uncompared_value_function *)
  Definition value_function (e : expr) : bool := opt_ty_is (function_return_type rg e) TValue.

  (* _raise_for_non_comparable_function(expr, token): None = fine *)
  Definition non_comparable (e : expr) : option jperr :=
    if is_compound e then Some ESyntax
    else if is_filter_query e && negb (m_singular (query_of e)) then Some EType
    else match e with
         | ECall _ _ => match function_return_type rg e with
                        | Some TValue => None
                        | Some _ => Some EType
                        | None => None
                        end
         | _ => None
         end.

  (* environment.check_well_typedness: None = fine *)
  Fixpoint check_args (tys : list ty3) (args : list expr) : bool :=
    match tys with
    | [] => true
    | t :: tys' =>
        match args with
        | [] => false       (* cannot happen: lengths were compared *)
        | a :: args' =>
            (match t with
             | TValue => is_literal a || (is_filter_query a && m_singular (query_of a))
                         || opt_ty_is (function_return_type rg a) TValue
             | TLogical => is_filter_query a || is_compound a
                           || opt_ty_is (function_return_type rg a) TLogical || opt_ty_is (function_return_type rg a) TNodes
             | TNodes => is_filter_query a || opt_ty_is (function_return_type rg a) TNodes
             end) && check_args tys' args'
        end
    end.

  (* parenthesized arguments are admitted for LogicalType parameters only *)
  Fixpoint grouped_ok (tys : list ty3) (gs : list bool) : bool :=
    match tys, gs with
    | t :: tys', g :: gs' => (negb g || ty3_eqb t TLogical) && grouped_ok tys' gs'
    | _, _ => true
    end.

  Fixpoint p_query (fuel : nat) (in_filter : bool) (s : stream) {struct fuel} : pres (list seg) :=
    match fuel with O => PFuel | S f =>
      if is_ty T_DOUBLE_DOT s then
        dop ss, s <- p_selectors f (adv s);
        dop q, s <- p_query f in_filter (adv s);
        POk (Desc ss :: q) s
      else if is_ty T_LBRACKET s || is_ty T_PROPERTY s || is_ty T_WILD s then
        dop ss, s <- p_selectors f s;
        dop q, s <- p_query f in_filter (adv s);
        POk (Child ss :: q) s
      else POk [] (if in_filter then s_push s (cur s) else s)
    end
  with p_selectors (fuel : nat) (s : stream) {struct fuel} : pres (list sel) :=
    match fuel with O => PFuel | S f =>
      match cty s with
      | T_PROPERTY => POk [SName (tval (cur s))] s
      | T_WILD => POk [SWild] s
      | T_LBRACKET =>
          let tok := cur s in
          dop ss, s <- p_bracket_loop f (adv s);
          match ss with [] => PErr ESyntax (tidx tok) | _ => POk ss s end
      | _ => POk [] s
      end
    end
  (* the while loop of parse_bracketed_selection *)
  with p_bracket_loop (fuel : nat) (s : stream) {struct fuel} : pres (list sel) :=
    match fuel with O => PFuel | S f =>
      if is_ty T_RBRACKET s then POk [] s else
      dop x, s <-
        (match cty s with
         | T_INDEX =>
             if ttype_eqb (peek_ty s) T_COLON then p_slice (after_peek s)
             else
               let s := after_peek s in
               let v := tval (cur s) in
               if ((1 <? zlen v) && starts_with [48%N] v) || starts_with [45%N; 48%N] v then err_cur ESyntax s
               else if in_range (int_of_index v) then POk (SIndex (int_of_index v)) s
               else err_cur EIndex s
         | T_DQ_STRING | T_SQ_STRING =>
             match decode_string_literal (cur s) with
             | Ok nm => POk (SName nm) s
             | Err c _ => err_cur c s
             | Crash x => PCrash x s
             | OutOfFuel => PFuel
             end
         | T_COLON => p_slice s
         | T_WILD => POk SWild s
         | T_FILTER => p_filter_selector f s
         | _ => err_cur ESyntax s
         end);
      if ttype_eqb (peek_ty s) T_EOF then PErr ESyntax (tidx (cur (after_peek s))) else
      let s := after_peek s in
      dop _, s <-
        (if negb (ttype_eqb (peek_ty s) T_RBRACKET) then
           if negb (ttype_eqb (peek_ty s) T_COMMA) then err_peek ESyntax s else
           let s := adv (after_peek (after_peek s)) in
           if ttype_eqb (peek_ty s) T_RBRACKET then err_peek ESyntax s else POk tt (after_peek s)
         else POk tt (after_peek s));
      dop xs, s <- p_bracket_loop f (adv s);
      POk (x :: xs) s
    end
  with p_filter_selector (fuel : nat) (s : stream) {struct fuel} : pres sel :=
    match fuel with O => PFuel | S f =>
      let tok := cur s in
      dop et, s <- p_fexpr f PRECEDENCE_LOWEST (adv s);
      let '(e, etok) := et in
      if value_function e then PErr EType (tidx tok)
      else if is_literal e then PErr ESyntax etok
      else POk (SFilter e) s
    end
  (* parse_filter_expression(stream, precedence) *)
  with p_fexpr (fuel : nat) (prec : Z) (s : stream) {struct fuel} : pres (expr * Z) :=
    match fuel with O => PFuel | S f =>
      if negb (in_token_map (cty s)) then err_cur ESyntax s else
      match p_primary f s with
      | PCrash XKeyError s' => err_cur ESyntax s'      (* except KeyError, raised anywhere below *)
      | POk lhs s => p_fexpr_loop f prec lhs s
      | r => r
      end
    end
  with p_fexpr_loop (fuel : nat) (prec : Z) (lhs : expr * Z) (s : stream) {struct fuel} : pres (expr * Z) :=
    match fuel with O => PFuel | S f =>
      let pk := peek_ty s in
      let s := after_peek s in
      if ttype_eqb pk T_EOF || ttype_eqb pk T_RBRACKET || (precedence_of pk <? prec) then POk lhs s
      else match binary_operator pk with
           | None => POk lhs s
           | Some _ =>
               dop lhs', s <- p_infix f lhs (adv s);
               p_fexpr_loop f prec lhs' s
           end
    end
  (* self.token_map[stream.current.type_](stream) *)
  with p_primary (fuel : nat) (s : stream) {struct fuel} : pres (expr * Z) :=
    match fuel with O => PFuel | S f =>
      match cty s with
      | T_LPAREN => p_grouped f s
      | T_NOT => p_prefix f s
      | T_ROOT =>
          let root := cur s in
          dop q, s <- p_query f true (adv s); POk (EAbs q, tidx root) s
      | T_CURRENT =>
          let tok := cur s in
          dop q, s <- p_query f true (adv s); POk (ERel q, tidx tok) s
      | T_FUNCTION => p_function f s
      | _ => p_literal s
      end
    end
  (* parse_infix_expression(stream, lhs) *)
  with p_infix (fuel : nat) (lhs : expr * Z) (s : stream) {struct fuel} : pres (expr * Z) :=
    match fuel with O => PFuel | S f =>
      let tok := cur s in
      let s := adv s in
      let right_is_grouped := is_ty T_LPAREN s in
      dop rhs, s <- p_fexpr f (precedence_of (ty tok)) s;
      match binary_operator (ty tok) with
      | None => PCrash XKeyError s
      | Some (BCmp o) =>
          if right_is_grouped then PErr ESyntax (snd rhs) else
          match non_comparable (fst lhs) with
          | Some c => PErr c (tidx tok)
          | None =>
            match non_comparable (fst rhs) with
            | Some c => PErr c (tidx tok)
            | None => POk (ECmp o (fst lhs) (fst rhs), tidx tok) s
            end
          end
      | Some b =>
          if is_literal (fst lhs) then PErr ESyntax (snd lhs)
          else if is_literal (fst rhs) then PErr ESyntax (snd rhs)
          else if value_function (fst lhs) then PErr EType (snd lhs)
          else if value_function (fst rhs) then PErr EType (snd rhs)
          else POk (match b with BAnd => EAnd (fst lhs) (fst rhs) | _ => EOr (fst lhs) (fst rhs) end, tidx tok) s
      end
    end
  (* parse_grouped_expression *)
  with p_grouped (fuel : nat) (s : stream) {struct fuel} : pres (expr * Z) :=
    match fuel with O => PFuel | S f =>
      dop e, s <- p_fexpr f PRECEDENCE_LOWEST (adv s);
      dop e, s <- p_grouped_loop f e (adv s);
      if negb (is_ty T_RPAREN s) then err_cur ESyntax s
      else if is_literal (fst e) then PErr ESyntax (snd e)          (* a grouped bare literal is not a logical expression *)
      else if value_function (fst e) then PErr EType (snd e)      (* nor is the result of a value function *)
      else if is_comparison_tok (peek_ty s) then err_peek ESyntax s
      else POk e (after_peek s)
    end
  with p_grouped_loop (fuel : nat) (e : expr * Z) (s : stream) {struct fuel} : pres (expr * Z) :=
    match fuel with O => PFuel | S f =>
      if is_ty T_RPAREN s then POk e s
      else if is_ty T_EOF s then err_cur ESyntax s
      else dop e', s <- p_infix f e s; p_grouped_loop f e' s
    end
  (* parse_prefix_expression *)
  with p_prefix (fuel : nat) (s : stream) {struct fuel} : pres (expr * Z) :=
    match fuel with O => PFuel | S f =>
      let tok := cur s in
      let s := adv s in
      match cty s with
      | T_LPAREN | T_ROOT | T_CURRENT | T_FUNCTION =>
          dop rhs, s <- p_fexpr f PRECEDENCE_PREFIX s;
          if value_function (fst rhs) then PErr EType (snd rhs)
          else POk (ENot (fst rhs), tidx tok) s
      | _ => err_cur ESyntax s
      end
    end
  (* parse_function_extension *)
  with p_function (fuel : nat) (s : stream) {struct fuel} : pres (expr * Z) :=
    match fuel with O => PFuel | S f =>
      let tok := cur s in
      dop argsg, s <- p_args_loop f (adv s);
      let args := map fst argsg in
      (* env.validate_function_extension_signature(tok, args) *)
      match find_assoc (tval tok) rg with
      | None => PErr EName (tidx tok)
      | Some d =>
          if negb (length args =? length (f_args d))%nat then PErr EType (tidx tok)
          else if check_args (f_args d) args then
            (* an argument written in parentheses is a logical expression *)
            if grouped_ok (f_args d) (map snd argsg) then POk (ECall (tval tok) args, tidx tok) s
            else PErr EType (tidx tok)
          else PErr EType (tidx tok)
      end
    end
  with p_args_loop (fuel : nat) (s : stream) {struct fuel} : pres (list (expr * bool)) :=
    match fuel with O => PFuel | S f =>
      if is_ty T_RPAREN s then POk [] s else
      if negb (in_function_argument_map (cty s)) then err_cur ESyntax s else
      let grouped := is_ty T_LPAREN s in
      dop e, s <- p_primary f s;
      (* grouped stays true only if no binary operator follows the parenthesized expression *)
      let g := grouped && match binary_operator (peek_ty s) with None => true | Some _ => false end in
      dop e, s <- p_arg_infix_loop f e s;
      dop _, s <-
        (if negb (ttype_eqb (peek_ty s) T_RPAREN) then
           if negb (ttype_eqb (peek_ty s) T_COMMA) then err_peek ESyntax s else
           let s := adv (after_peek (after_peek s)) in
           if ttype_eqb (peek_ty s) T_RPAREN then err_peek ESyntax s else POk tt (after_peek s)
         else POk tt (after_peek s));
      dop es, s <- p_args_loop f (adv s);
      POk ((fst e, g) :: es) s
    end
  (* while peek_kind in self.BINARY_OPERATORS: ... *)
  with p_arg_infix_loop (fuel : nat) (e : expr * Z) (s : stream) {struct fuel} : pres (expr * Z) :=
    match fuel with O => PFuel | S f =>
      match binary_operator (peek_ty s) with
      | None => POk e (after_peek s)
      | Some _ => dop e', s <- p_infix f e (adv (after_peek s)); p_arg_infix_loop f e' s
      end
    end.

  Definition parse_fuel (toks : list token) : nat := 6 * length toks + 16.

  (* Parser.parse *)
  Definition p_parse (toks : list token) : pres query :=
    let s := stream_init toks in
    if negb (is_ty T_ROOT s) then err_cur ESyntax s else
    dop q, s <- p_query (parse_fuel toks) false (adv s);
    if negb (is_ty T_EOF s) then err_cur ESyntax s else POk q s.
End Parser.
