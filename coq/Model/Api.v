(* environment.py / query.py entry points: compile, find, finditer, find_one *)
From JP Require Export Model.Lex Model.Parse Model.Eval.

(* JSONPathEnvironment.compile *)
Definition m_compile (cfg : envcfg) (text : str) : result query :=
  do toks <- m_tokenize text;
  match p_parse cfg toks with
  | POk q _ => Ok q
  | PErr c off => Err c (Some off)
  | PCrash x _ => Crash x
  | PFuel => OutOfFuel
  end.

(* JSONPathEnvironment.find = compile(query).find(value) *)
Definition m_env_find (cfg : envcfg) (text : str) (v : json) : result (list node) :=
  do q <- m_compile cfg text; m_find cfg q v.
