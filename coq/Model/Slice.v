(* Python-side arithmetic used by selectors.IndexSelector / SliceSelector:
   list indexing, slice.indices(), range(), list[slice], zip. No proofs here. *)
From JP Require Export Base.Json.

(* slice.indices(len) for step <> 0  (CPython _PySlice_GetLongIndices) *)
Definition py_slice_indices (len : Z) (start stop step : option Z) : Z * Z * Z :=
  let st := match step with None => 1 | Some s => s end in
  let neg := st <? 0 in
  let lower := if neg then -1 else 0 in
  let upper := if neg then len - 1 else len in
  let clamp (x : option Z) (dflt : Z) :=
      match x with
      | None => dflt
      | Some v => if v <? 0
                  then (let v' := v + len in if v' <? lower then lower else v')
                  else (if upper <? v then upper else v)
      end in
  (clamp start (if neg then upper else lower), clamp stop (if neg then lower else upper), st).

(* len(range(lo, hi, step))  (CPython compute_range_length), step <> 0 *)
Definition py_range_len (lo hi step : Z) : Z :=
  if 0 <? step then (if lo <? hi then (hi - lo - 1) / step + 1 else 0)
  else (if hi <? lo then (lo - hi - 1) / (- step) + 1 else 0).

Definition py_range (lo hi step : Z) : list Z :=
  map (fun k => lo + Z.of_nat k * step) (seq 0 (Z.to_nat (py_range_len lo hi step))).

(* list[i]; None stands for IndexError *)
Definition py_list_getitem {A} (l : list A) (i : Z) : option A :=
  znth l (if i <? 0 then i + zlen l else i).

(* IndexSelector._normalized_index *)
Definition m_normalized_index (len i : Z) : Z :=
  if (i <? 0) && (Z.abs i <=? len) then len + i else i.

(* IndexSelector.resolve on a list: [(location key, element)] *)
Definition m_index_select (l : list json) (i : Z) : list (Z * json) :=
  match py_list_getitem l i with
  | Some x => [(m_normalized_index (zlen l) i, x)]
  | None => []      (* suppress(IndexError) *)
  end.

(* SliceSelector.resolve on a list:
   zip(range(lo,hi,st), value[slice]) with (lo,hi,st) = slice.indices(len),  guarded by step != 0 *)
Definition m_slice_select (l : list json) (s e t : option Z) : list (Z * json) :=
  match t with
  | Some 0 => []
  | _ =>
    let '(lo, hi, st) := py_slice_indices (zlen l) s e t in
    let idxs := py_range lo hi st in
    let elems := flat_map (fun i => match znth l i with Some x => [x] | None => [] end) idxs in
    combine idxs elems
  end.
