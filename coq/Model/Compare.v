(* filter_expressions._is_truthy / _compare / _eq / _lt on the values the evaluator produces.
   Hand-written mirror of the Python; Gen/Compare.v is the regenerated counterpart. *)
From JP Require Export Model.Ast.

Definition is_bool (v : json) : bool := match v with JBool _ => true | _ => false end.

(* Python bool(x) for a JSON value *)
Definition py_bool (v : json) : bool :=
  match v with
  | JNull => false
  | JBool b => b
  | JNum n => negb (num_is_zero n)
  | JStr s => match s with [] => false | _ => true end
  | JArr l => match l with [] => false | _ => true end
  | JObj m => match m with [] => false | _ => true end
  end.

Definition m_is_truthy (o : pyobj) : bool :=
  match o with
  | PNodes [] => false
  | PNodes _ => true
  | PNothing => false
  | PVal JNull => true
  | PVal v => py_bool v
  end.

(* _eq on two plain JSON values after the top-level bool guard: kind-strict, recursive *)
Fixpoint m_json_eq (a b : json) {struct a} : bool :=
  match a, b with
  | JNull, JNull => true
  | JBool x, JBool y => Bool.eqb x y
  | JNum x, JNum y => num_eqb x y
  | JStr x, JStr y => str_eqb x y
  | JArr x, JArr y =>
      (fix go (x y : list json) : bool :=
         match x, y with
         | [], [] => true
         | a' :: x', b' :: y' => m_json_eq a' b' && go x' y'
         | _, _ => false
         end) x y
  | JObj x, JObj y =>
      (length x =? length y)%nat &&
      (fix go (x : list (str * json)) : bool :=
         match x with
         | [] => true
         | (k, v) :: x' =>
             match find_assoc k y with
             | Some v' => m_json_eq v v' && go x'
             | None => false
             end
         end) x
  | _, _ => false
  end.

Definition m_eq (left0 right0 : pyobj) : bool :=
  let '(lhs, rhs) := match right0 with PNodes _ => (right0, left0) | _ => (left0, right0) end in
  match lhs with
  | PNodes ln =>
      match rhs with
      | PNodes rn => match ln, rn with [], [] => true | _, _ => false end   (* list == of identity-compared nodes *)
      | _ => match ln with
             | [] => match rhs with PNothing => true | _ => false end
             | _ => false       (* node == value is never true *)
             end
      end
  | PNothing => match rhs with PNothing => true | _ => false end
  | PVal l =>
      match rhs with
      | PVal r => m_json_eq l r
      | _ => false
      end
  end.

Definition m_lt (lhs rhs : pyobj) : bool :=
  match lhs, rhs with
  | PVal (JStr a), PVal (JStr b) => str_ltb a b
  | PVal (JNum a), PVal (JNum b) => num_ltb a b
  | _, _ => false
  end.

Definition m_cmp (o : cmpop) (l r : pyobj) : bool :=
  match o with
  | OEq => m_eq l r
  | ONe => negb (m_eq l r)
  | OLt => m_lt l r
  | OGt => m_lt r l
  | OGe => m_lt r l || m_eq l r
  | OLe => m_lt l r || m_eq l r
  end.
