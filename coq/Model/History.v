(* Histories of API operations over several environments (C14) and pools of result iterators (C16). *)
From JP Require Export Model.Api.

(* an environment: class-level configuration + its own registry *)
Inductive hop :=
| HNewEnv (base : envcfg)                         (* JSONPathEnvironment() or an instance of a subclass *)
| HRegister (env : nat) (name : str) (d : fdecl)  (* env.function_extensions[name] = d *)
| HCompile (env : nat) (text : str)
| HApply (cq : nat) (v : json)                    (* compiled.find(v) *)
| HFindEnv (env : nat) (text : str) (v : json)
| HFindModule (text : str) (v : json).

Record hstate := { envs : list envcfg; compiled : list (nat * query) }.
Inductive hout := HNone | HNodes (r : result (list node)) | HCompiled (r : result nat).

Definition set_reg (c : envcfg) (rg : registry) : envcfg :=
  {| min_idx := min_idx c; max_idx := max_idx c; max_depth := max_depth c; reg := rg; rx := rx c |}.
Fixpoint update_nth {A} (n : nat) (f : A -> A) (l : list A) : list A :=
  match l with [] => [] | x :: r => match n with O => f x :: r | S n' => x :: update_nth n' f r end end.

(* dflt: the module-level DEFAULT_ENV, which no operation can reach *)
Definition hstep (dflt : envcfg) (s : hstate) (o : hop) : hstate * hout :=
  match o with
  | HNewEnv base => ({| envs := envs s ++ [base]; compiled := compiled s |}, HNone)
  | HRegister e name d =>
      ({| envs := update_nth e (fun c => set_reg c ((name, d) :: reg c)) (envs s); compiled := compiled s |}, HNone)
  | HCompile e text =>
      match nth_error (envs s) e with
      | None => (s, HNone)
      | Some c => match m_compile c text with
                  | Ok q => ({| envs := envs s; compiled := compiled s ++ [(e, q)] |}, HCompiled (Ok (length (compiled s))))
                  | Err a b => (s, HCompiled (Err a b))
                  | Crash x => (s, HCompiled (Crash x))
                  | OutOfFuel => (s, HCompiled OutOfFuel)
                  end
      end
  | HApply cq v =>
      match nth_error (compiled s) cq with
      | None => (s, HNone)
      | Some (e, q) => match nth_error (envs s) e with
                       | None => (s, HNone)
                       | Some c => (s, HNodes (m_find c q v))      (* functions are looked up at evaluation time *)
                       end
      end
  | HFindEnv e text v =>
      match nth_error (envs s) e with
      | None => (s, HNone)
      | Some c => (s, HNodes (m_env_find c text v))
      end
  | HFindModule text v => (s, HNodes (m_env_find dflt text v))
  end.

Fixpoint hrun (dflt : envcfg) (s : hstate) (ops : list hop) : hstate * list hout :=
  match ops with
  | [] => (s, [])
  | o :: r => let '(s1, x) := hstep dflt s o in let '(s2, xs) := hrun dflt s1 r in (s2, x :: xs)
  end.

(* --- iterator pools (C16) -------------------------------------------------------------------- *)
(* a live iterator is what remains of its sequence; an exhausted one stays exhausted *)
Definition pool := list (list node).
Definition pnext (p : pool) (i : nat) : pool * option node :=
  match nth_error p i with
  | Some (x :: r) => (update_nth i (fun _ => r) p, Some x)
  | _ => (p, None)
  end.
Fixpoint prun (p : pool) (sched : list nat) : list (nat * option node) :=
  match sched with
  | [] => []
  | i :: r => let '(p', x) := pnext p i in (i, x) :: prun p' r
  end.
