(* Descendant traversal on finite rooted graphs (C18): Python data may be self-referential, so the input of the
   traversal is modelled as a graph of container/scalar cells.  [gvisit] recurses on the remaining depth budget
   (max_recursion_depth + 1 - depth), which is the code's own termination argument and terminates on cycles. *)
From JP Require Export Base.Json.

Inductive cell := CScalar | CArr (kids : list nat) | CObj (kids : list (str * nat)).
Definition graph := list cell.
Definition cell_of (g : graph) (id : nat) : cell := nth id g CScalar.
Definition is_cont (c : cell) : bool := match c with CScalar => false | _ => true end.
Definition kids_of (c : cell) : list (key * nat) :=
  match c with
  | CScalar => []
  | CArr ks => map (fun p => (KIdx (fst p), snd p)) (enum_from 0 ks)
  | CObj ks => map (fun p => (KName (fst p), snd p)) ks
  end.

(* RecursiveDescentSegment._visit: locations of the visited containers (the start cell whatever its kind),
   pre-order; depth test before yielding; budget = limit + 1 - depth *)
Fixpoint gvisit (g : graph) (budget : nat) (loc : list key) (id : nat) {struct budget} : result (list (list key * nat)) :=
  match budget with
  | O => Err ERecursion None
  | S b =>
      do rest <- flat_mapM (fun kc => if is_cont (cell_of g (snd kc)) then gvisit g b (loc ++ [fst kc]) (snd kc) else Ok [])
                           (kids_of (cell_of g id));
      Ok ((loc, id) :: rest)
  end.

(* what `$..*` returns: the locations of the children of every visited cell, in order *)
Definition gdesc_wild (g : graph) (limit : nat) : result (list (list key)) :=
  do vs <- gvisit g limit [] 0;
  Ok (flat_map (fun v => map (fun kc => fst v ++ [fst kc]) (kids_of (cell_of g (snd v)))) vs).

(* a chain of n containers starting at id, following child edges *)
Inductive cchain (g : graph) : nat -> nat -> Prop :=
| CC_one id : is_cont (cell_of g id) = true -> cchain g id 1
| CC_step id k kid n : In (k, kid) (kids_of (cell_of g id)) -> is_cont (cell_of g id) = true -> cchain g kid n -> cchain g id (S n).
