(* vocabulary of the regenerated effect inventory (Gen/Effects.v) *)
From JP Require Export Base.Prelude.
Inductive ekind := KAttr | KItem | KCall | KGlobal | KDecor.       (* attribute store, item store, mutator call, global stmt, decorator *)
Inductive eroot := RSelf | RLocal | RAlias | RParam | RExc | RGlobal | RExpr.
Record effect := { e_mod : nat; e_cls : str; e_fn : str; e_kind : ekind; e_root : eroot; e_what : str }.
Record binding := { b_mod : nat; b_cls : str; b_name : str; b_value : str }.
