(* function_extensions/_pattern.map_re: the only regex logic that lives in this repository *)
From JP Require Export Base.Prelude.

(* r"(?:(?![\r\n])\P{Cs}|\p{Cs}\p{Cs})" *)
Definition dot_replacement : str :=
  [40;63;58;40;63;33;91;92;114;92;110;93;41;92;80;123;67;115;125;124;92;112;123;67;115;125;92;112;123;67;115;125;41]%N.

Fixpoint map_re_loop (s : str) (escaped char_class : bool) : str :=
  match s with
  | [] => []
  | ch :: r =>
      if escaped then ch :: map_re_loop r false char_class
      else if N.eqb ch 46 then (if char_class then [ch] else dot_replacement) ++ map_re_loop r false char_class
      else if N.eqb ch 92 then ch :: map_re_loop r true char_class
      else if N.eqb ch 91 then ch :: map_re_loop r false true
      else if N.eqb ch 93 then ch :: map_re_loop r false false
      else ch :: map_re_loop r false char_class
  end.
Definition m_map_re (pattern : str) : str := map_re_loop pattern false false.
