(* _nondeterministic_visit / _nondeterministic_children on data that may be self-referential (C18, nondeterministic mode): the
   same loop as Model/NdVisit.v - pending children generators with the depth of their children, a generator chosen by
   random.randrange, scalars passed over, the depth test when a container is reached - over the cells of a finite graph
   (Model/Descent.v) instead of a JSON tree.  A node is a location and a cell index; the Python code has no loop bound, the
   model takes one as an argument (Proofs/NdGraphSim.v: a bound computed from graph and limit always suffices). *)
From JP Require Export Model.Descent Model.NdVisit.

Definition gnode := (list key * nat)%type.

Section NdGraph.
  Variable g : graph.

  Definition gchildren (n : gnode) : list gnode := map (fun kc => (fst n ++ [fst kc], snd kc)) (kids_of (cell_of g (snd n))).
  Definition g_isobj (n : gnode) : bool := match cell_of g (snd n) with CObj _ => true | _ => false end.
  Definition g_iscont (n : gnode) : bool := is_cont (cell_of g (snd n)).

  Inductive ggen_state := GUnstarted (n : gnode) | GRemaining (ns : list gnode).
  Definition gpending := list (ggen_state * nat).

  Definition ggen_next (script : list Z) (s : ggen_state) : option gnode * ggen_state * list Z :=
    match s with
    | GRemaining (x :: r) => (Some x, GRemaining r, script)
    | GRemaining [] => (None, GRemaining [], script)
    | GUnstarted n =>
        let '(items, script') := if g_isobj n then shuffle script (gchildren n) else (gchildren n, script) in
        match items with
        | x :: r => (Some x, GRemaining r, script')
        | [] => (None, GRemaining [], script')
        end
    end.

  Fixpoint gdrain (fuel : nat) (script : list Z) (s : ggen_state) (skipped : list gnode) : list gnode * option gnode * ggen_state * list Z :=
    match fuel with
    | O => (skipped, None, s, script)
    | S f =>
        match ggen_next script s with
        | (None, s', script') => (skipped, None, s', script')
        | (Some nd, s', script') =>
            if g_iscont nd then (skipped, Some nd, s', script')
            else gdrain f script' s' (skipped ++ [nd])
        end
    end.

  Fixpoint gnd_loop (fuel : nat) (limit : nat) (script : list Z) (pend : gpending) (acc : list gnode) : result (list gnode) :=
    match fuel with
    | O => OutOfFuel
    | S f =>
        match pend with
        | [] => Ok (rev acc)
        | _ =>
            let '(r, script1) := take1 script in
            let idx := Z.to_nat (r mod zlen pend) in
            match nth_error pend idx with
            | None => Crash XIndexError
            | Some (s, depth) =>
                match gdrain (S fuel) script1 s [] with
                | (skipped, None, _, script2) => gnd_loop f limit script2 (remove_nth idx pend) (rev skipped ++ acc)
                | (skipped, Some nd, s', script2) =>
                    if (limit <? depth)%nat then Err ERecursion None
                    else gnd_loop f limit script2 (set_nth idx (s', depth) pend ++ [(GUnstarted nd, S depth)]) (nd :: rev skipped ++ acc)
                end
            end
        end
    end.

  (* _nondeterministic_visit(root, depth=1) within [fuel] iterations of its loop *)
  Definition gnd_visit (fuel limit : nat) (script : list Z) (root : gnode) : result (list gnode) :=
    if (limit <? 1)%nat then Err ERecursion None
    else gnd_loop fuel limit script [(GUnstarted root, 2%nat)] [root].
End NdGraph.
