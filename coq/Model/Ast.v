(* Abstract syntax of a compiled query, shared by model and specification. *)
From JP Require Export Base.Json.

Inductive ty3 := TValue | TLogical | TNodes.
Inductive cmpop := OEq | ONe | OLt | OLe | OGt | OGe.

Inductive sel :=
| SName (s : str)
| SIndex (i : Z)
| SSlice (a b c : option Z)
| SWild
| SFilter (e : expr)
with expr :=
| ELit (v : json)                      (* int, float, string, true, false, null *)
| ERel (q : list seg)                  (* @... *)
| EAbs (q : list seg)                  (* $... *)
| ECall (f : str) (args : list expr)
| ENot (e : expr)
| EAnd (a b : expr)
| EOr (a b : expr)
| ECmp (o : cmpop) (a b : expr)
with seg :=
| Child (ss : list sel)
| Desc (ss : list sel).

Definition query := list seg.

(* values that flow through filter-expression evaluation in the implementation *)
Inductive pyobj :=
| PVal (v : json)            (* a Python value: literal, unwrapped node value, function result *)
| PNodes (ns : list node)    (* JSONPathNodeList *)
| PNothing.                  (* the NOTHING singleton *)

(* function extensions: declared signature and how the model computes the result *)
Inductive fimpl :=
| FLength | FCount | FValue | FMatch | FSearch
| FConst (p : pyobj)         (* test double: ignores its arguments *)
| FFirst.                    (* test double: returns its first argument as received *)
Record fdecl := { f_args : list ty3; f_ret : ty3; f_impl : fimpl }.
Definition registry := list (str * fdecl).

Definition ty3_eqb (a b : ty3) : bool :=
  match a, b with TValue, TValue | TLogical, TLogical | TNodes, TNodes => true | _, _ => false end.

Definition s_length : str := [108; 101; 110; 103; 116; 104]%N.
Definition s_count : str := [99; 111; 117; 110; 116]%N.
Definition s_value : str := [118; 97; 108; 117; 101]%N.
Definition s_match : str := [109; 97; 116; 99; 104]%N.
Definition s_search : str := [115; 101; 97; 114; 99; 104]%N.

(* JSONPathEnvironment.setup_function_extensions *)
Definition builtin_registry : registry :=
  [ (s_length, {| f_args := [TValue]; f_ret := TValue; f_impl := FLength |});
    (s_count, {| f_args := [TNodes]; f_ret := TValue; f_impl := FCount |});
    (s_match, {| f_args := [TValue; TValue]; f_ret := TLogical; f_impl := FMatch |});
    (s_search, {| f_args := [TValue; TValue]; f_ret := TLogical; f_impl := FSearch |});
    (s_value, {| f_args := [TNodes]; f_ret := TValue; f_impl := FValue |}) ].

Record envcfg := {
  min_idx : Z; max_idx : Z;       (* min_int_index, max_int_index *)
  max_depth : nat;                (* max_recursion_depth *)
  reg : registry;
  rx : bool -> str -> str -> bool (* regex engines: rx search? subject pattern; an oracle, see C11 *)
}.
