(* lex.py: the lexer as a state machine.  Each Python state function is one case of [lex_step];
   a `continue` inside a state function's loop is "return the same state". *)
From JP Require Export Base.Prelude Model.Regex Model.Tokens.

(* --- the regular expressions and ESCAPES of lex.py (regenerated copy: Gen/LexConst.v) --- *)
Definition cls_digit : list (N * N) := [(48, 57)]%N.
Definition re_digits : re := RPlus (RClass false cls_digit).
Definition re_minus_opt : re := ROpt (RChar 45).
Definition re_eE : re := RClass false [(101, 101); (69, 69)]%N.

Definition RE_WHITESPACE : re := RPlus (RClass false [(32, 32); (10, 10); (13, 13); (9, 9)]%N).
Definition cls_name_first : list (N * N) := [(128, 55295); (57344, 1114111); (97, 122); (65, 90); (95, 95)]%N.
Definition cls_name_char : list (N * N) := [(128, 55295); (57344, 1114111); (97, 122); (65, 90); (48, 57); (95, 95)]%N.
Definition RE_PROPERTY : re := RSeq (RClass false cls_name_first) (RStar (RClass false cls_name_char)).
Definition RE_INDEX : re := RSeq re_minus_opt re_digits.
Definition RE_INT : re :=
  RSeq re_minus_opt (RSeq re_digits (ROpt (RSeq re_eE (RSeq (ROpt (RChar 43)) re_digits)))).
(* (:?-?[0-9]+\.[0-9]+(?:[eE][+-]?[0-9]+)?)|(-?[0-9]+[eE]-[0-9]+)   -- the leading ":?" is in the source *)
Definition RE_FLOAT : re :=
  RAlt (RSeq (ROpt (RChar 58)) (RSeq re_minus_opt (RSeq re_digits (RSeq (RChar 46) (RSeq re_digits
          (ROpt (RSeq re_eE (RSeq (ROpt (RClass false [(43, 43); (45, 45)]%N)) re_digits))))))))
       (RSeq re_minus_opt (RSeq re_digits (RSeq re_eE (RSeq (RChar 45) re_digits)))).
Definition RE_FUNCTION_NAME : re :=
  RSeq (RClass false [(97, 122)]%N) (RStar (RClass false [(97, 122); (95, 95); (48, 57)]%N)).
(* frozenset(["b", "f", "n", "r", "t", "u", "/", "\\"]) *)
Definition ESCAPES : list N := [98; 102; 110; 114; 116; 117; 47; 92]%N.

Record lexer := {
  l_rest : list N;            (* query[pos:] *)
  l_cur : list N;             (* query[start:pos], reversed *)
  l_start : Z; l_pos : Z;
  l_fdepth : Z;               (* filter_depth *)
  l_ffd : list Z;             (* filter_func_depth *)
  l_fcs : list Z;             (* func_call_stack, top first *)
  l_bs : list (N * Z);        (* bracket_stack, top first *)
  l_toks : list token         (* tokens, last first *)
}.

Inductive lstate := SRoot | SSegment | SDescendant | SShorthand | SBracket | SFilter
                  | SString (quote : N) (in_filter : bool) | SStringBody (quote : N) (in_filter : bool).

Inductive lexout :=
| LNext (s : lstate) (l : lexer)
| LStop (l : lexer)
| LRaise (c : jperr) (off : Z)
| LCrash (x : pyexn).

Definition upd_text (l : lexer) rest cur start pos : lexer :=
  {| l_rest := rest; l_cur := cur; l_start := start; l_pos := pos; l_fdepth := l_fdepth l; l_ffd := l_ffd l;
     l_fcs := l_fcs l; l_bs := l_bs l; l_toks := l_toks l |}.

Definition l_next (l : lexer) : option N * lexer :=
  match l_rest l with
  | c :: r => (Some c, upd_text l r (c :: l_cur l) (l_start l) (l_pos l + 1))
  | [] => (None, l)
  end.
Definition l_peek (l : lexer) : option N := match l_rest l with c :: _ => Some c | [] => None end.
Definition l_ignore (l : lexer) : lexer := upd_text l (l_rest l) [] (l_pos l) (l_pos l).
(* backup: None stands for JSONPathSyntaxError("unexpected end of expression") at pos *)
Definition l_backup (l : lexer) : option lexer :=
  match l_cur l with
  | c :: cur' => Some (upd_text l (c :: l_rest l) cur' (l_start l) (l_pos l - 1))
  | [] => None
  end.
Definition add_tok (l : lexer) (t : token) : lexer :=
  {| l_rest := l_rest l; l_cur := l_cur l; l_start := l_start l; l_pos := l_pos l; l_fdepth := l_fdepth l;
     l_ffd := l_ffd l; l_fcs := l_fcs l; l_bs := l_bs l; l_toks := t :: l_toks l |}.
Definition l_emit (t : ttype) (l : lexer) : lexer :=
  l_ignore (add_tok l {| ty := t; tval := rev (l_cur l); tidx := l_start l |}).
Definition l_error (l : lexer) : lexout :=
  LStop (add_tok l {| ty := T_ERROR; tval := rev (l_cur l); tidx := l_start l |}).
Fixpoint skipn_push (n : nat) (rest cur : list N) : list N * list N :=
  match n with
  | O => (rest, cur)
  | S n' => match rest with c :: r => skipn_push n' r (c :: cur) | [] => (rest, cur) end
  end.
Definition l_advance (l : lexer) (n : Z) : lexer :=
  let '(r, c) := skipn_push (Z.to_nat n) (l_rest l) (l_cur l) in upd_text l r c (l_start l) (l_pos l + n).
Definition l_accept_match (r : re) (l : lexer) : bool * lexer :=
  match re_match r (l_rest l) with
  | Some n => (true, l_advance l n)
  | None => (false, l)
  end.
Fixpoint is_prefix (p s : list N) : bool :=
  match p with
  | [] => true
  | c :: p' => match s with d :: s' => N.eqb c d && is_prefix p' s' | [] => false end
  end.
Definition l_accept (p : list N) (l : lexer) : bool * lexer :=
  if is_prefix p (l_rest l) then (true, l_advance l (zlen p)) else (false, l).
(* ignore_whitespace: Err = JSONPathLexerError at pos *)
Definition l_ignore_ws (l : lexer) : option (bool * lexer) :=
  match l_cur l with
  | _ :: _ => None
  | [] => let '(b, l') := l_accept_match RE_WHITESPACE l in Some (b, if b then l_ignore l' else l')
  end.
Definition set_stacks (l : lexer) fdepth ffd fcs bs : lexer :=
  {| l_rest := l_rest l; l_cur := l_cur l; l_start := l_start l; l_pos := l_pos l; l_fdepth := fdepth;
     l_ffd := ffd; l_fcs := fcs; l_bs := bs; l_toks := l_toks l |}.
Definition push_bracket (c : N) (idx : Z) (l : lexer) : lexer :=
  set_stacks l (l_fdepth l) (l_ffd l) (l_fcs l) ((c, idx) :: l_bs l).
Definition ceq (o : option N) (c : N) : bool := match o with Some d => N.eqb d c | None => false end.

Definition s_true : list N := [116; 114; 117; 101]%N.
Definition s_false : list N := [102; 97; 108; 115; 101]%N.
Definition s_null : list N := [110; 117; 108; 108]%N.

Definition emit2 (l : lexer) (second : N) (t2 t1 : ttype) : lexer :=
  if ceq (l_peek l) second then l_emit t2 (snd (l_next l)) else l_emit t1 l.

Definition lex_step (st : lstate) (l : lexer) : lexout :=
  match st with
  | SRoot =>
      let '(c, l1) := l_next l in
      if ceq c 36 then LNext SSegment (l_emit T_ROOT l1) else l_error l1
  | SSegment =>
      match l_ignore_ws l with
      | None => LRaise ELexer (l_pos l)
      | Some (ws, l0) =>
        if ws && match l_peek l0 with None => true | Some _ => false end then l_error l0 else
        let '(c, l1) := l_next l0 in
        match c with
        | None => LStop (l_emit T_EOF l1)
        | Some c' =>
          if N.eqb c' 46 then
            (if ceq (l_peek l1) 46 then LNext SDescendant (l_emit T_DOUBLE_DOT (snd (l_next l1)))
             else LNext SShorthand l1)
          else if N.eqb c' 91 then LNext SBracket (push_bracket 91 (l_pos l1 - 1) (l_emit T_LBRACKET l1))
          else if negb (l_fdepth l1 =? 0) then
            match l_backup l1 with Some l2 => LNext SFilter l2 | None => LRaise ESyntax (l_pos l1) end
          else l_error l1
        end
      end
  | SDescendant =>
      let '(c, l1) := l_next l in
      match c with
      | None => l_error l1
      | Some c' =>
        if N.eqb c' 42 then LNext SSegment (l_emit T_WILD l1)
        else if N.eqb c' 91 then LNext SBracket (push_bracket 91 (l_pos l1 - 1) (l_emit T_LBRACKET l1))
        else match l_backup l1 with
             | None => LRaise ESyntax (l_pos l1)
             | Some l2 =>
               let '(b, l3) := l_accept_match RE_PROPERTY l2 in
               if b then LNext SSegment (l_emit T_PROPERTY l3) else l_error (snd (l_next l3))
             end
      end
  | SShorthand =>
      let l0 := l_ignore l in
      let '(w, l1) := l_accept_match RE_WHITESPACE l0 in
      if w then l_error l1 else
      let '(c, l2) := l_next l1 in
      if ceq c 42 then LNext SSegment (l_emit T_WILD l2) else
      match l_backup l2 with
      | None => LRaise ESyntax (l_pos l2)
      | Some l3 =>
        let '(b, l4) := l_accept_match RE_PROPERTY l3 in
        if b then LNext SSegment (l_emit T_PROPERTY l4) else l_error l4
      end
  | SBracket =>
      match l_ignore_ws l with
      | None => LRaise ELexer (l_pos l)
      | Some (_, l0) =>
        let '(c, l1) := l_next l0 in
        match c with
        | None => l_error l1
        | Some c' =>
          if N.eqb c' 93 then
            match l_bs l1 with
            | (91%N, _) :: bs' => LNext SSegment (l_emit T_RBRACKET (set_stacks l1 (l_fdepth l1) (l_ffd l1) (l_fcs l1) bs'))
            | _ => match l_backup l1 with Some l2 => l_error l2 | None => LRaise ESyntax (l_pos l1) end
            end
          else if N.eqb c' 42 then LNext SBracket (l_emit T_WILD l1)
          else if N.eqb c' 63 then
            let l2 := l_emit T_FILTER l1 in
            LNext SFilter (set_stacks l2 (l_fdepth l2 + 1) (zlen (l_fcs l2) :: l_ffd l2) (l_fcs l2) (l_bs l2))
          else if N.eqb c' 44 then LNext SBracket (l_emit T_COMMA l1)
          else if N.eqb c' 58 then LNext SBracket (l_emit T_COLON l1)
          else if N.eqb c' 39 then LNext (SString 39 false) l1
          else if N.eqb c' 34 then LNext (SString 34 false) l1
          else match l_backup l1 with
               | None => LRaise ESyntax (l_pos l1)
               | Some l2 =>
                 let '(b, l3) := l_accept_match RE_INDEX l2 in
                 if b then LNext SBracket (l_emit T_INDEX l3) else l_error l3
               end
        end
      end
  | SFilter =>
      match l_ignore_ws l with
      | None => LRaise ELexer (l_pos l)
      | Some (_, l0) =>
        let '(c, l1) := l_next l0 in
        match c with
        | None => l_error l1
        | Some c' =>
          if N.eqb c' 93 then
            match l_ffd l1 with
            | [] => LCrash XIndexError
            | _ :: ffd' =>
              match l_backup (set_stacks l1 (l_fdepth l1 - 1) ffd' (l_fcs l1) (l_bs l1)) with
              | Some l2 => LNext SBracket l2 | None => LRaise ESyntax (l_pos l1) end
            end
          else if N.eqb c' 44 then
            let l2 := l_emit T_COMMA l1 in
            match l_ffd l2 with
            | [] => LCrash XIndexError
            | d :: ffd' =>
              if d <? zlen (l_fcs l2) then LNext SFilter l2
              else LNext SBracket (set_stacks l2 (l_fdepth l2 - 1) ffd' (l_fcs l2) (l_bs l2))
            end
          else if N.eqb c' 39 then LNext (SString 39 true) l1
          else if N.eqb c' 34 then LNext (SString 34 true) l1
          else if N.eqb c' 40 then
            let l2 := push_bracket 40 (l_pos l1 - 1) (l_emit T_LPAREN l1) in
            LNext SFilter (match l_fcs l2 with
                           | n :: fcs' => set_stacks l2 (l_fdepth l2) (l_ffd l2) (n + 1 :: fcs') (l_bs l2)
                           | [] => l2 end)
          else if N.eqb c' 41 then
            match l_bs l1 with
            | (40%N, _) :: bs' =>
              let l2 := l_emit T_RPAREN (set_stacks l1 (l_fdepth l1) (l_ffd l1) (l_fcs l1) bs') in
              LNext SFilter (match l_fcs l2 with
                             | n :: fcs' => set_stacks l2 (l_fdepth l2) (l_ffd l2) (if n =? 1 then fcs' else n - 1 :: fcs') (l_bs l2)
                             | [] => l2 end)
            | _ => match l_backup l1 with Some l2 => l_error l2 | None => LRaise ESyntax (l_pos l1) end
            end
          else if N.eqb c' 36 then LNext SSegment (l_emit T_ROOT l1)
          else if N.eqb c' 64 then LNext SSegment (l_emit T_CURRENT l1)
          else if N.eqb c' 46 then
            match l_backup l1 with Some l2 => LNext SSegment l2 | None => LRaise ESyntax (l_pos l1) end
          else if N.eqb c' 33 then LNext SFilter (emit2 l1 61 T_NE T_NOT)
          else if N.eqb c' 61 then
            (if ceq (l_peek l1) 61 then LNext SFilter (l_emit T_EQ (snd (l_next l1)))
             else match l_backup l1 with Some l2 => l_error l2 | None => LRaise ESyntax (l_pos l1) end)
          else if N.eqb c' 60 then LNext SFilter (emit2 l1 61 T_LE T_LT)
          else if N.eqb c' 62 then LNext SFilter (emit2 l1 61 T_GE T_GT)
          else
            match l_backup l1 with
            | None => LRaise ESyntax (l_pos l1)
            | Some l2 =>
              (* func_match = RE_FUNCTION_NAME.match(query, pos); followed by "(" ? *)
              let '(b0, a0) := l_accept_match RE_FUNCTION_NAME l2 in
              if b0 && ceq (l_peek a0) 40 then
                let l3 := set_stacks a0 (l_fdepth a0) (l_ffd a0) (1 :: l_fcs a0) (l_bs a0) in
                let l4 := l_emit T_FUNCTION l3 in
                let l5 := push_bracket 40 (l_pos l4) l4 in
                LNext SFilter (l_ignore (snd (l_next l5)))
              else
              let '(b1, a1) := l_accept [38; 38]%N l2 in if b1 then LNext SFilter (l_emit T_AND a1) else
              let '(b2, a2) := l_accept [124; 124]%N l2 in if b2 then LNext SFilter (l_emit T_OR a2) else
              let '(b3, a3) := l_accept s_true l2 in if b3 then LNext SFilter (l_emit T_TRUE a3) else
              let '(b4, a4) := l_accept s_false l2 in if b4 then LNext SFilter (l_emit T_FALSE a4) else
              let '(b5, a5) := l_accept s_null l2 in if b5 then LNext SFilter (l_emit T_NULL a5) else
              let '(b6, a6) := l_accept_match RE_FLOAT l2 in if b6 then LNext SFilter (l_emit T_FLOAT a6) else
              let '(b7, a7) := l_accept_match RE_INT l2 in if b7 then LNext SFilter (l_emit T_INT a7) else
              l_error l2
            end
        end
      end
  | SString q inf =>
      let l0 := l_ignore l in
      match l_peek l0 with
      | None =>
          let tt := if N.eqb q 39 then T_SQ_STRING else T_DQ_STRING in
          LNext (if inf then SFilter else SBracket) (l_ignore (snd (l_next (l_emit tt l0))))
      | Some _ => LNext (SStringBody q inf) l0
      end
  | SStringBody q inf =>
      let '(c, l1) := l_next l in
      match c with
      | None => l_error l1
      | Some c' =>
        if N.eqb c' 92 then
          match l_peek l1 with
          | Some p => if existsb (N.eqb p) ESCAPES || N.eqb p q then LNext (SStringBody q inf) (snd (l_next l1))
                      else l_error l1
          | None => l_error l1
          end
        else if N.eqb c' q then
          match l_backup l1 with
          | None => LRaise ESyntax (l_pos l1)
          | Some l2 =>
            let tt := if N.eqb q 39 then T_SQ_STRING else T_DQ_STRING in
            LNext (if inf then SFilter else SBracket) (l_ignore (snd (l_next (l_emit tt l2))))
          end
        else LNext (SStringBody q inf) l1
      end
  end.

Fixpoint lex_run (fuel : nat) (st : lstate) (l : lexer) : result lexer :=
  match fuel with
  | O => OutOfFuel
  | S f =>
    match lex_step st l with
    | LNext st' l' => lex_run f st' l'
    | LStop l' => Ok l'
    | LRaise c off => Err c (Some off)
    | LCrash x => Crash x
    end
  end.

Definition lexer_init (q : str) : lexer :=
  {| l_rest := q; l_cur := []; l_start := 0; l_pos := 0; l_fdepth := 0; l_ffd := []; l_fcs := []; l_bs := []; l_toks := [] |}.

Definition lex_fuel (q : str) : nat := 4 * length q + 16.

(* lex.tokenize *)
Definition m_tokenize (q : str) : result (list token) :=
  do l <- lex_run (lex_fuel q) SRoot (lexer_init q);
  match l_toks l with
  | t :: _ => if ttype_eqb (ty t) T_ERROR then Err ESyntax (Some (tidx t)) else
              match l_bs l with
              | (_, idx) :: _ => Err ESyntax (Some idx)
              | [] => Ok (rev (l_toks l))
              end
  | [] => match l_bs l with (_, idx) :: _ => Err ESyntax (Some idx) | [] => Ok [] end
  end.
