(* float(str) for the number spellings the lexer produces: correctly rounded (round-half-even)
   decimal -> binary64 in exact integer arithmetic; int(float).  Validated bit-for-bit against CPython. *)
From JP Require Export Base.Json.

Definition is_digit (c : N) : bool := ((48 <=? c) && (c <=? 57))%N.
Fixpoint take_digits (s : list N) : list N * list N :=
  match s with
  | c :: s' => if is_digit c then let '(d, r) := take_digits s' in (c :: d, r) else ([], s)
  | [] => ([], [])
  end.
Definition digits_val (ds : list N) : Z := fold_left (fun a d => a * 10 + (Z.of_N d - 48)) ds 0.

Record decimal := { d_neg : bool; d_mant : Z; d_exp10 : Z; d_ndig : Z }.

(* -?digits(.digits)?([eE][+-]?digits)?  ; anything else is a ValueError (None) *)
Definition hd_is (c : N) (s : str) : bool := match s with d :: _ => N.eqb d c | [] => false end.

Definition parse_decimal (s : str) : option decimal :=
  let neg := hd_is 45 s in
  let s1 := if neg then tl s else s in
  let '(ip, s2) := take_digits s1 in
  match ip with
  | [] => None
  | _ =>
    let '(fp, s3) := if hd_is 46 s2 then take_digits (tl s2) else ([], s2) in      (* "1." is a valid float text *)
    match s3 with
    | [] => Some {| d_neg := neg; d_mant := digits_val (ip ++ fp); d_exp10 := - zlen fp; d_ndig := zlen (ip ++ fp) |}
    | _ =>
      if hd_is 101 s3 || hd_is 69 s3 then
        let r := tl s3 in
        let eneg := hd_is 45 r in
        let r1 := if eneg || hd_is 43 r then tl r else r in
        let '(ed, r2) := take_digits r1 in
        match ed, r2 with
        | _ :: _, [] =>
            let ev := digits_val ed in
            Some {| d_neg := neg; d_mant := digits_val (ip ++ fp); d_exp10 := (if eneg then - ev else ev) - zlen fp; d_ndig := zlen (ip ++ fp) |}
        | _, _ => None
        end
      else None
    end
  end.

Fixpoint strip_twos (fuel : nat) (m e : Z) : Z * Z :=
  match fuel with
  | O => (m, e)
  | S f => if (m =? 0) then (0, 0) else if Z.even m then strip_twos f (m / 2) (e + 1) else (m, e)
  end.

(* positive rational num/den -> nearest binary64 (half-even), as canonical (m, e), or None for overflow *)
Definition round_ratio (num den : Z) : option (Z * Z) :=
  let L := Z.log2 num - Z.log2 den in
  let quo e := if 0 <=? e then num / (den * 2 ^ e) else (num * 2 ^ (- e)) / den in
  let e0 := L - 52 in
  let e1 := if quo e0 <? 2 ^ 52 then e0 - 1 else if 2 ^ 53 <=? quo e0 then e0 + 1 else e0 in
  let e := Z.max e1 (-1074) in
  let '(q, r, d) := if 0 <=? e then (num / (den * 2 ^ e), num mod (den * 2 ^ e), den * 2 ^ e)
                    else ((num * 2 ^ (- e)) / den, (num * 2 ^ (- e)) mod den, den) in
  let q' := if d <? 2 * r then q + 1 else if (d =? 2 * r) && Z.odd q then q + 1 else q in
  if q' =? 0 then Some (0, 0)
  else if 1024 <=? Z.log2 q' + e then None
  else Some (strip_twos 64 q' e).

Definition float_of_decimal (d : decimal) : num :=
  if d_mant d =? 0 then (if d_neg d then NNegZero else NFlt 0 0)
  else if 400 <? d_exp10 d + d_ndig d then NInf (d_neg d)
  else if d_exp10 d + d_ndig d <? -400 then (if d_neg d then NNegZero else NFlt 0 0)
  else
    let r := if 0 <=? d_exp10 d then round_ratio (d_mant d * 10 ^ d_exp10 d) 1
             else round_ratio (d_mant d) (10 ^ (- d_exp10 d)) in
    match r with
    | None => NInf (d_neg d)
    | Some (0, _) => if d_neg d then NNegZero else NFlt 0 0
    | Some (m, e) => NFlt (if d_neg d then - m else m) e
    end.

(* float(text): None = ValueError *)
Definition py_float (s : str) : option num :=
  match parse_decimal s with Some d => Some (float_of_decimal d) | None => None end.

(* int(x) for a float x: truncation; None = OverflowError (infinity) *)
Definition py_int_of_float (x : num) : option Z :=
  match x with
  | NInt z => Some z
  | NFlt m e => Some (if 0 <=? e then m * 2 ^ e else Z.quot m (2 ^ (- e)))
  | NNegZero => Some 0
  | NInf _ => None
  end.
