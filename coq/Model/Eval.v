(* Deterministic evaluation: selectors.py, segments.py, filter_expressions.py evaluate(), the
   built-in function bodies, query.py find().  Generator pipelines are collected segment by segment;
   only the final list and the class of the first error are observable through find(). *)
From JP Require Export Model.Ast Model.Compare Model.Slice.

Definition mk_child (n : node) (k : key) (v : json) : node := (fst n ++ [k], v).

(* RecursiveDescentSegment._visit: pre-order over containers, depth test before yielding.
   The start node is yielded whatever its kind; below it only containers are visited. *)
Fixpoint m_visit (limit d : nat) (loc : list key) (v : json) {struct v} : result (list node) :=
  if (limit <? d)%nat then Err ERecursion None else
  match v with
  | JArr l =>
      do rest <- (fix go (i : Z) (l : list json) : result (list node) :=
                    match l with
                    | [] => Ok []
                    | x :: xs =>
                        do a <- (if is_container x then m_visit limit (S d) (loc ++ [KIdx i]) x else Ok []);
                        do b <- go (i + 1) xs; Ok (a ++ b)
                    end) 0 l;
      Ok ((loc, v) :: rest)
  | JObj m =>
      do rest <- (fix go (m : list (str * json)) : result (list node) :=
                    match m with
                    | [] => Ok []
                    | (k, x) :: xs =>
                        do a <- (if is_container x then m_visit limit (S d) (loc ++ [KName k]) x else Ok []);
                        do b <- go xs; Ok (a ++ b)
                    end) m;
      Ok ((loc, v) :: rest)
  | _ => Ok [(loc, v)]
  end.

(* the built-in function bodies and the two test doubles; None of Python's exceptions is swallowed here
   except where the source does (Length catches TypeError) *)
Definition m_py_len (o : pyobj) : option Z :=
  match o with
  | PVal (JStr s) => Some (zlen s)
  | PVal (JArr l) => Some (zlen l)
  | PVal (JObj m) => Some (zlen m)
  | PNodes ns => Some (zlen ns)
  | _ => None                     (* TypeError: object of type ... has no len() *)
  end.

Definition m_apply (cfg : envcfg) (d : fdecl) (args : list pyobj) : result pyobj :=
  match f_impl d, args with
  | FLength, [o] => match m_py_len o with Some n => Ok (PVal (JNum (NInt n))) | None => Ok PNothing end
  | FCount, [o] => match m_py_len o with Some n => Ok (PVal (JNum (NInt n))) | None => Crash XTypeError end
  | FValue, [o] =>
      match o with
      | PNodes [n] => Ok (PVal (snd n))
      | PNodes _ => Ok PNothing
      | _ => match m_py_len o with
             | Some 1 => Crash XAttribute      (* nodes[0].value on a non-node *)
             | Some _ => Ok PNothing
             | None => Crash XTypeError
             end
      end
  | FMatch, [s; p] =>
      match s, p with
      | PVal (JStr s'), PVal (JStr p') => Ok (PVal (JBool (rx cfg false s' p')))
      | _, _ => Ok (PVal (JBool false))
      end
  | FSearch, [s; p] =>
      match s, p with
      | PVal (JStr s'), PVal (JStr p') => Ok (PVal (JBool (rx cfg true s' p')))
      | _, _ => Ok (PVal (JBool false))
      end
  | FConst p, _ => Ok p
  | FFirst, o :: _ => Ok o
  | _, _ => Crash XTypeError      (* wrong number of positional arguments *)
  end.

(* FunctionExtension._unpack_node_lists *)
Fixpoint m_unpack (tys : list ty3) (args : list pyobj) : result (list pyobj) :=
  match args with
  | [] => Ok []
  | a :: args' =>
      match tys with
      | [] => Crash XIndexError                    (* func.arg_types[idx] *)
      | t :: tys' =>
          let a' := match t with
                    | TLogical => PVal (JBool (m_is_truthy a))
                    | TNodes => a
                    | TValue => match a with
                                | PNodes [] => PNothing
                                | PNodes [n] => PVal (snd n)
                                | _ => a
                                end
                    end in
          do r <- m_unpack tys' args'; Ok (a' :: r)
      end
  end.

(* ComparisonExpression.evaluate: a one-node list stands for its value *)
Definition m_unwrap1 (o : pyobj) : pyobj :=
  match o with PNodes [n] => PVal (snd n) | _ => o end.

(* thread a nodelist through the segments of a query *)
Fixpoint run_segs (F : seg -> list node -> result (list node)) (q : list seg) (ns : list node) : result (list node) :=
  match q with [] => Ok ns | sg :: q' => do ns' <- F sg ns; run_segs F q' ns' end.

Section Eval.
  Variable cfg : envcfg.

  Fixpoint m_sel (root : json) (s : sel) (n : node) {struct s} : result (list node) :=
    match s with
    | SName k =>
        match snd n with
        | JObj m => match find_assoc k m with Some v => Ok [mk_child n (KName k) v] | None => Ok [] end
        | _ => Ok []
        end
    | SIndex i =>
        match snd n with
        | JArr l => Ok (map (fun p => mk_child n (KIdx (fst p)) (snd p)) (m_index_select l i))
        | _ => Ok []
        end
    | SSlice a b c =>
        match snd n with
        | JArr l => Ok (map (fun p => mk_child n (KIdx (fst p)) (snd p)) (m_slice_select l a b c))
        | _ => Ok []
        end
    | SWild => Ok (children n)
    | SFilter e =>
        (fix go (cs : list node) : result (list node) :=
           match cs with
           | [] => Ok []
           | c :: cs' =>
               do o <- m_expr root (snd c) e;
               do r <- go cs';
               Ok (if m_is_truthy o then c :: r else r)
           end) (children n)
    end
  with m_expr (root cur : json) (e : expr) {struct e} : result pyobj :=
    match e with
    | ELit v => Ok (PVal v)
    | ERel q =>
        do ns <- (fix segs (q : list seg) (ns : list node) : result (list node) :=
                    match q with [] => Ok ns | sg :: q' => do ns' <- m_seg root sg ns; segs q' ns' end) q [([], cur)];
        Ok (PNodes ns)
    | EAbs q =>
        do ns <- (fix segs (q : list seg) (ns : list node) : result (list node) :=
                    match q with [] => Ok ns | sg :: q' => do ns' <- m_seg root sg ns; segs q' ns' end) q [([], root)];
        Ok (PNodes ns)
    | ENot a => do o <- m_expr root cur a; Ok (PVal (JBool (negb (m_is_truthy o))))
    | EAnd a b => do x <- m_expr root cur a; do y <- m_expr root cur b;
                  Ok (PVal (JBool (m_is_truthy x && m_is_truthy y)))
    | EOr a b => do x <- m_expr root cur a; do y <- m_expr root cur b;
                 Ok (PVal (JBool (m_is_truthy x || m_is_truthy y)))
    | ECmp o a b => do x <- m_expr root cur a; do y <- m_expr root cur b;
                    Ok (PVal (JBool (m_cmp o (m_unwrap1 x) (m_unwrap1 y))))
    | ECall f args =>
        match find_assoc f (reg cfg) with
        | None => Ok PNothing                      (* except KeyError: return NOTHING *)
        | Some d =>
            do vs <- (fix go (args : list expr) : result (list pyobj) :=
                        match args with
                        | [] => Ok []
                        | a :: args' => do x <- m_expr root cur a; do r <- go args'; Ok (x :: r)
                        end) args;
            do us <- m_unpack (f_args d) vs;
            m_apply cfg d us
        end
    end
  with m_seg (root : json) (sg : seg) (ns : list node) {struct sg} : result (list node) :=
    match sg with
    | Child ss =>
        flat_mapM (fun n =>
          (fix go (ss : list sel) : result (list node) :=
             match ss with
             | [] => Ok []
             | s :: ss' => do a <- m_sel root s n; do b <- go ss'; Ok (a ++ b)
             end) ss) ns
    | Desc ss =>
        flat_mapM (fun n =>
          do vs <- m_visit (max_depth cfg) 1 (fst n) (snd n);
          flat_mapM (fun v =>
            (fix go (ss : list sel) : result (list node) :=
               match ss with
               | [] => Ok []
               | s :: ss' => do a <- m_sel root s v; do b <- go ss'; Ok (a ++ b)
               end) ss) vs) ns
    end.

  Definition m_segs (root : json) (q : list seg) (ns : list node) : result (list node) :=
    run_segs (m_seg root) q ns.

  (* JSONPathQuery.find *)
  Definition m_find (q : query) (v : json) : result (list node) := m_segs v q [([], v)].
End Eval.
