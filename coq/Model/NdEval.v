(* find() with env.nondeterministic = True: WildcardSelector.resolve / FilterSelector.resolve shuffle the members of an object,
   JSONPathRecursiveDescentSegment.resolve uses _nondeterministic_visit (Model/NdVisit.v).  Every random episode - one
   random.shuffle of a selector, one whole traversal - takes its own choice script from a supply of scripts: the random calls are
   independent, and the generator pipeline of the library interleaves them in an order (demand driven, segment after segment for
   each node) that no result depends on.  Filter expressions are evaluated by the deterministic evaluator: queries inside a filter
   are shuffled by the library too, but only their truth value, count or single value is used.
   Tied to the code on complete outcome sets (every outcome of the random choices enumerated), not script by script. *)
From JP Require Export Model.Eval Model.NdVisit.

Definition supply := list (list Z).
Definition take_sub (sup : supply) : list Z * supply := match sup with s :: r => (s, r) | [] => ([], []) end.

(* list(node.value.items()); random.shuffle(_members)   (arrays: enumerate(node.value)) *)
Definition nd_children (sup : supply) (n : node) : list node * supply :=
  match snd n with
  | JObj _ => let '(s, r) := take_sub sup in (fst (shuffle s (children n)), r)
  | _ => (children n, sup)
  end.

Section NdEval.
  Variable cfg : envcfg.

  (* the loop of FilterSelector.resolve over the members in the order given *)
  Definition m_filter_list (root : json) (e : expr) (cs : list node) : result (list node) :=
    (fix go (cs : list node) : result (list node) :=
       match cs with
       | [] => Ok []
       | c :: cs' =>
           do o <- m_expr cfg root (snd c) e;
           do r <- go cs';
           Ok (if m_is_truthy o then c :: r else r)
       end) cs.

  Definition nd_sel (root : json) (sup : supply) (s : sel) (n : node) : result (list node * supply) :=
    match s with
    | SWild => Ok (nd_children sup n)
    | SFilter e => let '(cs, sup') := nd_children sup n in do r <- m_filter_list root e cs; Ok (r, sup')
    | _ => do r <- m_sel cfg root s n; Ok (r, sup)
    end.

  Fixpoint nd_sels (root : json) (sup : supply) (ss : list sel) (n : node) : result (list node * supply) :=
    match ss with
    | [] => Ok ([], sup)
    | s :: ss' => do a <- nd_sel root sup s n; do b <- nd_sels root (snd a) ss' n; Ok (fst a ++ fst b, snd b)
    end.

  (* for node in nodes: ... , threading the supply *)
  Fixpoint nd_nodes (F : supply -> node -> result (list node * supply)) (sup : supply) (ns : list node) : result (list node * supply) :=
    match ns with
    | [] => Ok ([], sup)
    | n :: ns' => do a <- F sup n; do b <- nd_nodes F (snd a) ns'; Ok (fst a ++ fst b, snd b)
    end.

  Definition nd_seg (root : json) (sup : supply) (sg : seg) (ns : list node) : result (list node * supply) :=
    match sg with
    | Child ss => nd_nodes (fun sup n => nd_sels root sup ss n) sup ns
    | Desc ss =>
        nd_nodes (fun sup n =>
          let '(s, sup1) := take_sub sup in
          do vs <- nd_visit (max_depth cfg) s n;
          nd_nodes (fun sup v => nd_sels root sup ss v) sup1 vs) sup ns
    end.

  Fixpoint nd_segs (root : json) (sup : supply) (q : list seg) (ns : list node) : result (list node * supply) :=
    match q with
    | [] => Ok (ns, sup)
    | sg :: q' => do a <- nd_seg root sup sg ns; nd_segs root (snd a) q' (fst a)
    end.

  Definition m_find_nd (sup : supply) (q : query) (v : json) : result (list node) :=
    do a <- nd_segs v sup q [([], v)]; Ok (fst a).
End NdEval.
