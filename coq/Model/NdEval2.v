(* find() with env.nondeterministic = True, the queries nested in filter expressions included.  FilterQuery.evaluate runs the
   nested query through the same selectors and segments, so its wildcard and filter selectors shuffle and its descendant segments
   use _nondeterministic_visit as well: those random episodes are part of "every random choice the evaluator makes".
   [g_sel] / [g_expr] / [g_seg] evaluate a nested query with every episode - its own and those of queries nested deeper - taking
   its script from one supply.  [m_find_nd2 sup nsup] is the whole query: the episodes of its own segments take their scripts from
   [sup] exactly as in Model/NdEval.v, everything that happens inside a filter expression takes its scripts from [nsup].
   Proofs/NdNested.v: the result does not depend on [nsup] at all, it is [m_find_nd sup]. *)
From JP Require Export Model.NdEval.

Section NdEval2.
  Variable cfg : envcfg.

  (* for x in xs: ..., threading a state *)
  Fixpoint st_nodes {S A} (F : S -> A -> result (list node * S)) (st : S) (xs : list A) : result (list node * S) :=
    match xs with
    | [] => Ok ([], st)
    | x :: xs' => do a <- F st x; do b <- st_nodes F (snd a) xs'; Ok (fst a ++ fst b, snd b)
    end.

  (* the loop of FilterSelector.resolve over the members in the order given, the expression evaluated by [E] with a state *)
  Fixpoint st_filter {S} (E : S -> node -> result (pyobj * S)) (st : S) (cs : list node) : result (list node * S) :=
    match cs with
    | [] => Ok ([], st)
    | c :: cs' =>
        do o <- E st c;
        do r <- st_filter E (snd o) cs';
        Ok (if m_is_truthy (fst o) then c :: fst r else fst r, snd r)
    end.

  Fixpoint g_sel (root : json) (sup : supply) (s : sel) (n : node) {struct s} : result (list node * supply) :=
    match s with
    | SName _ | SIndex _ | SSlice _ _ _ => do r <- m_sel cfg root s n; Ok (r, sup)
    | SWild => Ok (nd_children sup n)
    | SFilter e =>
        (fix go (sup : supply) (cs : list node) : result (list node * supply) :=
           match cs with
           | [] => Ok ([], sup)
           | c :: cs' =>
               do o <- g_expr root (snd c) sup e;
               do r <- go (snd o) cs';
               Ok (if m_is_truthy (fst o) then c :: fst r else fst r, snd r)
           end) (snd (nd_children sup n)) (fst (nd_children sup n))
    end
  with g_expr (root cur : json) (sup : supply) (e : expr) {struct e} : result (pyobj * supply) :=
    match e with
    | ELit v => Ok (PVal v, sup)
    | ERel q =>
        do a <- (fix segs (sup : supply) (q : list seg) (ns : list node) : result (list node * supply) :=
                   match q with [] => Ok (ns, sup) | sg :: q' => do a <- g_seg root sup sg ns; segs (snd a) q' (fst a) end) sup q [([], cur)];
        Ok (PNodes (fst a), snd a)
    | EAbs q =>
        do a <- (fix segs (sup : supply) (q : list seg) (ns : list node) : result (list node * supply) :=
                   match q with [] => Ok (ns, sup) | sg :: q' => do a <- g_seg root sup sg ns; segs (snd a) q' (fst a) end) sup q [([], root)];
        Ok (PNodes (fst a), snd a)
    | ENot a => do o <- g_expr root cur sup a; Ok (PVal (JBool (negb (m_is_truthy (fst o)))), snd o)
    | EAnd a b => do x <- g_expr root cur sup a; do y <- g_expr root cur (snd x) b;
                  Ok (PVal (JBool (m_is_truthy (fst x) && m_is_truthy (fst y))), snd y)
    | EOr a b => do x <- g_expr root cur sup a; do y <- g_expr root cur (snd x) b;
                 Ok (PVal (JBool (m_is_truthy (fst x) || m_is_truthy (fst y))), snd y)
    | ECmp o a b => do x <- g_expr root cur sup a; do y <- g_expr root cur (snd x) b;
                    Ok (PVal (JBool (m_cmp o (m_unwrap1 (fst x)) (m_unwrap1 (fst y)))), snd y)
    | ECall f args =>
        match find_assoc f (reg cfg) with
        | None => Ok (PNothing, sup)
        | Some d =>
            do vs <- (fix go (sup : supply) (args : list expr) : result (list pyobj * supply) :=
                        match args with
                        | [] => Ok ([], sup)
                        | a :: args' => do x <- g_expr root cur sup a; do r <- go (snd x) args'; Ok (fst x :: fst r, snd r)
                        end) sup args;
            do us <- m_unpack (f_args d) (fst vs);
            do o <- m_apply cfg d us;
            Ok (o, snd vs)
        end
    end
  with g_seg (root : json) (sup : supply) (sg : seg) (ns : list node) {struct sg} : result (list node * supply) :=
    match sg with
    | Child ss =>
        st_nodes (fun sup n =>
          (fix go (sup : supply) (ss : list sel) : result (list node * supply) :=
             match ss with
             | [] => Ok ([], sup)
             | s :: ss' => do a <- g_sel root sup s n; do b <- go (snd a) ss'; Ok (fst a ++ fst b, snd b)
             end) sup ss) sup ns
    | Desc ss =>
        st_nodes (fun sup n =>
          do vs <- nd_visit (max_depth cfg) (fst (take_sub sup)) n;
          st_nodes (fun sup v =>
            (fix go (sup : supply) (ss : list sel) : result (list node * supply) :=
               match ss with
               | [] => Ok ([], sup)
               | s :: ss' => do a <- g_sel root sup s v; do b <- go (snd a) ss'; Ok (fst a ++ fst b, snd b)
               end) sup ss) (snd (take_sub sup)) vs) sup ns
    end.

  (* ---- the whole query: own episodes from the first supply, nested ones from the second ---- *)
  Definition st2 := (supply * supply)%type.

  Definition nd2_sel (root : json) (st : st2) (s : sel) (n : node) : result (list node * st2) :=
    match s with
    | SWild => Ok (fst (nd_children (fst st) n), (snd (nd_children (fst st) n), snd st))
    | SFilter e =>
        do r <- st_filter (fun nsup c => g_expr root (snd c) nsup e) (snd st) (fst (nd_children (fst st) n));
        Ok (fst r, (snd (nd_children (fst st) n), snd r))
    | _ => do r <- m_sel cfg root s n; Ok (r, st)
    end.

  Fixpoint nd2_sels (root : json) (st : st2) (ss : list sel) (n : node) : result (list node * st2) :=
    match ss with
    | [] => Ok ([], st)
    | s :: ss' => do a <- nd2_sel root st s n; do b <- nd2_sels root (snd a) ss' n; Ok (fst a ++ fst b, snd b)
    end.

  Definition nd2_seg (root : json) (st : st2) (sg : seg) (ns : list node) : result (list node * st2) :=
    match sg with
    | Child ss => st_nodes (fun st n => nd2_sels root st ss n) st ns
    | Desc ss =>
        st_nodes (fun st n =>
          do vs <- nd_visit (max_depth cfg) (fst (take_sub (fst st))) n;
          st_nodes (fun st v => nd2_sels root st ss v) (snd (take_sub (fst st)), snd st) vs) st ns
    end.

  Fixpoint nd2_segs (root : json) (st : st2) (q : list seg) (ns : list node) : result (list node * st2) :=
    match q with
    | [] => Ok (ns, st)
    | sg :: q' => do a <- nd2_seg root st sg ns; nd2_segs root (snd a) q' (fst a)
    end.

  Definition m_find_nd2 (sup nsup : supply) (q : query) (v : json) : result (list node) :=
    do a <- nd2_segs v (sup, nsup) q [([], v)]; Ok (fst a).
End NdEval2.
