(* the public entry points as compositions: what tools/pygen/gen_api.py reads off the method bodies *)
From JP Require Export Model.Api.

Inductive entry :=
| EIter                         (* JSONPathQuery.finditer: start node, then segment.resolve for every segment *)
| EListOf (e : entry)           (* JSONPathNodeList(e) *)
| EFirstOrNone (e : entry)      (* try: next(iter(e)) except StopIteration: None *)
| ECompileThen (e : entry)      (* self.compile(query).<e>(value) *)
| EDefaultEnv (e : entry).      (* DEFAULT_ENV.<e> *)

Inductive out := ONodes (ns : list node) | OOne (o : option node).

(* entry points of a compiled query.  Iterators are described by the sequence they yield when run to
   completion; an evaluation error (only JSONPathRecursionError can occur) is the error of the whole call. *)
Fixpoint q_sem (cfg : envcfg) (e : entry) (q : query) (v : json) : result out :=
  match e with
  | EIter => do ns <- m_find cfg q v; Ok (ONodes ns)
  | EListOf e' => q_sem cfg e' q v
  | EFirstOrNone e' => do o <- q_sem cfg e' q v;
                       match o with ONodes ns => Ok (OOne (hd_error ns)) | OOne x => Ok (OOne x) end
  | _ => Crash XAttribute
  end.

(* entry points taking the query text *)
Fixpoint t_sem (dflt cfg : envcfg) (e : entry) (text : str) (v : json) : result out :=
  match e with
  | ECompileThen e' => do q <- m_compile cfg text; q_sem cfg e' q v
  | EDefaultEnv e' => t_sem dflt dflt e' text v
  | _ => Crash XAttribute
  end.
