(* tokens.py: TokenType, Token, TokenStream *)
From JP Require Export Base.Prelude.

Inductive ttype := T_EOF | T_ERROR | T_INIT | T_COLON | T_COMMA | T_DOUBLE_DOT | T_FILTER | T_INDEX
 | T_LBRACKET | T_PROPERTY | T_RBRACKET | T_ROOT | T_WILD | T_AND | T_CURRENT | T_DQ_STRING | T_EQ
 | T_FALSE | T_FLOAT | T_FUNCTION | T_GE | T_GT | T_INT | T_LE | T_LPAREN | T_LT | T_NE | T_NOT
 | T_NULL | T_OR | T_RPAREN | T_SQ_STRING | T_TRUE.

Definition ttype_code (t : ttype) : Z :=
  match t with
  | T_EOF => 0 | T_ERROR => 1 | T_INIT => 2 | T_COLON => 3 | T_COMMA => 4 | T_DOUBLE_DOT => 5 | T_FILTER => 6
  | T_INDEX => 7 | T_LBRACKET => 8 | T_PROPERTY => 9 | T_RBRACKET => 10 | T_ROOT => 11 | T_WILD => 12 | T_AND => 13
  | T_CURRENT => 14 | T_DQ_STRING => 15 | T_EQ => 16 | T_FALSE => 17 | T_FLOAT => 18 | T_FUNCTION => 19 | T_GE => 20
  | T_GT => 21 | T_INT => 22 | T_LE => 23 | T_LPAREN => 24 | T_LT => 25 | T_NE => 26 | T_NOT => 27 | T_NULL => 28
  | T_OR => 29 | T_RPAREN => 30 | T_SQ_STRING => 31 | T_TRUE => 32
  end.
Definition ttype_eqb (a b : ttype) : bool := ttype_code a =? ttype_code b.

Record token := { ty : ttype; tval : str; tidx : Z }.

(* TokenStream: the iterator over the lexer's tokens, the push-back deque, the current token *)
Record stream := { cur : token; pushed : list token; rest : list token }.

Definition eof_token : token := {| ty := T_EOF; tval := []; tidx := -1 |}.   (* TokenStream.close() *)

(* TokenStream.__init__: current = INIT; next(self) *)
Definition stream_init (toks : list token) : stream :=
  match toks with
  | t :: r => {| cur := t; pushed := []; rest := r |}
  | [] => {| cur := eof_token; pushed := []; rest := [] |}
  end.

(* __next__: returns the old current token *)
Definition s_next (s : stream) : token * stream :=
  let tok := cur s in
  match pushed s with
  | p :: ps => (tok, {| cur := p; pushed := ps; rest := rest s |})
  | [] =>
      if ttype_eqb (ty tok) T_EOF then (tok, s)
      else match rest s with
           | t :: r => (tok, {| cur := t; pushed := []; rest := r |})
           | [] => (tok, {| cur := eof_token; pushed := []; rest := [] |})
           end
  end.

(* push(tok): _pushed.append(self.current); self.current = tok *)
Definition s_push (s : stream) (tok : token) : stream :=
  {| cur := tok; pushed := pushed s ++ [cur s]; rest := rest s |}.

(* the peek property: current = next(self); result = self.current; self.push(current) *)
Definition s_peek (s : stream) : token * stream :=
  let '(c0, s1) := s_next s in
  (cur s1, s_push s1 c0).
