(* tokens.Token.position and the suffix JSONPathError.__str__ prints. *)
From JP Require Export Base.Prelude.

(* str.count("\n", 0, end) for 0 <= end *)
Fixpoint count_lf (s : str) (stop : Z) : Z :=
  match s with
  | [] => 0
  | c :: r => if stop <=? 0 then 0 else (if N.eqb c 10 then 1 else 0) + count_lf r (stop - 1)
  end.
(* str.rfind("\n", 0, end): index of the last LF before end, or -1 *)
Fixpoint rfind_lf_from (s : str) (pos stop : Z) (last : Z) : Z :=
  match s with
  | [] => last
  | c :: r => if stop <=? pos then last else rfind_lf_from r (pos + 1) stop (if N.eqb c 10 then pos else last)
  end.
Definition rfind_lf (s : str) (stop : Z) : Z := rfind_lf_from s 0 stop (-1).

(* Token.position(): (line_number, column_number - 1) *)
Definition m_position (query : str) (index : Z) : Z * Z :=
  let line_number := count_lf query index + 1 in
  let column_number := index - rfind_lf query index in
  (line_number, column_number - 1).
