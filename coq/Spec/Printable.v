(* C12: the decidable side condition of the round-trip theorem (Props/C12.v, C12_roundtrip) - what a query must satisfy, beyond
   well-typedness and the integer range, for the LEXER theorem about its printed text: see the comment at lx_lit. *)
From JP Require Import Base.Json Model.Regex Model.Ast Model.Parse Model.PyFloat Model.Serialize Proofs.StringProofs.

Definition cls_fn_first : list (N * N) := [(97, 122)]%N.
Definition cls_fn_char : list (N * N) := [(97, 122); (95, 95); (48, 57)]%N.

(* what the lexer theorem asks of a query beyond well-typedness: member names and string literals are Unicode scalar values, every
   bracketed selection has a selector, function names are spelled as the lexer reads them, integer literals survive repr() and float(),
   and float literals print (repr) as a text of the FLOAT token's shape without leading zero that float() reads back as the same float *)
Definition int_rt (z : Z) : bool :=
  negb (has_leading_zero (repr_int z)) &&
  match py_float (repr_int z) with
  | Some x => match py_int_of_float x with Some z' => z' =? z | None => false end
  | None => false
  end.
(* the shape of a FLOAT token text:  -?digits.digits([eE][+-]?digits)?  |  -?digits[eE]-digits *)
Definition is_eE (c : N) : bool := N.eqb c 101 || N.eqb c 69.
Definition nonnil_ (l : list N) : bool := match l with [] => false | _ => true end.
Definition isnil_ (l : list N) : bool := match l with [] => true | _ => false end.
Definition float_formb (v : str) : bool :=
  let s1 := match v with 45%N :: r => r | _ => v end in
  let '(ip, s2) := take_digits s1 in
  nonnil_ ip &&
  match s2 with
  | 46%N :: s3 =>
      let '(fp, s4) := take_digits s3 in
      nonnil_ fp &&
      match s4 with
      | [] => true
      | e :: s5 => is_eE e && (let s6 := match s5 with 43%N :: r => r | 45%N :: r => r | _ => s5 end in
                               let '(ed, s7) := take_digits s6 in nonnil_ ed && isnil_ s7)
      end
  | e :: 45%N :: s3 => is_eE e && (let '(ed, s4) := take_digits s3 in nonnil_ ed && isnil_ s4)
  | _ => false
  end.
Definition flt_rt (n : num) : bool :=
  let s := repr_float n in
  float_formb s && negb (has_leading_zero s) && match py_float s with Some x => num_same x n | None => false end.
Definition lx_lit (v : json) : bool :=
  match v with
  | JNull | JBool _ => true
  | JStr s => forallb is_scalar s
  | JNum (NInt z) => int_rt z
  | JNum n => flt_rt n
  | _ => false
  end.
Definition fname_okb (f : str) : bool :=
  match f with c :: cs => in_ranges c cls_fn_first && forallb (fun x => in_ranges x cls_fn_char) cs | [] => false end.
Fixpoint lx_sel (s : sel) {struct s} : bool :=
  match s with
  | SName k => forallb is_scalar k
  | SFilter e => lx_expr e
  | _ => true
  end
with lx_expr (e : expr) {struct e} : bool :=
  match e with
  | ELit v => lx_lit v
  | ERel q | EAbs q => (fix go (q : list seg) : bool := match q with [] => true | g :: q' => lx_seg g && go q' end) q
  | ECall f args => fname_okb f && (fix go (l : list expr) : bool := match l with [] => true | a :: l' => lx_expr a && go l' end) args
  | ENot a => lx_expr a
  | EAnd a b | EOr a b | ECmp _ a b => lx_expr a && lx_expr b
  end
with lx_seg (g : seg) {struct g} : bool :=
  match g with
  | Child ss | Desc ss => match ss with [] => false | _ => true end && (fix go (l : list sel) : bool := match l with [] => true | s :: l' => lx_sel s && go l' end) ss
  end.
Definition lx_query (q : query) : bool := forallb lx_seg q.

