(* RFC 9535 2.3.1: the value denoted by the body of a string literal (the text between the quotes),
   following the ABNF rules double-quoted / single-quoted / escapable / hexchar and Table 4.
   [None] = the body is not derivable. *)
From JP Require Export Base.Prelude.

Definition hexv (c : N) : option Z :=
  if ((48 <=? c) && (c <=? 57))%N then Some (Z.of_N c - 48)
  else if ((65 <=? c) && (c <=? 70))%N then Some (Z.of_N c - 55)
  else if ((97 <=? c) && (c <=? 102))%N then Some (Z.of_N c - 87)
  else None.
Definition hex4 (a b c d : N) : option Z :=
  match hexv a, hexv b, hexv c, hexv d with
  | Some a', Some b', Some c', Some d' => Some (a' * 4096 + b' * 256 + c' * 16 + d')
  | _, _, _, _ => None
  end.
Definition is_high (x : Z) : bool := (55296 <=? x) && (x <=? 56319).
Definition is_low (x : Z) : bool := (56320 <=? x) && (x <=? 57343).
(* unescaped = %x20-21 / %x23-26 / %x28-5B / %x5D-D7FF / %xE000-10FFFF, plus the other quote *)
Definition raw_ok (q c : N) : bool :=
  ((32 <=? c) && negb (c =? 92) && negb (c =? q) && negb ((55296 <=? c) && (c <=? 57343)) && (c <=? 1114111))%N.

Fixpoint spec_decode (q : N) (s : str) {struct s} : option str :=
  match s with
  | [] => Some []
  | c :: r =>
    if N.eqb c 92 then
      match r with
      | [] => None
      | d :: r' =>
        let simple (x : N) := match spec_decode q r' with Some t => Some (x :: t) | None => None end in
        if N.eqb d q then simple q
        else if N.eqb d 98 then simple 8%N
        else if N.eqb d 102 then simple 12%N
        else if N.eqb d 110 then simple 10%N
        else if N.eqb d 114 then simple 13%N
        else if N.eqb d 116 then simple 9%N
        else if N.eqb d 47 then simple 47%N
        else if N.eqb d 92 then simple 92%N
        else if N.eqb d 117 then
          match r' with
          | h1 :: h2 :: h3 :: h4 :: r2 =>
            match hex4 h1 h2 h3 h4 with
            | None => None
            | Some x =>
              if is_low x then None
              else if is_high x then
                match r2 with
                | b :: u :: l1 :: l2 :: l3 :: l4 :: r3 =>
                  if N.eqb b 92 && N.eqb u 117 then
                    match hex4 l1 l2 l3 l4 with
                    | Some y => if is_low y
                                then match spec_decode q r3 with
                                     | Some t => Some (Z.to_N (65536 + (x - 55296) * 1024 + (y - 56320)) :: t)
                                     | None => None
                                     end
                                else None
                    | None => None
                    end
                  else None
                | _ => None
                end
              else match spec_decode q r2 with Some t => Some (Z.to_N x :: t) | None => None end
            end
          | _ => None
          end
        else None
      end
    else if raw_ok q c then match spec_decode q r with Some t => Some (c :: t) | None => None end
    else None
  end.
