(* Grammars as data, their meaning (derives), and a generic recognizer proved sound and complete.
   Nothing here knows about JSONPath. *)
From JP Require Export Base.Prelude.

Inductive gexp :=
| GEps
| GRange (lo hi : N)
| GSeq (a b : gexp)
| GAlt (a b : gexp)
| GStar (a : gexp)
| GRef (n : nat).

Definition grammar := nat -> gexp.

Section G.
  Variable g : grammar.

  (* [derives e s]: the expression e derives exactly the string s.  Iterations of a star are non-empty. *)
  Inductive derives : gexp -> str -> Prop :=
  | DEps : derives GEps []
  | DRange lo hi c : (lo <= c)%N -> (c <= hi)%N -> derives (GRange lo hi) [c]
  | DSeq a b s1 s2 : derives a s1 -> derives b s2 -> derives (GSeq a b) (s1 ++ s2)
  | DAltL a b s : derives a s -> derives (GAlt a b) s
  | DAltR a b s : derives b s -> derives (GAlt a b) s
  | DStar0 a : derives (GStar a) []
  | DStarS a s1 s2 : s1 <> [] -> derives a s1 -> derives (GStar a) s2 -> derives (GStar a) (s1 ++ s2)
  | DRef n s : derives (g n) s -> derives (GRef n) s.

  Definition str_eq_dec : forall a b : str, {a = b} + {a <> b} := list_eq_dec N.eq_dec.

  (* all suffixes r such that e derives a prefix p with s = p ++ r (duplicates removed) *)
  Fixpoint recog (fuel : nat) (e : gexp) (s : str) {struct fuel} : list str :=
    match fuel with
    | O => []
    | S f =>
      match e with
      | GEps => [s]
      | GRange lo hi => match s with
                        | c :: r => if (N.leb lo c && N.leb c hi)%bool then [r] else []
                        | [] => []
                        end
      | GSeq a b => nodup str_eq_dec (flat_map (fun r => recog f b r) (recog f a s))
      | GAlt a b => nodup str_eq_dec (recog f a s ++ recog f b s)
      | GStar a => nodup str_eq_dec
                     (s :: flat_map (fun r => if Nat.ltb (length r) (length s) then recog f (GStar a) r else [])
                                    (recog f a s))
      | GRef n => recog f (g n) s
      end
    end.

  Definition accepts (fuel : nat) (e : gexp) (s : str) : bool :=
    existsb (fun r => match r with [] => true | _ => false end) (recog fuel e s).

  Lemma recog_sound : forall fuel e s r, In r (recog fuel e s) -> exists p, s = p ++ r /\ derives e p.
  Proof.
    induction fuel as [|f IH]; intros e s r H; [inversion H|].
    destruct e; cbn [recog] in H.
    - destruct H as [<-|[]]. exists []. split; [reflexivity|constructor].
    - destruct s as [|c s']; [inversion H|].
      destruct (N.leb lo c && N.leb c hi)%bool eqn:E; [|inversion H].
      destruct H as [<-|[]]. apply andb_prop in E as [E1 E2]. apply N.leb_le in E1. apply N.leb_le in E2.
      exists [c]. split; [reflexivity|constructor; assumption].
    - apply nodup_In in H. apply in_flat_map in H as [r1 [H1 H2]].
      apply IH in H1 as [p1 [-> D1]]. apply IH in H2 as [p2 [-> D2]].
      exists (p1 ++ p2). split; [now rewrite app_assoc|constructor; assumption].
    - apply nodup_In in H. apply in_app_or in H as [H|H]; apply IH in H as [p [-> D]]; exists p; split; auto.
      + now apply DAltL.
      + now apply DAltR.
    - apply nodup_In in H. destruct H as [<-|H].
      + exists []. split; [reflexivity|constructor].
      + apply in_flat_map in H as [r1 [H1 H2]].
        destruct (Nat.ltb (length r1) (length s)) eqn:E; [|inversion H2].
        apply IH in H1 as [p1 [-> D1]]. apply IH in H2 as [p2 [-> D2]].
        exists (p1 ++ p2). split; [now rewrite app_assoc|].
        apply DStarS; auto. intro; subst. apply Nat.ltb_lt in E. cbn in E. lia.
    - apply IH in H as [p [-> D]]. exists p. split; auto. now constructor.
  Qed.

  (* derivations indexed by height, for completeness *)
  Inductive derh : nat -> gexp -> str -> Prop :=
  | HEps h : derh (S h) GEps []
  | HRange h lo hi c : (lo <= c)%N -> (c <= hi)%N -> derh (S h) (GRange lo hi) [c]
  | HSeq h a b s1 s2 : derh h a s1 -> derh h b s2 -> derh (S h) (GSeq a b) (s1 ++ s2)
  | HAltL h a b s : derh h a s -> derh (S h) (GAlt a b) s
  | HAltR h a b s : derh h b s -> derh (S h) (GAlt a b) s
  | HStar0 h a : derh (S h) (GStar a) []
  | HStarS h a s1 s2 : s1 <> [] -> derh h a s1 -> derh h (GStar a) s2 -> derh (S h) (GStar a) (s1 ++ s2)
  | HRef h n s : derh h (g n) s -> derh (S h) (GRef n) s.

  Lemma derh_mono : forall h e s, derh h e s -> forall h', (h <= h')%nat -> derh h' e s.
  Proof.
    induction 1; intros h' Hle; (destruct h' as [|h']; [lia|]).
    - constructor.
    - constructor; assumption.
    - constructor; [apply IHderh1 | apply IHderh2]; lia.
    - apply HAltL. apply IHderh. lia.
    - apply HAltR. apply IHderh. lia.
    - constructor.
    - apply HStarS; [assumption | apply IHderh1 | apply IHderh2]; lia.
    - constructor. apply IHderh. lia.
  Qed.

  Lemma derives_derh : forall e s, derives e s -> exists h, derh h e s.
  Proof.
    induction 1.
    - exists 1%nat; constructor.
    - exists 1%nat; constructor; auto.
    - destruct IHderives1 as [h1 D1], IHderives2 as [h2 D2]. exists (S (Nat.max h1 h2)).
      constructor; eapply derh_mono; eauto; lia.
    - destruct IHderives as [h D]. exists (S h). now apply HAltL.
    - destruct IHderives as [h D]. exists (S h). now apply HAltR.
    - exists 1%nat; constructor.
    - destruct IHderives1 as [h1 D1], IHderives2 as [h2 D2]. exists (S (Nat.max h1 h2)).
      apply HStarS; auto; eapply derh_mono; eauto; lia.
    - destruct IHderives as [h D]. exists (S h). now constructor.
  Qed.

  Lemma recog_complete_h : forall h e p, derh h e p -> forall r, In r (recog h e (p ++ r)).
  Proof.
    induction 1; intros r; cbn [recog].
    - left; reflexivity.
    - cbn. apply N.leb_le in H. apply N.leb_le in H0. rewrite H, H0. left; reflexivity.
    - apply nodup_In. rewrite <- app_assoc. apply in_flat_map. exists (s2 ++ r). split; [apply IHderh1 | apply IHderh2].
    - apply nodup_In. apply in_or_app. left. apply IHderh.
    - apply nodup_In. apply in_or_app. right. apply IHderh.
    - apply nodup_In. left; reflexivity.
    - apply nodup_In. right. rewrite <- app_assoc. apply in_flat_map. exists (s2 ++ r). split; [apply IHderh1|].
      assert (E : Nat.ltb (length (s2 ++ r)) (length (s1 ++ s2 ++ r)) = true).
      { apply Nat.ltb_lt. rewrite (app_length s1). destruct s1; [congruence|cbn; lia]. }
      rewrite E. apply IHderh2.
    - apply IHderh.
  Qed.

  Lemma recog_mono : forall h e p, derh h e p -> forall h' r, (h <= h')%nat -> In r (recog h' e (p ++ r)).
  Proof. intros h e p D h' r Hle. apply recog_complete_h. eapply derh_mono; eauto. Qed.

  Theorem accepts_sound : forall fuel e s, accepts fuel e s = true -> derives e s.
  Proof.
    unfold accepts. intros fuel e s H. apply existsb_exists in H as [r [Hr Hn]]. destruct r; [|discriminate].
    apply recog_sound in Hr as [p [-> D]]. rewrite app_nil_r. exact D.
  Qed.

  Theorem accepts_complete : forall e s, derives e s -> exists fuel, forall fuel', (fuel <= fuel')%nat -> accepts fuel' e s = true.
  Proof.
    intros e s D. apply derives_derh in D as [h D]. exists h. intros h' Hle. unfold accepts.
    apply existsb_exists. exists []. split; [|reflexivity].
    pose proof (recog_mono h e s D h' [] Hle) as H. rewrite app_nil_r in H. exact H.
  Qed.
End G.

(* derived forms *)
Definition GChar (c : N) : gexp := GRange c c.
Fixpoint GLit (s : list N) : gexp := match s with [] => GEps | [c] => GChar c | c :: s' => GSeq (GChar c) (GLit s') end.
Definition GOpt (a : gexp) : gexp := GAlt a GEps.
Definition GPlus (a : gexp) : gexp := GSeq a (GStar a).
Fixpoint GAlts (l : list gexp) : gexp := match l with [] => GRange 1 0 | [a] => a | a :: l' => GAlt a (GAlts l') end.
Fixpoint GSeqs (l : list gexp) : gexp := match l with [] => GEps | [a] => a | a :: l' => GSeq a (GSeqs l') end.
(* ABNF "x" for a letter: case-insensitive *)
Definition GCi (lower : N) : gexp := GAlt (GChar lower) (GChar (lower - 32)).
