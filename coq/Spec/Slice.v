(* RFC 9535 section 2.3.4.2.2: Normalize, Bounds and the two selection loops,
   and section 2.3.3.2 (index selector).  Transcribed literally. *)
From JP Require Export Base.Json.

(* FUNCTION Normalize(i, len): IF i >= 0 THEN RETURN i ELSE RETURN len + i *)
Definition normalize (i len : Z) : Z := if 0 <=? i then i else len + i.

(* FUNCTION Bounds(start, end, step, len) RETURN (lower, upper) *)
Definition bounds (start end_ step len : Z) : Z * Z :=
  let n_start := normalize start len in
  let n_end := normalize end_ len in
  if 0 <=? step
  then (Z.min (Z.max n_start 0) len, Z.min (Z.max n_end 0) len)
  else (Z.min (Z.max n_end (-1)) (len - 1), Z.min (Z.max n_start (-1)) (len - 1)).

(* i = lower; WHILE i < upper: select i; i = i + step *)
Fixpoint loop_up (fuel : nat) (i upper step : Z) : list Z :=
  match fuel with
  | O => []
  | S f => if i <? upper then i :: loop_up f (i + step) upper step else []
  end.
(* i = upper; WHILE lower < i: select i; i = i + step *)
Fixpoint loop_down (fuel : nat) (i lower step : Z) : list Z :=
  match fuel with
  | O => []
  | S f => if lower <? i then i :: loop_down f (i + step) lower step else []
  end.

Definition slice_fuel (len : Z) : nat := S (Z.to_nat len).

(* indices selected by start:end:step on an array of length len, in selection order;
   defaults per the table of 2.3.4.2.1; step 0 selects nothing *)
Definition rfc_slice_fuel (fuel : nat) (len : Z) (s e t : option Z) : list Z :=
  let step := match t with Some x => x | None => 1 end in
  if step =? 0 then [] else
  let start := match s with Some x => x | None => if 0 <=? step then 0 else len - 1 end in
  let end_ := match e with Some x => x | None => if 0 <=? step then len else - len - 1 end in
  let '(lower, upper) := bounds start end_ step len in
  if 0 <? step then loop_up fuel lower upper step else loop_down fuel upper lower step.

Definition rfc_slice (len : Z) (s e t : option Z) : list Z := rfc_slice_fuel (slice_fuel len) len s e t.

(* index selector: element Normalize(i,len) if it exists *)
Definition rfc_index (len i : Z) : list Z :=
  let n := normalize i len in if (0 <=? n) && (n <? len) then [n] else [].
