(* RFC 9535 2.5.2.2 and 2.1.2: the visiting orders a descendant segment may use.  An order is valid iff it lists
   the input node and all its descendants exactly once, every node after its parent, and the elements of an array in
   index order; object members in any order. *)
From JP Require Export Base.Json Spec.Sem.

Definition loc_eqb (a b : list key) : bool :=
  (fix go (a b : list key) : bool :=
     match a, b with [], [] => true | x :: a', y :: b' => key_eqb x y && go a' b' | _, _ => false end) a b.
Fixpoint index_of (l : list key) (ls : list (list key)) (i : nat) : option nat :=
  match ls with [] => None | x :: r => if loc_eqb l x then Some i else index_of l r (S i) end.
Definition parent_and_prev (l : list key) : option (list key) * option (list key) :=
  match rev l with
  | [] => (None, None)
  | KIdx i :: p => (Some (rev p), if 0 <? i then Some (rev (KIdx (i - 1) :: p)) else None)
  | KName _ :: p => (Some (rev p), None)
  end.
Definition before (ls : list (list key)) (a b : list key) : bool :=
  match index_of a ls O, index_of b ls O with Some i, Some j => (i <? j)%nat | _, _ => false end.

Definition valid_order (root : node) (order : list (list key)) : bool :=
  let all := map fst (descendants (fst root) (snd root)) in
  (length order =? length all)%nat
  && forallb (fun l => match index_of l order O with Some _ => true | None => false end) all
  && forallb (fun l =>
       if loc_eqb l (fst root) then true else
       match parent_and_prev l with
       | (Some p, prev) => before order p l && match prev with Some q => before order q l | None => true end
       | (None, _) => true
       end) order.

(* every valid order, for small inputs: the available nodes are kept as queues; an array contributes one queue (its
   elements in order), an object one queue per member *)
Definition queues_of (n : node) : list (list node) :=
  match snd n with
  | JArr _ => match children n with [] => [] | cs => [cs] end
  | JObj _ => map (fun c => [c]) (children n)
  | _ => []
  end.
Fixpoint picks {A} (pre : list (list A)) (qs : list (list A)) : list (A * list (list A)) :=
  match qs with
  | [] => []
  | [] :: r => picks pre r
  | (x :: q) :: r => (x, rev pre ++ (match q with [] => [] | _ => [q] end) ++ r) :: picks ((x :: q) :: pre) r
  end.
Fixpoint all_orders_from (fuel : nat) (qs : list (list node)) : list (list node) :=
  match fuel with
  | O => [[]]
  | S f =>
      match picks [] qs with
      | [] => [[]]
      | ps => flat_map (fun p => map (fun rest => fst p :: rest) (all_orders_from f (snd p ++ queues_of (fst p)))) ps
      end
  end.
Definition all_orders (root : node) : list (list node) :=
  map (fun o => root :: o) (all_orders_from (length (descendants (fst root) (snd root))) (queues_of root)).
