(* RFC 9535 semantics of queries: sections 2.1.2 (nodelists), 2.3 (selectors), 2.5 (segments),
   2.3.5.2 (filter expressions), 2.4 (function extensions and their type conversions). *)
From JP Require Export Base.Json Model.Ast Spec.Slice Spec.Compare.

Definition child_at (n : node) (k : key) (v : json) : node := (fst n ++ [k], v).

(* 2.5.2.2: the input node followed by its descendants, in document pre-order; object members in
   the mapping's own order, array elements in index order; every kind of value is a node *)
Fixpoint descendants (loc : list key) (v : json) {struct v} : list node :=
  (loc, v) ::
  match v with
  | JArr l => (fix go (i : Z) (l : list json) : list node :=
                 match l with [] => [] | x :: xs => descendants (loc ++ [KIdx i]) x ++ go (i + 1) xs end) 0 l
  | JObj m => (fix go (m : list (str * json)) : list node :=
                 match m with [] => [] | (k, x) :: xs => descendants (loc ++ [KName k]) x ++ go xs end) m
  | _ => []
  end.

Definition select_idx (n : node) (l : list json) (idxs : list Z) : list node :=
  flat_map (fun i => match znth l i with Some x => [child_at n (KIdx i) x] | None => [] end) idxs.

(* typed results of filter sub-expressions: ValueType, LogicalType, NodesType *)
Inductive sval := SV (c : comparand) | SL (b : bool) | SN (ns : list node).
Definition as_val (s : sval) : comparand := match s with SV c => c | _ => Nothing end.
Definition as_bool (s : sval) : bool := match s with SL b => b | SN (_ :: _) => true | _ => false end.
Definition as_nodes (s : sval) : list node := match s with SN ns => ns | _ => [] end.
Definition nonempty {A} (l : list A) : bool := match l with [] => false | _ => true end.

(* a query in a position of declared type [want] (2.4.3): ValueType takes the value of the single
   node of a singular query or Nothing, LogicalType is "non-empty", NodesType the nodelist itself *)
Definition conv_nodes (want : ty3) (ns : list node) : sval :=
  match want with
  | TValue => SV (match ns with [n] => Val (snd n) | _ => Nothing end)
  | TLogical => SL (nonempty ns)
  | TNodes => SN ns
  end.
(* a function result of declared type [ret] used where [want] is expected *)
Definition coerce (want ret : ty3) (r : sval) : sval :=
  match want, ret with
  | TLogical, TNodes => SL (nonempty (as_nodes r))
  | _, _ => r
  end.

Definition sval_of_pyobj (t : ty3) (p : pyobj) : sval :=
  match t, p with
  | TValue, PVal v => SV (Val v)
  | TValue, _ => SV Nothing
  | TLogical, PVal (JBool b) => SL b
  | TLogical, _ => SL false
  | TNodes, PNodes ns => SN ns
  | TNodes, _ => SN []
  end.

(* 2.4.4 - 2.4.8 and the two test doubles *)
Definition fn_sem (rx : bool -> str -> str -> bool) (d : fdecl) (args : list sval) : sval :=
  match f_impl d, args with
  | FLength, [SV (Val (JStr s))] => SV (Val (JNum (NInt (zlen s))))
  | FLength, [SV (Val (JArr l))] => SV (Val (JNum (NInt (zlen l))))
  | FLength, [SV (Val (JObj m))] => SV (Val (JNum (NInt (zlen m))))
  | FLength, _ => SV Nothing
  | FCount, [SN ns] => SV (Val (JNum (NInt (zlen ns))))
  | FValue, [SN [n]] => SV (Val (snd n))
  | FValue, _ => SV Nothing
  | FMatch, [SV (Val (JStr s)); SV (Val (JStr p))] => SL (rx false s p)
  | FMatch, _ => SL false
  | FSearch, [SV (Val (JStr s)); SV (Val (JStr p))] => SL (rx true s p)
  | FSearch, _ => SL false
  | FConst p, _ => sval_of_pyobj (f_ret d) p
  | FFirst, a :: _ => a
  | _, _ => SV Nothing
  end.

Fixpoint run_segs_s (F : seg -> list node -> list node) (q : list seg) (ns : list node) : list node :=
  match q with [] => ns | sg :: q' => run_segs_s F q' (F sg ns) end.

Section Sem.
  Variable rg : registry.
  Variable rx : bool -> str -> str -> bool.

  Fixpoint s_sel (root : json) (s : sel) (n : node) {struct s} : list node :=
    match s with
    | SName k => match snd n with
                 | JObj m => match find_assoc k m with Some v => [child_at n (KName k) v] | None => [] end
                 | _ => []
                 end
    | SIndex i => match snd n with JArr l => select_idx n l (rfc_index (zlen l) i) | _ => [] end
    | SSlice a b c => match snd n with JArr l => select_idx n l (rfc_slice (zlen l) a b c) | _ => [] end
    | SWild => children n
    | SFilter e => filter (fun c => as_bool (s_expr TLogical root (snd c) e)) (children n)
    end
  with s_expr (want : ty3) (root cur : json) (e : expr) {struct e} : sval :=
    match e with
    | ELit v => SV (Val v)
    | ERel q => conv_nodes want
                  ((fix segs (q : list seg) (ns : list node) : list node :=
                      match q with [] => ns | sg :: q' => segs q' (s_seg root sg ns) end) q [([], cur)])
    | EAbs q => conv_nodes want
                  ((fix segs (q : list seg) (ns : list node) : list node :=
                      match q with [] => ns | sg :: q' => segs q' (s_seg root sg ns) end) q [([], root)])
    | ENot a => SL (negb (as_bool (s_expr TLogical root cur a)))
    | EAnd a b => SL (as_bool (s_expr TLogical root cur a) && as_bool (s_expr TLogical root cur b))
    | EOr a b => SL (as_bool (s_expr TLogical root cur a) || as_bool (s_expr TLogical root cur b))
    | ECmp o a b => SL (cmp o (as_val (s_expr TValue root cur a)) (as_val (s_expr TValue root cur b)))
    | ECall f args =>
        match find_assoc f rg with
        | None => SV Nothing
        | Some d =>
            coerce want (f_ret d)
              (fn_sem rx d
                 ((fix go (tys : list ty3) (args : list expr) {struct args} : list sval :=
                     match args with
                     | [] => []
                     | a :: args' => match tys with
                                     | [] => []
                                     | t :: tys' => s_expr t root cur a :: go tys' args'
                                     end
                     end) (f_args d) args))
        end
    end
  with s_seg (root : json) (sg : seg) (ns : list node) {struct sg} : list node :=
    match sg with
    | Child ss => flat_map (fun n => (fix go (ss : list sel) : list node :=
                                        match ss with [] => [] | s :: ss' => s_sel root s n ++ go ss' end) ss) ns
    | Desc ss => flat_map (fun n =>
                   flat_map (fun d => (fix go (ss : list sel) : list node :=
                                         match ss with [] => [] | s :: ss' => s_sel root s d ++ go ss' end) ss)
                            (descendants (fst n) (snd n))) ns
    end.

  Definition s_segs (root : json) (q : list seg) (ns : list node) : list node := run_segs_s (s_seg root) q ns.

  (* the nodelist of query q applied to value v *)
  Definition sem (q : query) (v : json) : list node := s_segs v q [([], v)].
End Sem.
