(* RFC 9535 section 2.7: normalized paths. *)
From JP Require Export Base.Json.

Definition hexl (d : Z) : N := if d <? 10 then Z.to_N (48 + d) else Z.to_N (87 + d).   (* 0-9 a-f *)
(* normal-single-quoted: normal-unescaped / ESC normal-escapable *)
Definition norm_char (c : N) : str :=
  if N.eqb c 8 then [92; 98]%N            (* \b *)
  else if N.eqb c 12 then [92; 102]%N     (* \f *)
  else if N.eqb c 10 then [92; 110]%N     (* \n *)
  else if N.eqb c 13 then [92; 114]%N     (* \r *)
  else if N.eqb c 9 then [92; 116]%N      (* \t *)
  else if N.eqb c 39 then [92; 39]%N      (* \' *)
  else if N.eqb c 92 then [92; 92]%N      (* \\ *)
  else if (c <? 32)%N then [92; 117; 48; 48; hexl (Z.of_N c / 16); hexl (Z.of_N c mod 16)]%N   (* \u00xx, lower case *)
  else [c].
Definition norm_name (s : str) : str := 39%N :: flat_map norm_char s ++ [39%N].

Fixpoint dec_digits (fuel : nat) (n : Z) (acc : str) : str :=
  match fuel with
  | O => acc
  | S f => if n <? 10 then Z.to_N (48 + n) :: acc else dec_digits f (n / 10) (Z.to_N (48 + n mod 10) :: acc)
  end.
Definition norm_index (i : Z) : str := dec_digits (S (Z.to_nat (Z.log2 i))) i [].     (* "0" / (DIGIT1 *DIGIT), i >= 0 *)

Definition norm_seg (k : key) : str :=
  match k with
  | KName s => 91%N :: norm_name s ++ [93%N]
  | KIdx i => 91%N :: norm_index i ++ [93%N]
  end.
(* normalized-path = root-identifier *(normal-index-segment) *)
Definition norm_path (loc : list key) : str := 36%N :: flat_map norm_seg loc.
