(* RFC 9485 (I-Regexp): abstract syntax, parser following the ABNF, language semantics, and a Brzozowski-
   derivative matcher proved correct.  Unicode general categories are a parameter [gc]. *)
From JP Require Export Base.Prelude.

Inductive citem := CIRange (lo hi : N) | CICat (neg : bool) (cat : str).    (* a-b   \p{..} / \P{..} *)
Inductive cset := CDot | CAny | CSet (neg : bool) (items : list citem).     (* "."  any character  [...] / [^...] *)
Inductive ire :=
| IEmpty                       (* matches nothing *)
| IEps
| IChars (cs : cset)
| ICat (a b : ire)
| IAlt (a b : ire)
| IStar (a : ire).

Section Sem.
  Variable gc : N -> str.      (* general category of a code point, e.g. "Lu" *)

  Definition cat_match (cat : str) (c : N) : bool :=
    match cat, gc c with
    | [M], g :: _ => N.eqb M g
    | [M; m], [g; h] => N.eqb M g && N.eqb m h
    | _, _ => false
    end.
  Definition item_mem (c : N) (i : citem) : bool :=
    match i with
    | CIRange lo hi => ((lo <=? c) && (c <=? hi))%N
    | CICat neg cat => xorb neg (cat_match cat c)
    end.
  Definition cs_mem (c : N) (cs : cset) : bool :=
    match cs with
    | CDot => negb (N.eqb c 10 || N.eqb c 13)        (* any character except LF and CR *)
    | CAny => true
    | CSet neg items => xorb neg (existsb (item_mem c) items)
    end.

  (* the language of an expression *)
  Inductive lang : ire -> str -> Prop :=
  | L_eps : lang IEps []
  | L_chars cs c : cs_mem c cs = true -> lang (IChars cs) [c]
  | L_cat a b s t : lang a s -> lang b t -> lang (ICat a b) (s ++ t)
  | L_altl a b s : lang a s -> lang (IAlt a b) s
  | L_altr a b s : lang b s -> lang (IAlt a b) s
  | L_star0 a : lang (IStar a) []
  | L_stars a s t : lang a s -> lang (IStar a) t -> lang (IStar a) (s ++ t).

  Fixpoint nullable (r : ire) : bool :=
    match r with
    | IEmpty => false | IEps => true | IChars _ => false
    | ICat a b => nullable a && nullable b
    | IAlt a b => nullable a || nullable b
    | IStar _ => true
    end.
  Fixpoint deriv (c : N) (r : ire) : ire :=
    match r with
    | IEmpty => IEmpty | IEps => IEmpty
    | IChars cs => if cs_mem c cs then IEps else IEmpty
    | ICat a b => if nullable a then IAlt (ICat (deriv c a) b) (deriv c b) else ICat (deriv c a) b
    | IAlt a b => IAlt (deriv c a) (deriv c b)
    | IStar a => ICat (deriv c a) (IStar a)
    end.
  (* light simplification keeps derivatives small; it preserves the language (simp_lang) *)
  Fixpoint simp (r : ire) : ire :=
    match r with
    | ICat a b => match simp a, simp b with
                  | IEmpty, _ => IEmpty | _, IEmpty => IEmpty
                  | IEps, b' => b' | a', IEps => a'
                  | a', b' => ICat a' b'
                  end
    | IAlt a b => match simp a, simp b with
                  | IEmpty, b' => b' | a', IEmpty => a'
                  | a', b' => IAlt a' b'
                  end
    | IStar a => IStar (simp a)
    | _ => r
    end.
  Fixpoint matches (r : ire) (s : str) : bool :=
    match s with
    | [] => nullable r
    | c :: s' => matches (simp (deriv c r)) s'
    end.

  (* inversion lemmas (stated once, so that the proofs below do not depend on generated names) *)
  Lemma lang_empty_inv w : lang IEmpty w -> False. Proof. intros H. inversion H. Qed.
  Lemma lang_eps_inv w : lang IEps w -> w = []. Proof. intros H. inversion H. reflexivity. Qed.
  Lemma lang_chars_inv cs w : lang (IChars cs) w -> exists c, w = [c] /\ cs_mem c cs = true.
  Proof. intros H. inversion H; subst. eauto. Qed.
  Lemma lang_cat_inv a b w : lang (ICat a b) w -> exists s t, w = s ++ t /\ lang a s /\ lang b t.
  Proof. intros H. inversion H; subst. eauto. Qed.
  Lemma lang_alt_inv a b w : lang (IAlt a b) w -> lang a w \/ lang b w.
  Proof. intros H. inversion H; subst; auto. Qed.

  Lemma nullable_lang r : nullable r = true <-> lang r [].
  Proof.
    induction r; cbn [nullable]; split; intros H.
    - discriminate.
    - destruct (lang_empty_inv _ H).
    - constructor.
    - reflexivity.
    - discriminate.
    - destruct (lang_chars_inv _ _ H) as [c [E _]]. discriminate.
    - apply andb_true_iff in H as [H1 H2]. change (@nil N) with (@nil N ++ []). constructor; [apply IHr1 | apply IHr2]; assumption.
    - destruct (lang_cat_inv _ _ _ H) as [s [t [E [Ha Hb]]]]. symmetry in E. apply app_eq_nil in E as [-> ->].
      apply andb_true_iff. split; [apply IHr1 | apply IHr2]; assumption.
    - apply orb_true_iff in H as [H|H]; [apply L_altl, IHr1 | apply L_altr, IHr2]; assumption.
    - apply orb_true_iff. destruct (lang_alt_inv _ _ _ H); [left; apply IHr1 | right; apply IHr2]; assumption.
    - constructor.
    - reflexivity.
  Qed.

  Lemma star_cons a c s : lang (IStar a) (c :: s) -> exists s1 s2, s = s1 ++ s2 /\ lang a (c :: s1) /\ lang (IStar a) s2.
  Proof.
    intros H. remember (IStar a) as r eqn:Er. remember (c :: s) as w eqn:Ew. revert c s Ew.
    induction H as [| | | | | a' | a' s1 t H1 _ H2 IH2]; intros c0 s0 Ew; try discriminate.
    inversion Er; subst a'. destruct s1 as [|d s1].
    - cbn [app] in Ew. apply IH2; [reflexivity | exact Ew].
    - cbn [app] in Ew. inversion Ew; subst. exists s1, t. repeat split; assumption.
  Qed.

  Lemma deriv_lang : forall r c s, lang (deriv c r) s <-> lang r (c :: s).
  Proof.
    induction r; intros c s; cbn [deriv]; split; intros H.
    - destruct (lang_empty_inv _ H).
    - destruct (lang_empty_inv _ H).
    - destruct (lang_empty_inv _ H).
    - apply lang_eps_inv in H. discriminate.
    - destruct (cs_mem c cs) eqn:E; [|destruct (lang_empty_inv _ H)]. apply lang_eps_inv in H. subst. constructor. exact E.
    - destruct (lang_chars_inv _ _ H) as [d [E Hm]]. inversion E; subst. rewrite Hm. constructor.
    - destruct (nullable r1) eqn:En.
      + destruct (lang_alt_inv _ _ _ H) as [Hl|Hr].
        * destruct (lang_cat_inv _ _ _ Hl) as [s1 [t [-> [Ha Hb]]]]. change (c :: s1 ++ t) with ((c :: s1) ++ t). constructor; [apply IHr1|]; assumption.
        * change (c :: s) with ([] ++ c :: s). constructor; [apply nullable_lang; exact En | apply IHr2; exact Hr].
      + destruct (lang_cat_inv _ _ _ H) as [s1 [t [-> [Ha Hb]]]]. change (c :: s1 ++ t) with ((c :: s1) ++ t). constructor; [apply IHr1|]; assumption.
    - destruct (lang_cat_inv _ _ _ H) as [s1 [t [E [Ha Hb]]]]. destruct s1 as [|d s1].
      + cbn [app] in E. subst t. assert (En : nullable r1 = true) by (apply nullable_lang; exact Ha). rewrite En.
        apply L_altr. apply IHr2. exact Hb.
      + cbn [app] in E. inversion E; subst d s.
        destruct (nullable r1); [apply L_altl|]; constructor; try (apply IHr1); assumption.
    - destruct (lang_alt_inv _ _ _ H); [apply L_altl, IHr1 | apply L_altr, IHr2]; assumption.
    - destruct (lang_alt_inv _ _ _ H); [apply L_altl, IHr1 | apply L_altr, IHr2]; assumption.
    - destruct (lang_cat_inv _ _ _ H) as [s1 [t [-> [Ha Hb]]]]. change (c :: s1 ++ t) with ((c :: s1) ++ t). apply L_stars; [apply IHr|]; assumption.
    - destruct (star_cons _ _ _ H) as [s1 [s2 [-> [H1 H2]]]]. constructor; [apply IHr|]; assumption.
  Qed.

  Lemma simp_lang : forall r s, lang (simp r) s <-> lang r s.
  Proof.
    induction r; intros s; cbn [simp]; try tauto.
    - (* cat *)
      assert (Hcat : lang (ICat (simp r1) (simp r2)) s <-> lang (ICat r1 r2) s).
      { split; intros H; destruct (lang_cat_inv _ _ _ H) as [s1 [t [-> [Ha Hb]]]]; constructor;
          first [apply IHr1 | apply IHr2]; assumption. }
      rewrite <- Hcat. clear Hcat IHr1 IHr2.
      destruct (simp r1) eqn:E1; destruct (simp r2) eqn:E2; try tauto;
        split; intros H;
        try (destruct (lang_empty_inv _ H); fail);
        try (destruct (lang_cat_inv _ _ _ H) as [s1 [t [-> [Ha Hb]]]];
             first [ destruct (lang_empty_inv _ Ha) | destruct (lang_empty_inv _ Hb)
                   | apply lang_eps_inv in Ha; subst; exact Hb
                   | apply lang_eps_inv in Hb; subst; rewrite app_nil_r; exact Ha ]; fail);
        try (change s with ([] ++ s); constructor; [constructor | exact H]; fail);
        try (rewrite <- (app_nil_r s); constructor; [exact H | constructor]; fail).
    - (* alt *)
      assert (Halt : lang (IAlt (simp r1) (simp r2)) s <-> lang (IAlt r1 r2) s).
      { split; intros H; destruct (lang_alt_inv _ _ _ H); [apply L_altl, IHr1 | apply L_altr, IHr2 | apply L_altl, IHr1 | apply L_altr, IHr2]; assumption. }
      rewrite <- Halt. clear Halt IHr1 IHr2.
      destruct (simp r1) eqn:E1; destruct (simp r2) eqn:E2; try tauto;
        split; intros H;
        try (destruct (lang_alt_inv _ _ _ H) as [Hx|Hx]; first [destruct (lang_empty_inv _ Hx) | exact Hx]; fail);
        try (apply L_altr; exact H; fail); try (apply L_altl; exact H; fail).
    - (* star *)
      split; intros H.
      + remember (IStar (simp r)) as q eqn:Eq. induction H; try discriminate.
        * constructor.
        * inversion Eq; subst. constructor; [apply IHr; assumption | apply IHlang2; reflexivity].
      + remember (IStar r) as q eqn:Eq. induction H; try discriminate.
        * constructor.
        * inversion Eq; subst. constructor; [apply IHr; assumption | apply IHlang2; reflexivity].
  Qed.

  Theorem matches_correct : forall s r, matches r s = true <-> lang r s.
  Proof.
    induction s as [|c s IH]; intros r; cbn [matches].
    - apply nullable_lang.
    - rewrite IH, simp_lang. apply deriv_lang.
  Qed.
End Sem.

(* --- concrete syntax: RFC 9485 section 4 ------------------------------------------------------- *)
Definition normal_char (c : N) : bool :=
  ((c <=? 39) || (c =? 44) || (c =? 45) || ((47 <=? c) && (c <=? 62)) || ((64 <=? c) && (c <=? 90))
   || ((94 <=? c) && (c <=? 122)) || ((126 <=? c) && (c <=? 55295)) || ((57344 <=? c) && (c <=? 1114111)))%N.
(* SingleCharEsc = "\" ( %x28-2B / "-" / "." / "?" / %x5B-5E / %s"n" / %s"r" / %s"t" / %x7B-7D ) : the character meant *)
Definition single_char_esc (c : N) : option N :=
  if (((40 <=? c) && (c <=? 43)) || (c =? 45) || (c =? 46) || (c =? 63) || ((91 <=? c) && (c <=? 94)) || ((123 <=? c) && (c <=? 125)))%N then Some c
  else if (c =? 110)%N then Some 10%N else if (c =? 114)%N then Some 13%N else if (c =? 116)%N then Some 9%N else None.
(* CCchar without the escape alternative: %x00-2C / %x2E-5A / %x5E-D7FF / %xE000-10FFFF *)
Definition cc_raw (c : N) : bool :=
  ((c <=? 44) || ((46 <=? c) && (c <=? 90)) || ((94 <=? c) && (c <=? 55295)) || ((57344 <=? c) && (c <=? 1114111)))%N.
(* IsCategory: a major class letter, optionally followed by one of its minor letters *)
Definition category_ok (cat : str) : bool :=
  match cat with
  | [M] => existsb (N.eqb M) [76; 77; 78; 80; 90; 83; 67]%N
  | [M; m] =>
      if N.eqb M 76 then existsb (N.eqb m) [108; 109; 111; 116; 117]%N            (* L l m o t u *)
      else if N.eqb M 77 then existsb (N.eqb m) [99; 101; 110]%N                  (* M c e n *)
      else if N.eqb M 78 then existsb (N.eqb m) [100; 108; 111]%N                 (* N d l o *)
      else if N.eqb M 80 then existsb (N.eqb m) [99; 100; 101; 102; 105; 111; 115]%N   (* P c d e f i o s *)
      else if N.eqb M 90 then existsb (N.eqb m) [108; 112; 115]%N                 (* Z l p s *)
      else if N.eqb M 83 then existsb (N.eqb m) [99; 107; 109; 111]%N             (* S c k m o *)
      else if N.eqb M 67 then existsb (N.eqb m) [99; 102; 110; 111]%N             (* C c f n o *)
      else false
  | _ => false
  end.
(* after "\p" or "\P": "{" charProp "}" *)
Definition parse_cat (s : str) : option (str * str) :=
  match s with
  | 123%N :: a :: 125%N :: r => if category_ok [a] then Some ([a], r) else None
  | 123%N :: a :: b :: 125%N :: r => if category_ok [a; b] then Some ([a; b], r) else None
  | _ => None
  end.

Fixpoint take_num (s : str) (acc : option Z) : option Z * str :=
  match s with
  | c :: r => if ((48 <=? c) && (c <=? 57))%N then take_num r (Some (match acc with Some a => a * 10 | None => 0 end + (Z.of_N c - 48))) else (acc, s)
  | [] => (acc, s)
  end.

Fixpoint irep (r : ire) (n : nat) : ire := match n with O => IEps | S k => ICat r (irep r k) end.
Fixpoint iopt (r : ire) (n : nat) : ire := match n with O => IEps | S k => IAlt IEps (ICat r (iopt r k)) end.
Definition quant_cap : Z := 64.      (* larger counts are not expanded: the pattern is reported as undecided *)

Inductive presult (A : Type) := PSome (a : A) (rest : str) | PFail | PUndecided.
Arguments PSome {A} a rest. Arguments PFail {A}. Arguments PUndecided {A}.

(* one CCE1 or the closing of the class; items accumulate in reverse *)
Fixpoint parse_class_items (fuel : nat) (s : str) (acc : list citem) : presult (list citem) :=
  match fuel with
  | O => PFail
  | S f =>
    match s with
    | 93%N :: r => PSome (rev acc) r                                     (* "]" *)
    | 45%N :: 93%N :: r => PSome (rev (CIRange 45 45 :: acc)) r          (* trailing "-" *)
    | 92%N :: 112%N :: r => match parse_cat r with Some (cat, r') => parse_class_items f r' (CICat false cat :: acc) | None => PFail end
    | 92%N :: 80%N :: r => match parse_cat r with Some (cat, r') => parse_class_items f r' (CICat true cat :: acc) | None => PFail end
    | _ =>
      let first := match s with
                   | 92%N :: e :: r => match single_char_esc e with Some c => Some (c, r) | None => None end
                   | c :: r => if cc_raw c then Some (c, r) else None
                   | [] => None
                   end in
      match first with
      | None => PFail
      | Some (lo, r) =>
        match r with
        | 45%N :: 93%N :: _ => parse_class_items f r (CIRange lo lo :: acc)
        | 45%N :: r2 =>
            let second := match r2 with
                          | 92%N :: e :: r3 => match single_char_esc e with Some c => Some (c, r3) | None => None end
                          | c :: r3 => if cc_raw c then Some (c, r3) else None
                          | [] => None
                          end in
            match second with
            | Some (hi, r3) => if (lo <=? hi)%N then parse_class_items f r3 (CIRange lo hi :: acc) else PFail
            | None => PFail
            end
        | _ => parse_class_items f r (CIRange lo lo :: acc)
        end
      end
    end
  end.

(* charClassExpr after "[" : [ "^" ] ( "-" / CCE1 ) *CCE1 [ "-" ] "]" *)
Definition parse_class (s : str) : presult cset :=
  let '(neg, s1) := match s with 94%N :: r => (true, r) | _ => (false, s) end in
  let start := match s1 with
               | 45%N :: r => Some ([CIRange 45 45], r)        (* leading "-" *)
               | 93%N :: _ => None                             (* empty class *)
               | _ => Some ([], s1)
               end in
  match start with
  | None => PFail
  | Some (acc, r) =>
      match parse_class_items (S (length r)) r acc with
      | PSome items rest => match items with [] => PFail | _ => PSome (CSet neg items) rest end
      | PFail => PFail
      | PUndecided => PUndecided
      end
  end.

Definition apply_quant (a : ire) (s : str) : presult ire :=
  match s with
  | 42%N :: r => PSome (IStar a) r
  | 43%N :: r => PSome (ICat a (IStar a)) r
  | 63%N :: r => PSome (IAlt IEps a) r
  | 123%N :: r =>
      match take_num r None with
      | (Some n, 125%N :: r') => if n <=? quant_cap then PSome (irep a (Z.to_nat n)) r' else PUndecided
      | (Some n, 44%N :: 125%N :: r') => if n <=? quant_cap then PSome (ICat (irep a (Z.to_nat n)) (IStar a)) r' else PUndecided
      | (Some n, 44%N :: r1) =>
          match take_num r1 None with
          | (Some m, 125%N :: r') =>
              if m <? n then PFail
              else if m <=? quant_cap then PSome (ICat (irep a (Z.to_nat n)) (iopt a (Z.to_nat (m - n)))) r' else PUndecided
          | _ => PFail
          end
      | _ => PFail
      end
  | _ => PSome a s
  end.

Fixpoint parse_alt (fuel : nat) (s : str) {struct fuel} : presult ire :=
  match fuel with
  | O => PFail
  | S f =>
    match parse_branch f s IEps with
    | PSome b (124%N :: r) => match parse_alt f r with PSome rest r' => PSome (IAlt b rest) r' | x => x end
    | x => x
    end
  end
with parse_branch (fuel : nat) (s : str) (acc : ire) {struct fuel} : presult ire :=
  match fuel with
  | O => PFail
  | S f =>
    let atom : option (presult ire) :=
      match s with
      | [] => None
      | 124%N :: _ | 41%N :: _ => None                       (* "|" or ")" end the branch *)
      | 46%N :: r => Some (PSome (IChars CDot) r)
      | 40%N :: r => Some (match parse_alt f r with
                           | PSome e (41%N :: r') => PSome e r'
                           | PSome _ _ => PFail
                           | x => x
                           end)
      | 91%N :: r => Some (match parse_class r with PSome cs r' => PSome (IChars cs) r' | PFail => PFail | PUndecided => PUndecided end)
      | 92%N :: 112%N :: r => Some (match parse_cat r with Some (cat, r') => PSome (IChars (CSet false [CICat false cat])) r' | None => PFail end)
      | 92%N :: 80%N :: r => Some (match parse_cat r with Some (cat, r') => PSome (IChars (CSet false [CICat true cat])) r' | None => PFail end)
      | 92%N :: e :: r => Some (match single_char_esc e with Some c => PSome (IChars (CSet false [CIRange c c])) r | None => PFail end)
      | c :: r => Some (if normal_char c then PSome (IChars (CSet false [CIRange c c])) r else PFail)
      end in
    match atom with
    | None => PSome acc s
    | Some (PSome a r) => match apply_quant a r with
                          | PSome q r' => parse_branch f r' (ICat acc q)
                          | PFail => PFail
                          | PUndecided => PUndecided
                          end
    | Some PFail => PFail
    | Some PUndecided => PUndecided
    end
  end.

(* the whole pattern *)
Definition iparse (p : str) : presult ire :=
  match parse_alt (2 * length p + 4) p with
  | PSome r [] => PSome r []
  | PSome _ _ => PFail
  | x => x
  end.

(* match(): the whole string is in the language; search(): some substring is.  0 = undecided, 1 = false, 2 = true *)
Definition i_match (gc : N -> str) (subject pattern : str) : Z :=
  match iparse pattern with
  | PSome r _ => if matches gc r subject then 2 else 1
  | PFail => 1
  | PUndecided => 0
  end.
Definition i_search (gc : N -> str) (subject pattern : str) : Z :=
  match iparse pattern with
  | PSome r _ => if matches gc (ICat (IStar (IChars CAny)) (ICat r (IStar (IChars CAny)))) subject then 2 else 1
  | PFail => 1
  | PUndecided => 0
  end.
