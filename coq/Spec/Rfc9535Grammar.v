(* The ABNF of RFC 9535 (Appendix A collects it), transcribed rule by rule.
   Quoted ABNF strings are case-insensitive (RFC 5234), %x.. values are exact.
   One marked reading decision: blank space is admitted inside the brackets of a singular-query name/index
   segment (the strict text has none; the compliance suite and an erratum admit it). *)
From JP Require Export Spec.Abnf.

Inductive rule :=
| r_jsonpath_query | r_segments | r_B | r_S | r_selector | r_string_literal | r_double_quoted | r_single_quoted
| r_unescaped | r_escapable | r_hexchar | r_non_surrogate | r_high_surrogate | r_low_surrogate | r_HEXDIG
| r_int | r_DIGIT1 | r_slice_selector | r_filter_selector | r_logical_or_expr | r_logical_and_expr | r_basic_expr
| r_paren_expr | r_test_expr | r_filter_query | r_rel_query | r_comparison_expr | r_literal | r_comparable
| r_comparison_op | r_singular_query | r_singular_query_segments | r_name_segment | r_index_segment | r_number
| r_frac | r_exp | r_function_name | r_function_expr | r_function_argument | r_segment | r_child_segment
| r_bracketed_selection | r_member_name_shorthand | r_name_first | r_name_char | r_DIGIT | r_ALPHA | r_descendant_segment.

Definition rule_id (r : rule) : nat :=
  match r with
  | r_jsonpath_query => 0 | r_segments => 1 | r_B => 2 | r_S => 3 | r_selector => 4 | r_string_literal => 5
  | r_double_quoted => 6 | r_single_quoted => 7 | r_unescaped => 8 | r_escapable => 9 | r_hexchar => 10
  | r_non_surrogate => 11 | r_high_surrogate => 12 | r_low_surrogate => 13 | r_HEXDIG => 14 | r_int => 15
  | r_DIGIT1 => 16 | r_slice_selector => 17 | r_filter_selector => 18 | r_logical_or_expr => 19
  | r_logical_and_expr => 20 | r_basic_expr => 21 | r_paren_expr => 22 | r_test_expr => 23 | r_filter_query => 24
  | r_rel_query => 25 | r_comparison_expr => 26 | r_literal => 27 | r_comparable => 28 | r_comparison_op => 29
  | r_singular_query => 30 | r_singular_query_segments => 31 | r_name_segment => 32 | r_index_segment => 33
  | r_number => 34 | r_frac => 35 | r_exp => 36 | r_function_name => 37 | r_function_expr => 38
  | r_function_argument => 39 | r_segment => 40 | r_child_segment => 41 | r_bracketed_selection => 42
  | r_member_name_shorthand => 43 | r_name_first => 44 | r_name_char => 45 | r_DIGIT => 46 | r_ALPHA => 47
  | r_descendant_segment => 48
  end%nat.
Definition R (r : rule) : gexp := GRef (rule_id r).
Definition C (c : N) : gexp := GChar c.
Definition S_ : gexp := R r_S.

Definition rule_body (r : rule) : gexp :=
  match r with
  (* jsonpath-query = root-identifier segments        ; root-identifier = "$" *)
  | r_jsonpath_query => GSeq (C 36) (R r_segments)
  (* segments = *(S segment) *)
  | r_segments => GStar (GSeq S_ (R r_segment))
  (* B = %x20 / %x09 / %x0A / %x0D *)
  | r_B => GAlts [C 32; C 9; C 10; C 13]
  (* S = *B *)
  | r_S => GStar (R r_B)
  (* selector = name-selector / wildcard-selector / slice-selector / index-selector / filter-selector
     name-selector = string-literal ; wildcard-selector = "*" ; index-selector = int *)
  | r_selector => GAlts [R r_string_literal; C 42; R r_slice_selector; R r_int; R r_filter_selector]
  (* string-literal = %x22 *double-quoted %x22 / %x27 *single-quoted %x27 *)
  | r_string_literal => GAlt (GSeqs [C 34; GStar (R r_double_quoted); C 34]) (GSeqs [C 39; GStar (R r_single_quoted); C 39])
  (* double-quoted = unescaped / %x27 / ESC %x22 / ESC escapable        ; ESC = %x5C *)
  | r_double_quoted => GAlts [R r_unescaped; C 39; GSeq (C 92) (C 34); GSeq (C 92) (R r_escapable)]
  (* single-quoted = unescaped / %x22 / ESC %x27 / ESC escapable *)
  | r_single_quoted => GAlts [R r_unescaped; C 34; GSeq (C 92) (C 39); GSeq (C 92) (R r_escapable)]
  (* unescaped = %x20-21 / %x23-26 / %x28-5B / %x5D-D7FF / %xE000-10FFFF *)
  | r_unescaped => GAlts [GRange 32 33; GRange 35 38; GRange 40 91; GRange 93 55295; GRange 57344 1114111]
  (* escapable = %x62 / %x66 / %x6E / %x72 / %x74 / "/" / "\" / (%x75 hexchar) *)
  | r_escapable => GAlts [C 98; C 102; C 110; C 114; C 116; C 47; C 92; GSeq (C 117) (R r_hexchar)]
  (* hexchar = non-surrogate / (high-surrogate "\" %x75 low-surrogate) *)
  | r_hexchar => GAlt (R r_non_surrogate) (GSeqs [R r_high_surrogate; C 92; C 117; R r_low_surrogate])
  (* non-surrogate = ((DIGIT / "A"/"B"/"C" / "E"/"F") 3HEXDIG) / ("D" %x30-37 2HEXDIG ) *)
  | r_non_surrogate => GAlt (GSeqs [GAlts [R r_DIGIT; GCi 97; GCi 98; GCi 99; GCi 101; GCi 102]; R r_HEXDIG; R r_HEXDIG; R r_HEXDIG])
                            (GSeqs [GCi 100; GRange 48 55; R r_HEXDIG; R r_HEXDIG])
  (* high-surrogate = "D" ("8"/"9"/"A"/"B") 2HEXDIG *)
  | r_high_surrogate => GSeqs [GCi 100; GAlts [C 56; C 57; GCi 97; GCi 98]; R r_HEXDIG; R r_HEXDIG]
  (* low-surrogate = "D" ("C"/"D"/"E"/"F") 2HEXDIG *)
  | r_low_surrogate => GSeqs [GCi 100; GAlts [GCi 99; GCi 100; GCi 101; GCi 102]; R r_HEXDIG; R r_HEXDIG]
  (* HEXDIG = DIGIT / "A" / "B" / "C" / "D" / "E" / "F" *)
  | r_HEXDIG => GAlts [R r_DIGIT; GCi 97; GCi 98; GCi 99; GCi 100; GCi 101; GCi 102]
  (* int = "0" / (["-"] DIGIT1 *DIGIT) *)
  | r_int => GAlt (C 48) (GSeqs [GOpt (C 45); R r_DIGIT1; GStar (R r_DIGIT)])
  (* DIGIT1 = %x31-39 *)
  | r_DIGIT1 => GRange 49 57
  (* slice-selector = [start S] ":" S [end S] [":" [S step ]]      ; start = end = step = int *)
  | r_slice_selector => GSeqs [GOpt (GSeq (R r_int) S_); C 58; S_; GOpt (GSeq (R r_int) S_); GOpt (GSeq (C 58) (GOpt (GSeq S_ (R r_int))))]
  (* filter-selector = "?" S logical-expr               ; logical-expr = logical-or-expr *)
  | r_filter_selector => GSeqs [C 63; S_; R r_logical_or_expr]
  (* logical-or-expr = logical-and-expr *(S "||" S logical-and-expr) *)
  | r_logical_or_expr => GSeq (R r_logical_and_expr) (GStar (GSeqs [S_; C 124; C 124; S_; R r_logical_and_expr]))
  (* logical-and-expr = basic-expr *(S "&&" S basic-expr) *)
  | r_logical_and_expr => GSeq (R r_basic_expr) (GStar (GSeqs [S_; C 38; C 38; S_; R r_basic_expr]))
  (* basic-expr = paren-expr / comparison-expr / test-expr *)
  | r_basic_expr => GAlts [R r_paren_expr; R r_comparison_expr; R r_test_expr]
  (* paren-expr = [logical-not-op S] "(" S logical-expr S ")"        ; logical-not-op = "!" *)
  | r_paren_expr => GSeqs [GOpt (GSeq (C 33) S_); C 40; S_; R r_logical_or_expr; S_; C 41]
  (* test-expr = [logical-not-op S] (filter-query / function-expr) *)
  | r_test_expr => GSeq (GOpt (GSeq (C 33) S_)) (GAlt (R r_filter_query) (R r_function_expr))
  (* filter-query = rel-query / jsonpath-query *)
  | r_filter_query => GAlt (R r_rel_query) (R r_jsonpath_query)
  (* rel-query = current-node-identifier segments        ; current-node-identifier = "@" *)
  | r_rel_query => GSeq (C 64) (R r_segments)
  (* comparison-expr = comparable S comparison-op S comparable *)
  | r_comparison_expr => GSeqs [R r_comparable; S_; R r_comparison_op; S_; R r_comparable]
  (* literal = number / string-literal / true / false / null
     true = %x74.72.75.65 ; false = %x66.61.6c.73.65 ; null = %x6e.75.6c.6c *)
  | r_literal => GAlts [R r_number; R r_string_literal; GLit [116; 114; 117; 101]%N; GLit [102; 97; 108; 115; 101]%N; GLit [110; 117; 108; 108]%N]
  (* comparable = literal / singular-query / function-expr *)
  | r_comparable => GAlts [R r_literal; R r_singular_query; R r_function_expr]
  (* comparison-op = "==" / "!=" / "<=" / ">=" / "<" / ">" *)
  | r_comparison_op => GAlts [GLit [61; 61]%N; GLit [33; 61]%N; GLit [60; 61]%N; GLit [62; 61]%N; C 60; C 62]
  (* singular-query = rel-singular-query / abs-singular-query
     rel-singular-query = current-node-identifier singular-query-segments ; abs-... = root-identifier ... *)
  | r_singular_query => GSeq (GAlt (C 64) (C 36)) (R r_singular_query_segments)
  (* singular-query-segments = *(S (name-segment / index-segment)) *)
  | r_singular_query_segments => GStar (GSeq S_ (GAlt (R r_name_segment) (R r_index_segment)))
  (* name-segment = ("[" name-selector "]") / ("." member-name-shorthand)
     READING DECISION: "[" S name-selector S "]" *)
  | r_name_segment => GAlt (GSeqs [C 91; S_; R r_string_literal; S_; C 93]) (GSeq (C 46) (R r_member_name_shorthand))
  (* index-segment = "[" index-selector "]"        READING DECISION: "[" S index-selector S "]" *)
  | r_index_segment => GSeqs [C 91; S_; R r_int; S_; C 93]
  (* number = (int / "-0") [ frac ] [ exp ] *)
  | r_number => GSeqs [GAlt (R r_int) (GLit [45; 48]%N); GOpt (R r_frac); GOpt (R r_exp)]
  (* frac = "." 1*DIGIT *)
  | r_frac => GSeq (C 46) (GPlus (R r_DIGIT))
  (* exp = "e" [ "-" / "+" ] 1*DIGIT *)
  | r_exp => GSeqs [GCi 101; GOpt (GAlt (C 45) (C 43)); GPlus (R r_DIGIT)]
  (* function-name = function-name-first *function-name-char
     function-name-first = LCALPHA ; function-name-char = function-name-first / "_" / DIGIT ; LCALPHA = %x61-7A *)
  | r_function_name => GSeq (GRange 97 122) (GStar (GAlts [GRange 97 122; C 95; R r_DIGIT]))
  (* function-expr = function-name "(" S [function-argument *(S "," S function-argument)] S ")" *)
  | r_function_expr => GSeqs [R r_function_name; C 40; S_;
                              GOpt (GSeq (R r_function_argument) (GStar (GSeqs [S_; C 44; S_; R r_function_argument])));
                              S_; C 41]
  (* function-argument = literal / filter-query / logical-expr / function-expr *)
  | r_function_argument => GAlts [R r_literal; R r_filter_query; R r_logical_or_expr; R r_function_expr]
  (* segment = child-segment / descendant-segment *)
  | r_segment => GAlt (R r_child_segment) (R r_descendant_segment)
  (* child-segment = bracketed-selection / ("." (wildcard-selector / member-name-shorthand)) *)
  | r_child_segment => GAlt (R r_bracketed_selection) (GSeq (C 46) (GAlt (C 42) (R r_member_name_shorthand)))
  (* bracketed-selection = "[" S selector *(S "," S selector) S "]" *)
  | r_bracketed_selection => GSeqs [C 91; S_; R r_selector; GStar (GSeqs [S_; C 44; S_; R r_selector]); S_; C 93]
  (* member-name-shorthand = name-first *name-char *)
  | r_member_name_shorthand => GSeq (R r_name_first) (GStar (R r_name_char))
  (* name-first = ALPHA / "_" / %x80-D7FF / %xE000-10FFFF *)
  | r_name_first => GAlts [R r_ALPHA; C 95; GRange 128 55295; GRange 57344 1114111]
  (* name-char = name-first / DIGIT *)
  | r_name_char => GAlt (R r_name_first) (R r_DIGIT)
  (* DIGIT = %x30-39 *)
  | r_DIGIT => GRange 48 57
  (* ALPHA = %x41-5A / %x61-7A *)
  | r_ALPHA => GAlt (GRange 65 90) (GRange 97 122)
  (* descendant-segment = ".." (bracketed-selection / wildcard-selector / member-name-shorthand) *)
  | r_descendant_segment => GSeqs [C 46; C 46; GAlts [R r_bracketed_selection; C 42; R r_member_name_shorthand]]
  end.

Definition all_rules : list rule :=
  [r_jsonpath_query; r_segments; r_B; r_S; r_selector; r_string_literal; r_double_quoted; r_single_quoted;
   r_unescaped; r_escapable; r_hexchar; r_non_surrogate; r_high_surrogate; r_low_surrogate; r_HEXDIG;
   r_int; r_DIGIT1; r_slice_selector; r_filter_selector; r_logical_or_expr; r_logical_and_expr; r_basic_expr;
   r_paren_expr; r_test_expr; r_filter_query; r_rel_query; r_comparison_expr; r_literal; r_comparable;
   r_comparison_op; r_singular_query; r_singular_query_segments; r_name_segment; r_index_segment; r_number;
   r_frac; r_exp; r_function_name; r_function_expr; r_function_argument; r_segment; r_child_segment;
   r_bracketed_selection; r_member_name_shorthand; r_name_first; r_name_char; r_DIGIT; r_ALPHA; r_descendant_segment].

Definition rfc_grammar : grammar := fun n => match nth_error all_rules n with Some r => rule_body r | None => GRange 1 0 end.

(* "s is a well-formed RFC 9535 query" *)
Definition rfc_query (s : str) : Prop := derives rfc_grammar (R r_jsonpath_query) s.

Definition rfc_fuel (s : str) : nat := 40 * length s + 200.
Definition in_rfc_fuel (fuel : nat) (s : str) : bool := accepts rfc_grammar fuel (R r_jsonpath_query) s.
Definition in_rfc (s : str) : bool := in_rfc_fuel (rfc_fuel s) s.

Theorem in_rfc_sound : forall s, in_rfc s = true -> rfc_query s.
Proof. intros s H. eapply accepts_sound. exact H. Qed.

Theorem in_rfc_complete : forall s, rfc_query s -> exists fuel, forall fuel', (fuel <= fuel')%nat -> in_rfc_fuel fuel' s = true.
Proof. intros s H. apply accepts_complete. exact H. Qed.

Lemma all_rules_indexed : forall r, nth_error all_rules (rule_id r) = Some r.
Proof. destruct r; reflexivity. Qed.
