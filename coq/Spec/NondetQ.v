(* RFC 9535 on whole queries when the order of object members is left open (2.3.2.2 wildcard, 2.3.5.2 filter, 2.5.2.2 descendant
   segment): the nodelists a query may produce.  Two forms: the relation [nd_permitted] the theorems are about, and the enumeration
   [nd_results] of all of them for small inputs, which the check compares the implementation's complete outcome set with. *)
From JP Require Export Spec.Sem Spec.Nondet.
From Coq Require Import Permutation.

(* the children of a node in an order the RFC allows: members of an object in any order, elements of an array in index order *)
Definition kids_order (n : node) (cs : list node) : Prop :=
  match snd n with JObj _ => Permutation cs (children n) | _ => cs = children n end.

(* one result for each item in turn, concatenated *)
Inductive nd_each {A} (P : A -> list node -> Prop) : list A -> list node -> Prop :=
| NE_nil : nd_each P [] []
| NE_cons x xs r1 r2 : P x r1 -> nd_each P xs r2 -> nd_each P (x :: xs) (r1 ++ r2).

Section NdSem.
  Variable rg : registry.
  Variable rx : bool -> str -> str -> bool.

  Definition nd_sel (root : json) (n : node) (s : sel) (r : list node) : Prop :=
    match s with
    | SWild => kids_order n r
    | SFilter e => exists cs, kids_order n cs /\ r = filter (fun c => as_bool (s_expr rg rx TLogical root (snd c) e)) cs
    | _ => r = s_sel rg rx root s n
    end.
  (* the selectors of a segment on one node: their results in the order of the selectors *)
  Definition nd_sels (root : json) (ss : list sel) (n : node) (r : list node) : Prop := nd_each (nd_sel root n) ss r.
  Definition nd_seg (root : json) (sg : seg) (ns r : list node) : Prop :=
    match sg with
    | Child ss => nd_each (nd_sels root ss) ns r
    | Desc ss => nd_each (fun n r => exists o, Permutation o (descendants (fst n) (snd n)) /\ valid_order n (map fst o) = true /\ nd_each (nd_sels root ss) o r) ns r
    end.
  Inductive nd_segs (root : json) : list seg -> list node -> list node -> Prop :=
  | NQ_nil ns : nd_segs root [] ns ns
  | NQ_cons sg q ns mid r : nd_seg root sg ns mid -> nd_segs root q mid r -> nd_segs root (sg :: q) ns r.
  Definition nd_permitted (q : query) (v : json) (r : list node) : Prop := nd_segs v q [([], v)] r.

  (* ---- enumeration ---- *)
  Fixpoint all_perms {A} (fuel : nat) (l : list A) : list (list A) :=
    match fuel with
    | O => [[]]
    | S f => match l with
             | [] => [[]]
             | _ => flat_map (fun i => match nth_error l i with
                                       | Some x => map (cons x) (all_perms f (firstn i l ++ skipn (S i) l))
                                       | None => []
                                       end) (seq 0 (length l))
             end
    end.
  Definition kid_orders (n : node) : list (list node) :=
    match snd n with JObj _ => all_perms (length (children n)) (children n) | _ => [children n] end.
  (* every way of taking one list from each set, concatenated *)
  Fixpoint cat_choices {A} (cs : list (list (list A))) : list (list A) :=
    match cs with [] => [[]] | c :: r => flat_map (fun x => map (app x) (cat_choices r)) c end.
  Definition e_sel (root : json) (n : node) (s : sel) : list (list node) :=
    match s with
    | SWild => kid_orders n
    | SFilter e => map (filter (fun c => as_bool (s_expr rg rx TLogical root (snd c) e))) (kid_orders n)
    | _ => [s_sel rg rx root s n]
    end.
  Definition e_sels (root : json) (ss : list sel) (n : node) : list (list node) := cat_choices (map (e_sel root n) ss).
  Definition e_seg (root : json) (sg : seg) (ns : list node) : list (list node) :=
    match sg with
    | Child ss => cat_choices (map (e_sels root ss) ns)
    | Desc ss => cat_choices (map (fun n => flat_map (fun o => cat_choices (map (e_sels root ss) o)) (all_orders n)) ns)
    end.
  Fixpoint e_segs (root : json) (q : list seg) (ns : list node) : list (list node) :=
    match q with [] => [ns] | sg :: q' => flat_map (e_segs root q') (e_seg root sg ns) end.
  Definition nd_results (q : query) (v : json) : list (list node) := e_segs v q [([], v)].
End NdSem.
