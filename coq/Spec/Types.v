(* RFC 9535 section 2.4.3: well-typedness of function expressions, and the rule that only singular
   queries are compared (2.3.5.1).  [wt_expr want e]: e may stand where a value of declared type
   [want] is expected; a filter's top-level expression and the operands of !, &&, || are LogicalType. *)
From JP Require Export Base.Json Model.Ast.

Definition singular_seg (sg : seg) : bool :=
  match sg with
  | Child [SName _] => true
  | Child [SIndex _] => true
  | _ => false
  end.
Definition singular (q : list seg) : bool := forallb singular_seg q.

Definition is_logical (t : ty3) : bool := match t with TLogical => true | _ => false end.
(* a function whose declared result type is [ret] used where [want] is expected *)
Definition ret_ok (want ret : ty3) : bool :=
  match want, ret with
  | TValue, TValue => true
  | TLogical, TLogical => true
  | TLogical, TNodes => true
  | TNodes, TNodes => true
  | _, _ => false
  end.

Section Typing.
  Variable rg : registry.

  Fixpoint wt_sel (s : sel) {struct s} : bool :=
    match s with
    | SFilter e => wt_expr TLogical e
    | _ => true
    end
  with wt_expr (want : ty3) (e : expr) {struct e} : bool :=
    match e with
    | ELit v => match want with TValue => negb (is_container v) | _ => false end   (* literals are scalars *)
    | ERel q | EAbs q =>
        (fix go (q : list seg) : bool := match q with [] => true | sg :: q' => wt_seg sg && go q' end) q
        && match want with TValue => singular q | _ => true end
    | ENot a => is_logical want && wt_expr TLogical a
    | EAnd a b | EOr a b => is_logical want && wt_expr TLogical a && wt_expr TLogical b
    | ECmp _ a b => is_logical want && wt_expr TValue a && wt_expr TValue b
    | ECall f args =>
        match find_assoc f rg with
        | None => false
        | Some d =>
            ret_ok want (f_ret d) &&
            (fix go (tys : list ty3) (args : list expr) {struct args} : bool :=
               match args with
               | [] => match tys with [] => true | _ => false end
               | a :: args' => match tys with [] => false | t :: tys' => wt_expr t a && go tys' args' end
               end) (f_args d) args
        end
    end
  with wt_seg (sg : seg) {struct sg} : bool :=
    match sg with
    | Child ss | Desc ss =>
        (fix go (ss : list sel) : bool := match ss with [] => true | s :: ss' => wt_sel s && go ss' end) ss
    end.

  Definition wt_query (q : query) : bool := forallb wt_seg q.
End Typing.

(* all index and slice integers of a query lie within [lo, hi] (RFC 9535 2.1: the I-JSON range by default) *)
Section Range.
  Variables lo hi : Z.
  Definition zr (i : Z) : bool := (lo <=? i) && (i <=? hi).
  Definition ozr (o : option Z) : bool := match o with Some i => zr i | None => true end.
  Fixpoint ir_sel (s : sel) {struct s} : bool :=
    match s with
    | SIndex i => zr i
    | SSlice a b c => ozr a && ozr b && ozr c
    | SFilter e => ir_expr e
    | _ => true
    end
  with ir_expr (e : expr) {struct e} : bool :=
    match e with
    | ELit _ => true
    | ERel q | EAbs q => (fix go (q : list seg) : bool := match q with [] => true | g :: q' => ir_seg g && go q' end) q
    | ECall _ args => (fix go (l : list expr) : bool := match l with [] => true | a :: l' => ir_expr a && go l' end) args
    | ENot a => ir_expr a
    | EAnd a b | EOr a b | ECmp _ a b => ir_expr a && ir_expr b
    end
  with ir_seg (g : seg) {struct g} : bool :=
    match g with
    | Child ss | Desc ss => (fix go (l : list sel) : bool := match l with [] => true | s :: l' => ir_sel s && go l' end) ss
    end.
  Definition ints_in_range (q : query) : bool := forallb ir_seg q.
End Range.
