(* Line and column of an offset in a text: lines are separated by LF only; the line number is 1 + the number of
   LF characters before the offset; the column is the number of characters between the start of that line and
   the offset (0-based, the convention the existing tests pin). *)
From JP Require Export Base.Prelude.

Definition is_lf (c : N) : bool := N.eqb c 10.
Definition line_of (text : str) (off : nat) : Z := 1 + Z.of_nat (length (filter is_lf (firstn off text))).
(* characters after the last LF of the prefix *)
Fixpoint since_last_lf (prefix : str) (acc : Z) : Z :=
  match prefix with
  | [] => acc
  | c :: r => since_last_lf r (if is_lf c then 0 else acc + 1)
  end.
Definition col_of (text : str) (off : nat) : Z := since_last_lf (firstn off text) 0.
