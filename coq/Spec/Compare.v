(* RFC 9535 section 2.3.5.2.2: comparison of two comparands, each "Nothing" or a JSON value. *)
From JP Require Export Base.Json Model.Ast.

Inductive comparand := Nothing | Val (v : json).

(* equality of JSON values: numbers by numeric value, strings by code points, arrays element-wise,
   objects as maps from (distinct) names to values; never across kinds *)
Fixpoint json_eq (a b : json) {struct a} : bool :=
  match a, b with
  | JNull, JNull => true
  | JBool x, JBool y => Bool.eqb x y
  | JNum x, JNum y => num_eqb x y
  | JStr x, JStr y => str_eqb x y
  | JArr x, JArr y =>
      (fix go (x y : list json) : bool :=
         match x, y with
         | [], [] => true
         | a' :: x', b' :: y' => json_eq a' b' && go x' y'
         | _, _ => false
         end) x y
  | JObj x, JObj y =>
      (* every member of x has an equal member of the same name in y, and y has no other names *)
      (fix go (x : list (str * json)) : bool :=
         match x with
         | [] => true
         | (k, v) :: x' => match find_assoc k y with Some v' => json_eq v v' && go x' | None => false end
         end) x
      && forallb (fun k => existsb (str_eqb k) (map fst x)) (map fst y)
  | _, _ => false
  end.

Definition c_eq (a b : comparand) : bool :=
  match a, b with
  | Nothing, Nothing => true
  | Val x, Val y => json_eq x y
  | _, _ => false
  end.

(* '<' holds only between two numbers or two strings *)
Definition c_lt (a b : comparand) : bool :=
  match a, b with
  | Val (JNum x), Val (JNum y) => num_ltb x y
  | Val (JStr x), Val (JStr y) => str_ltb x y
  | _, _ => false
  end.

Definition cmp (o : cmpop) (a b : comparand) : bool :=
  match o with
  | OEq => c_eq a b
  | ONe => negb (c_eq a b)
  | OLt => c_lt a b
  | OGt => c_lt b a
  | OLe => c_lt a b || c_eq a b
  | OGe => c_lt b a || c_eq a b
  end.
