(* RFC 9535 with the built-in functions: the grammar of Spec/Rfc9535Grammar.v in which every function call is a well-typed use of
   length / count / value (the result is a value: comparands, ValueType arguments) or match / search (the result is logical: tests),
   following the typing rules of 2.4.3 and the signatures of 2.4.4 - 2.4.8.  Proofs/AbnfSpellG.v: every string of it is a string of the RFC
   grammar and compiles; the check of C05 compares membership (proved-sound recognizer) with compile() on generated queries, both ways. *)
From JP Require Export Spec.Abnf Spec.Rfc9535Grammar.

Definition s_length : str := [108; 101; 110; 103; 116; 104]%N.
Definition s_count : str := [99; 111; 117; 110; 116]%N.
Definition s_value : str := [118; 97; 108; 117; 101]%N.
Definition s_match : str := [109; 97; 116; 99; 104]%N.
Definition s_search : str := [115; 101; 97; 114; 99; 104]%N.
Definition id_vfn : nat := 100.      (* a call whose result is a value *)
Definition id_varg : nat := 101.     (* an argument for a ValueType parameter *)
Definition id_lfn : nat := 103.      (* a call whose result is logical *)
Definition call1 (f : str) (arg : gexp) : gexp := GSeqs [GLit f; C 40; S_; arg; S_; C 41].
Definition call2 (f : str) (a1 a2 : gexp) : gexp := GSeqs [GLit f; C 40; S_; a1; S_; C 44; S_; a2; S_; C 41].
Definition bf_grammar : grammar := fun n =>
  if Nat.eqb n id_vfn then GAlts [call1 s_length (GRef id_varg); call1 s_count (R r_filter_query); call1 s_value (R r_filter_query)]
  else if Nat.eqb n id_varg then GAlts [R r_literal; R r_singular_query; GRef id_vfn]
  else if Nat.eqb n id_lfn then GAlt (call2 s_match (GRef id_varg) (GRef id_varg)) (call2 s_search (GRef id_varg) (GRef id_varg))
  else match nth_error all_rules n with
       | Some r_comparable => GAlts [R r_literal; R r_singular_query; GRef id_vfn]
       | Some r_test_expr => GSeq (GOpt (GSeq (C 33) S_)) (GAlt (R r_filter_query) (GRef id_lfn))
       | Some r => rule_body r
       | None => GRange 1 0
       end.

Definition in_bf (s : str) : bool := accepts bf_grammar (40 * length s + 200) (R r_jsonpath_query) s.
Theorem in_bf_sound s : in_bf s = true -> derives bf_grammar (R r_jsonpath_query) s.
Proof. intros H. eapply accepts_sound. exact H. Qed.
