
type nat =
| O
| S of nat

val fst : ('a1 * 'a2) -> 'a1

val snd : ('a1 * 'a2) -> 'a2

val length : 'a1 list -> nat

val app : 'a1 list -> 'a1 list -> 'a1 list

type comparison =
| Eq
| Lt
| Gt

val compOpp : comparison -> comparison

val add : nat -> nat -> nat

val map : ('a1 -> 'a2) -> 'a1 list -> 'a2 list

val flat_map : ('a1 -> 'a2 list) -> 'a1 list -> 'a2 list

val combine : 'a1 list -> 'a2 list -> ('a1 * 'a2) list

val seq : nat -> nat -> nat list

type positive =
| XI of positive
| XO of positive
| XH

type n =
| N0
| Npos of positive

type z =
| Z0
| Zpos of positive
| Zneg of positive

module Pos :
 sig
  val succ : positive -> positive

  val add : positive -> positive -> positive

  val add_carry : positive -> positive -> positive

  val pred_double : positive -> positive

  val mul : positive -> positive -> positive

  val compare_cont : comparison -> positive -> positive -> comparison

  val compare : positive -> positive -> comparison

  val eqb : positive -> positive -> bool

  val iter_op : ('a1 -> 'a1 -> 'a1) -> positive -> 'a1 -> 'a1

  val to_nat : positive -> nat

  val of_succ_nat : nat -> positive
 end

module Z :
 sig
  val double : z -> z

  val succ_double : z -> z

  val pred_double : z -> z

  val pos_sub : positive -> positive -> z

  val add : z -> z -> z

  val opp : z -> z

  val sub : z -> z -> z

  val mul : z -> z -> z

  val compare : z -> z -> comparison

  val leb : z -> z -> bool

  val ltb : z -> z -> bool

  val eqb : z -> z -> bool

  val max : z -> z -> z

  val min : z -> z -> z

  val abs : z -> z

  val to_nat : z -> nat

  val of_nat : nat -> z

  val of_N : n -> z

  val pos_div_eucl : positive -> z -> z * z

  val div_eucl : z -> z -> z * z

  val div : z -> z -> z
 end

type str = n list

val zlen : 'a1 list -> z

val znth_aux : 'a1 list -> z -> 'a1 option

val znth : 'a1 list -> z -> 'a1 option

type num =
| NInt of z
| NFlt of z * z
| NNegZero
| NInf of bool

type json =
| JNull
| JBool of bool
| JNum of num
| JStr of str
| JArr of json list
| JObj of (str * json) list

type 'a dec = z list -> ('a * z list) option

val dec_z : z dec

val dec_opt : 'a1 dec -> 'a1 option dec

val enc_bool : bool -> z list

val enc_list : ('a1 -> z list) -> 'a1 list -> z list

val enc_str : str -> z list

val enc_num : num -> z list

val enc_json : json -> z list

val bad_request : z list

val py_slice_indices : z -> z option -> z option -> z option -> (z * z) * z

val py_range_len : z -> z -> z -> z

val py_range : z -> z -> z -> z list

val py_list_getitem : 'a1 list -> z -> 'a1 option

val m_normalized_index : z -> z -> z

val m_index_select : json list -> z -> (z * json) list

val m_slice_select :
  json list -> z option -> z option -> z option -> (z * json) list

val normalize : z -> z -> z

val bounds : z -> z -> z -> z -> z * z

val loop_up : nat -> z -> z -> z -> z list

val loop_down : nat -> z -> z -> z -> z list

val slice_fuel : z -> nat

val rfc_slice_fuel : nat -> z -> z option -> z option -> z option -> z list

val rfc_slice : z -> z option -> z option -> z option -> z list

val rfc_index : z -> z -> z list

val iota_json : z -> json list

val enc_sel : (z * json) list -> z list

val dispatch : z list -> z list
