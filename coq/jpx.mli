
val xorb : bool -> bool -> bool

val negb : bool -> bool

type nat =
| O
| S of nat

val fst : ('a1 * 'a2) -> 'a1

val snd : ('a1 * 'a2) -> 'a2

val length : 'a1 list -> nat

val app : 'a1 list -> 'a1 list -> 'a1 list

type comparison =
| Eq
| Lt
| Gt

val compOpp : comparison -> comparison

val add : nat -> nat -> nat

val mul : nat -> nat -> nat

val eqb : bool -> bool -> bool

module Nat :
 sig
  val eqb : nat -> nat -> bool

  val leb : nat -> nat -> bool

  val ltb : nat -> nat -> bool
 end

val tl : 'a1 list -> 'a1 list

val in_dec : ('a1 -> 'a1 -> bool) -> 'a1 -> 'a1 list -> bool

val nth : nat -> 'a1 list -> 'a1 -> 'a1

val nth_error : 'a1 list -> nat -> 'a1 option

val rev : 'a1 list -> 'a1 list

val list_eq_dec : ('a1 -> 'a1 -> bool) -> 'a1 list -> 'a1 list -> bool

val map : ('a1 -> 'a2) -> 'a1 list -> 'a2 list

val flat_map : ('a1 -> 'a2 list) -> 'a1 list -> 'a2 list

val fold_left : ('a1 -> 'a2 -> 'a1) -> 'a2 list -> 'a1 -> 'a1

val fold_right : ('a2 -> 'a1 -> 'a1) -> 'a1 -> 'a2 list -> 'a1

val existsb : ('a1 -> bool) -> 'a1 list -> bool

val forallb : ('a1 -> bool) -> 'a1 list -> bool

val filter : ('a1 -> bool) -> 'a1 list -> 'a1 list

val combine : 'a1 list -> 'a2 list -> ('a1 * 'a2) list

val firstn : nat -> 'a1 list -> 'a1 list

val skipn : nat -> 'a1 list -> 'a1 list

val nodup : ('a1 -> 'a1 -> bool) -> 'a1 list -> 'a1 list

val seq : nat -> nat -> nat list

val repeat : 'a1 -> nat -> 'a1 list

type positive =
| XI of positive
| XO of positive
| XH

type n =
| N0
| Npos of positive

type z =
| Z0
| Zpos of positive
| Zneg of positive

module Pos :
 sig
  type mask =
  | IsNul
  | IsPos of positive
  | IsNeg
 end

module Coq_Pos :
 sig
  val succ : positive -> positive

  val add : positive -> positive -> positive

  val add_carry : positive -> positive -> positive

  val pred_double : positive -> positive

  val pred_N : positive -> n

  type mask = Pos.mask =
  | IsNul
  | IsPos of positive
  | IsNeg

  val succ_double_mask : mask -> mask

  val double_mask : mask -> mask

  val double_pred_mask : positive -> mask

  val sub_mask : positive -> positive -> mask

  val sub_mask_carry : positive -> positive -> mask

  val mul : positive -> positive -> positive

  val iter : ('a1 -> 'a1) -> 'a1 -> positive -> 'a1

  val div2 : positive -> positive

  val div2_up : positive -> positive

  val size : positive -> positive

  val compare_cont : comparison -> positive -> positive -> comparison

  val compare : positive -> positive -> comparison

  val eqb : positive -> positive -> bool

  val coq_Nsucc_double : n -> n

  val coq_Ndouble : n -> n

  val coq_lor : positive -> positive -> positive

  val coq_land : positive -> positive -> n

  val ldiff : positive -> positive -> n

  val iter_op : ('a1 -> 'a1 -> 'a1) -> positive -> 'a1 -> 'a1

  val to_nat : positive -> nat

  val of_succ_nat : nat -> positive

  val eq_dec : positive -> positive -> bool
 end

module N :
 sig
  val succ_double : n -> n

  val double : n -> n

  val succ_pos : n -> positive

  val sub : n -> n -> n

  val compare : n -> n -> comparison

  val eqb : n -> n -> bool

  val leb : n -> n -> bool

  val ltb : n -> n -> bool

  val pos_div_eucl : positive -> n -> n * n

  val coq_lor : n -> n -> n

  val coq_land : n -> n -> n

  val ldiff : n -> n -> n

  val eq_dec : n -> n -> bool
 end

module Z :
 sig
  val double : z -> z

  val succ_double : z -> z

  val pred_double : z -> z

  val pos_sub : positive -> positive -> z

  val add : z -> z -> z

  val opp : z -> z

  val sub : z -> z -> z

  val mul : z -> z -> z

  val pow_pos : z -> positive -> z

  val pow : z -> z -> z

  val compare : z -> z -> comparison

  val leb : z -> z -> bool

  val ltb : z -> z -> bool

  val eqb : z -> z -> bool

  val max : z -> z -> z

  val min : z -> z -> z

  val abs : z -> z

  val to_nat : z -> nat

  val to_N : z -> n

  val of_nat : nat -> z

  val of_N : n -> z

  val pos_div_eucl : positive -> z -> z * z

  val div_eucl : z -> z -> z * z

  val div : z -> z -> z

  val modulo : z -> z -> z

  val quotrem : z -> z -> z * z

  val quot : z -> z -> z

  val even : z -> bool

  val odd : z -> bool

  val div2 : z -> z

  val log2 : z -> z

  val shiftl : z -> z -> z

  val coq_lor : z -> z -> z

  val coq_land : z -> z -> z
 end

type str = n list

val str_eqb : str -> str -> bool

val str_ltb : str -> str -> bool

type jperr =
| ESyntax
| EType
| EIndex
| EName
| ELexer
| ERecursion

type pyexn =
| XOverflow
| XTypeError
| XKeyError
| XIndexError
| XAttribute
| XValue
| XRecursion
| XStopIteration
| XAssertion

type 'a result =
| Ok of 'a
| Err of jperr * z option
| Crash of pyexn
| OutOfFuel

val bind : 'a1 result -> ('a1 -> 'a2 result) -> 'a2 result

val jperr_code : jperr -> z

val pyexn_code : pyexn -> z

val flat_mapM : ('a1 -> 'a2 list result) -> 'a1 list -> 'a2 list result

val zlen : 'a1 list -> z

val znth_aux : 'a1 list -> z -> 'a1 option

val znth : 'a1 list -> z -> 'a1 option

val find_assoc : str -> (str * 'a1) list -> 'a1 option

type num =
| NInt of z
| NFlt of z * z
| NNegZero
| NInf of bool

type json =
| JNull
| JBool of bool
| JNum of num
| JStr of str
| JArr of json list
| JObj of (str * json) list

type xval =
| XFin of z * z
| XInf of bool

val num_xval : num -> xval

val fin_compare : z -> z -> z -> z -> comparison

val xval_compare : xval -> xval -> comparison

val num_compare : num -> num -> comparison

val num_eqb : num -> num -> bool

val num_ltb : num -> num -> bool

val num_is_zero : num -> bool

val num_same : num -> num -> bool

type key =
| KName of str
| KIdx of z

type node = key list * json

val key_eqb : key -> key -> bool

val is_container : json -> bool

val enum_from : z -> 'a1 list -> (z * 'a1) list

val children : node -> node list

type 'a dec = z list -> ('a * z list) option

val dec_z : z dec

val dec_bool : bool dec

val dec_nat : nat dec

val dec_opt : 'a1 dec -> 'a1 option dec

val dec_n : 'a1 dec -> nat -> z list -> ('a1 list * z list) option

val dec_list : 'a1 dec -> 'a1 list dec

val dec_cp : n dec

val dec_str : str dec

val dec_pair : 'a1 dec -> 'a2 dec -> ('a1 * 'a2) dec

val dec_json_f : nat -> z list -> (json * z list) option

val dec_json : json dec

val enc_bool : bool -> z list

val enc_opt : ('a1 -> z list) -> 'a1 option -> z list

val enc_list : ('a1 -> z list) -> 'a1 list -> z list

val enc_str : str -> z list

val enc_num : num -> z list

val enc_json : json -> z list

val enc_key : key -> z list

val enc_node : node -> z list

val enc_result : ('a1 -> z list) -> 'a1 result -> z list

val dec_key : key dec

val bad_request : z list

type ty3 =
| TValue
| TLogical
| TNodes

type cmpop =
| OEq
| ONe
| OLt
| OLe
| OGt
| OGe

type sel =
| SName of str
| SIndex of z
| SSlice of z option * z option * z option
| SWild
| SFilter of expr
and expr =
| ELit of json
| ERel of seg list
| EAbs of seg list
| ECall of str * expr list
| ENot of expr
| EAnd of expr * expr
| EOr of expr * expr
| ECmp of cmpop * expr * expr
and seg =
| Child of sel list
| Desc of sel list

type query = seg list

type pyobj =
| PVal of json
| PNodes of node list
| PNothing

type fimpl =
| FLength
| FCount
| FValue
| FMatch
| FSearch
| FConst of pyobj
| FFirst

type fdecl = { f_args : ty3 list; f_ret : ty3; f_impl : fimpl }

type registry = (str * fdecl) list

val ty3_eqb : ty3 -> ty3 -> bool

val s_length : str

val s_count : str

val s_value : str

val s_match : str

val s_search : str

val builtin_registry : registry

type envcfg = { min_idx : z; max_idx : z; max_depth : nat; reg : registry;
                rx : (bool -> str -> str -> bool) }

val dec_cmpop : cmpop dec

val enc_cmpop : cmpop -> z list

val dec_ty3 : ty3 dec

val dec_sel_f : nat -> z list -> (sel * z list) option

val dec_expr_f : nat -> z list -> (expr * z list) option

val dec_seg_f : nat -> z list -> (seg * z list) option

val dec_query : query dec

val enc_sel : sel -> z list

val enc_expr : expr -> z list

val enc_seg : seg -> z list

val enc_query : query -> z list

val dec_pyobj : pyobj dec

val dec_fimpl : fimpl dec

val dec_fdecl : (str * fdecl) dec

val dec_registry : registry dec

type rxrow = ((bool * str) * str) * bool

val dec_rxrow : rxrow dec

val rx_lookup : rxrow list -> bool -> str -> str -> bool

val py_slice_indices : z -> z option -> z option -> z option -> (z * z) * z

val py_range_len : z -> z -> z -> z

val py_range : z -> z -> z -> z list

val py_list_getitem : 'a1 list -> z -> 'a1 option

val m_normalized_index : z -> z -> z

val m_index_select : json list -> z -> (z * json) list

val m_slice_select :
  json list -> z option -> z option -> z option -> (z * json) list

val normalize : z -> z -> z

val bounds : z -> z -> z -> z -> z * z

val loop_up : nat -> z -> z -> z -> z list

val loop_down : nat -> z -> z -> z -> z list

val slice_fuel : z -> nat

val rfc_slice_fuel : nat -> z -> z option -> z option -> z option -> z list

val rfc_slice : z -> z option -> z option -> z option -> z list

val rfc_index : z -> z -> z list

val py_bool : json -> bool

val m_is_truthy : pyobj -> bool

val m_json_eq : json -> json -> bool

val m_eq : pyobj -> pyobj -> bool

val m_lt : pyobj -> pyobj -> bool

val m_cmp : cmpop -> pyobj -> pyobj -> bool

val mk_child : node -> key -> json -> node

val m_visit : nat -> nat -> key list -> json -> node list result

val m_py_len : pyobj -> z option

val m_apply : envcfg -> fdecl -> pyobj list -> pyobj result

val m_unpack : ty3 list -> pyobj list -> pyobj list result

val m_unwrap1 : pyobj -> pyobj

val run_segs :
  (seg -> node list -> node list result) -> seg list -> node list -> node
  list result

val m_sel : envcfg -> json -> sel -> node -> node list result

val m_expr : envcfg -> json -> json -> expr -> pyobj result

val m_seg : envcfg -> json -> seg -> node list -> node list result

val m_segs : envcfg -> json -> seg list -> node list -> node list result

val m_find : envcfg -> query -> json -> node list result

type comparand =
| Nothing
| Val of json

val json_eq : json -> json -> bool

val c_eq : comparand -> comparand -> bool

val c_lt : comparand -> comparand -> bool

val cmp : cmpop -> comparand -> comparand -> bool

val child_at : node -> key -> json -> node

val descendants : key list -> json -> node list

val select_idx : node -> json list -> z list -> node list

type sval =
| SV of comparand
| SL of bool
| SN of node list

val as_val : sval -> comparand

val as_bool : sval -> bool

val as_nodes : sval -> node list

val nonempty : 'a1 list -> bool

val conv_nodes : ty3 -> node list -> sval

val coerce : ty3 -> ty3 -> sval -> sval

val sval_of_pyobj : ty3 -> pyobj -> sval

val fn_sem : (bool -> str -> str -> bool) -> fdecl -> sval list -> sval

val run_segs_s :
  (seg -> node list -> node list) -> seg list -> node list -> node list

val s_sel :
  registry -> (bool -> str -> str -> bool) -> json -> sel -> node -> node list

val s_expr :
  registry -> (bool -> str -> str -> bool) -> ty3 -> json -> json -> expr ->
  sval

val s_seg :
  registry -> (bool -> str -> str -> bool) -> json -> seg -> node list ->
  node list

val s_segs :
  registry -> (bool -> str -> str -> bool) -> json -> seg list -> node list
  -> node list

val sem :
  registry -> (bool -> str -> str -> bool) -> query -> json -> node list

type ttype =
| T_EOF
| T_ERROR
| T_INIT
| T_COLON
| T_COMMA
| T_DOUBLE_DOT
| T_FILTER
| T_INDEX
| T_LBRACKET
| T_PROPERTY
| T_RBRACKET
| T_ROOT
| T_WILD
| T_AND
| T_CURRENT
| T_DQ_STRING
| T_EQ
| T_FALSE
| T_FLOAT
| T_FUNCTION
| T_GE
| T_GT
| T_INT
| T_LE
| T_LPAREN
| T_LT
| T_NE
| T_NOT
| T_NULL
| T_OR
| T_RPAREN
| T_SQ_STRING
| T_TRUE

val ttype_code : ttype -> z

val ttype_eqb : ttype -> ttype -> bool

type token = { ty : ttype; tval : str; tidx : z }

type stream = { cur : token; pushed : token list; rest : token list }

val eof_token : token

val stream_init : token list -> stream

val s_next : stream -> token * stream

val s_push : stream -> token -> stream

val s_peek : stream -> token * stream

type re =
| REps
| RClass of bool * (n * n) list
| RSeq of re * re
| RAlt of re * re
| RStar of re

val rPlus : re -> re

val rOpt : re -> re

val rChar : n -> re

val in_ranges : n -> (n * n) list -> bool

val rm : nat -> re -> n list -> z -> (n list -> z -> z option) -> z option

val re_match : re -> n list -> z option

val cls_digit : (n * n) list

val re_digits : re

val re_minus_opt : re

val re_eE : re

val rE_WHITESPACE : re

val cls_name_first : (n * n) list

val cls_name_char : (n * n) list

val rE_PROPERTY : re

val rE_INDEX : re

val rE_INT : re

val rE_FLOAT : re

val rE_FUNCTION_NAME : re

val eSCAPES : n list

type lexer = { l_rest : n list; l_cur : n list; l_start : z; l_pos : 
               z; l_fdepth : z; l_ffd : z list; l_fcs : z list;
               l_bs : (n * z) list; l_toks : token list }

type lstate =
| SRoot
| SSegment
| SDescendant
| SShorthand
| SBracket
| SFilter0
| SString of n * bool
| SStringBody of n * bool

type lexout =
| LNext of lstate * lexer
| LStop of lexer
| LRaise of jperr * z
| LCrash of pyexn

val upd_text : lexer -> n list -> n list -> z -> z -> lexer

val l_next : lexer -> n option * lexer

val l_peek : lexer -> n option

val l_ignore : lexer -> lexer

val l_backup : lexer -> lexer option

val add_tok : lexer -> token -> lexer

val l_emit : ttype -> lexer -> lexer

val l_error : lexer -> lexout

val skipn_push : nat -> n list -> n list -> n list * n list

val l_advance : lexer -> z -> lexer

val l_accept_match : re -> lexer -> bool * lexer

val is_prefix : n list -> n list -> bool

val l_accept : n list -> lexer -> bool * lexer

val l_ignore_ws : lexer -> (bool * lexer) option

val set_stacks : lexer -> z -> z list -> z list -> (n * z) list -> lexer

val push_bracket : n -> z -> lexer -> lexer

val ceq : n option -> n -> bool

val s_true : n list

val s_false : n list

val s_null : n list

val emit2 : lexer -> n -> ttype -> ttype -> lexer

val lex_step : lstate -> lexer -> lexout

val lex_run : nat -> lstate -> lexer -> lexer result

val lexer_init : str -> lexer

val lex_fuel : str -> nat

val m_tokenize : str -> token list result

val is_digit : n -> bool

val take_digits : n list -> n list * n list

val digits_val : n list -> z

type decimal = { d_neg : bool; d_mant : z; d_exp10 : z; d_ndig : z }

val hd_is : n -> str -> bool

val parse_decimal : str -> decimal option

val strip_twos : nat -> z -> z -> z * z

val round_ratio : z -> z -> (z * z) option

val float_of_decimal : decimal -> num

val py_float : str -> num option

val py_int_of_float : num -> z option

type 'a pres =
| POk of 'a * stream
| PErr of jperr * z
| PCrash of pyexn * stream
| PFuel

val pbind : 'a1 pres -> ('a1 -> stream -> 'a2 pres) -> 'a2 pres

val cty : stream -> ttype

val is_ty : ttype -> stream -> bool

val peek_ty : stream -> ttype

val err_cur : jperr -> stream -> 'a1 pres

val err_peek : jperr -> stream -> 'a1 pres

val adv : stream -> stream

val after_peek : stream -> stream

val pRECEDENCE_LOWEST : z

val pRECEDENCE_PREFIX : z

val precedence_of : ttype -> z

type binop =
| BAnd
| BOr
| BCmp of cmpop

val binary_operator : ttype -> binop option

val is_comparison_tok : ttype -> bool

val in_token_map : ttype -> bool

val in_function_argument_map : ttype -> bool

val is_literal : expr -> bool

val is_filter_query : expr -> bool

val is_compound : expr -> bool

val m_singular : seg list -> bool

val query_of : expr -> seg list

val function_return_type : registry -> expr -> ty3 option

val opt_ty_is : ty3 option -> ty3 -> bool

val replace_dq : str -> str

val replace_esc_sq : str -> str

val hex_val : n -> z option

val parse_hex4 : str -> z -> z option

val is_high_surrogate : z -> bool

val is_low_surrogate : z -> bool

type dres =
| DOk of z * z
| DSyntax
| DIndexError

val ceq_z : n option -> n -> bool

val decode_hex_char : str -> z -> dres

val decode_escape : str -> z -> dres

val unescape_loop : nat -> str -> z -> n list -> str option option

val decode_string_literal : token -> str result

val starts_with : str -> str -> bool

val int_of_index : str -> z

val lstrip_minus : str -> str

val take_until : (n -> bool) -> str -> str

val has_leading_zero : str -> bool

val in_range : envcfg -> z -> bool

val p_literal : stream -> (expr * z) pres

val maybe_index : stream -> bool pres

val p_slice : envcfg -> stream -> sel pres

val value_function : envcfg -> expr -> bool

val non_comparable : envcfg -> expr -> jperr option

val check_args : envcfg -> ty3 list -> expr list -> bool

val grouped_ok : ty3 list -> bool list -> bool

val p_query : envcfg -> nat -> bool -> stream -> seg list pres

val parse_fuel : token list -> nat

val p_parse : envcfg -> token list -> query pres

val m_compile : envcfg -> str -> query result

val m_env_find : envcfg -> str -> json -> node list result

type gexp =
| GEps
| GRange of n * n
| GSeq of gexp * gexp
| GAlt of gexp * gexp
| GStar of gexp
| GRef of nat

type grammar = nat -> gexp

val str_eq_dec : str -> str -> bool

val recog : grammar -> nat -> gexp -> str -> str list

val accepts : grammar -> nat -> gexp -> str -> bool

val gChar : n -> gexp

val gLit : n list -> gexp

val gOpt : gexp -> gexp

val gPlus : gexp -> gexp

val gAlts : gexp list -> gexp

val gSeqs : gexp list -> gexp

val gCi : n -> gexp

type rule =
| R_jsonpath_query
| R_segments
| R_B
| R_S
| R_selector
| R_string_literal
| R_double_quoted
| R_single_quoted
| R_unescaped
| R_escapable
| R_hexchar
| R_non_surrogate
| R_high_surrogate
| R_low_surrogate
| R_HEXDIG
| R_int
| R_DIGIT1
| R_slice_selector
| R_filter_selector
| R_logical_or_expr
| R_logical_and_expr
| R_basic_expr
| R_paren_expr
| R_test_expr
| R_filter_query
| R_rel_query
| R_comparison_expr
| R_literal
| R_comparable
| R_comparison_op
| R_singular_query
| R_singular_query_segments
| R_name_segment
| R_index_segment
| R_number
| R_frac
| R_exp
| R_function_name
| R_function_expr
| R_function_argument
| R_segment
| R_child_segment
| R_bracketed_selection
| R_member_name_shorthand
| R_name_first
| R_name_char
| R_DIGIT
| R_ALPHA
| R_descendant_segment

val rule_id : rule -> nat

val r : rule -> gexp

val c : n -> gexp

val s_ : gexp

val rule_body : rule -> gexp

val all_rules : rule list

val rfc_grammar : grammar

val rfc_fuel : str -> nat

val in_rfc_fuel : nat -> str -> bool

val in_rfc : str -> bool

val s_length0 : str

val s_count0 : str

val s_value0 : str

val s_match0 : str

val s_search0 : str

val id_vfn : nat

val id_varg : nat

val id_lfn : nat

val call1 : str -> gexp -> gexp

val call2 : str -> gexp -> gexp -> gexp

val bf_grammar : grammar

val in_bf : str -> bool

val singular_seg : seg -> bool

val singular : seg list -> bool

val is_logical : ty3 -> bool

val ret_ok : ty3 -> ty3 -> bool

val wt_seg : registry -> seg -> bool

val wt_query : registry -> query -> bool

val zr : z -> z -> z -> bool

val ozr : z -> z -> z option -> bool

val ir_seg : z -> z -> seg -> bool

val ints_in_range : z -> z -> query -> bool

val hexv : n -> z option

val hex4 : n -> n -> n -> n -> z option

val is_high : z -> bool

val is_low : z -> bool

val raw_ok : n -> n -> bool

val spec_decode : n -> str -> str option

val count_lf : str -> z -> z

val rfind_lf_from : str -> z -> z -> z -> z

val rfind_lf : str -> z -> z

val m_position : str -> z -> z * z

val is_lf : n -> bool

val line_of : str -> nat -> z

val since_last_lf : str -> z -> z

val col_of : str -> nat -> z

val hex_digit_lower : z -> n

val dumps_char : n -> str

val dumps_body : str -> str

val replace_bq : str -> str

val replace_sq : str -> str

val m_canonical_string : str -> str

val digits_of_pos : nat -> z -> str -> str

val repr_nat : z -> str

val repr_int : z -> str

val lt_ratio : z -> z -> z -> z -> bool

val pow10 : z -> z * z

val floor_log10 : z -> z -> z

val round_sig : z -> z -> z -> z * z

val shortest : nat -> z -> z -> z -> z -> z -> z * z

val strip_zeros : nat -> z -> z -> z * z

val zeros : z -> str

val repr_pos_float : z -> z -> str

val repr_float : num -> str

val str_join : str -> str list -> str

val op_str : cmpop -> str

val lit_str : json -> str

val opt_int_str : z option -> str -> str

val paren : str -> str

val is_cmp_or_not : expr -> bool

val sel_str : sel -> str

val expr_str : expr -> str

val canon_str : expr -> z -> str

val seg_str : seg -> str

val m_str : query -> str

val key_str : key -> str

val m_path : key list -> str

val hexl : z -> n

val norm_char : n -> str

val norm_name : str -> str

val dec_digits : nat -> z -> str -> str

val norm_index : z -> str

val norm_seg : key -> str

val norm_path : key list -> str

type hop =
| HNewEnv of envcfg
| HRegister of nat * str * fdecl
| HCompile of nat * str
| HApply of nat * json
| HFindEnv of nat * str * json
| HFindModule of str * json

type hstate = { envs : envcfg list; compiled : (nat * query) list }

type hout =
| HNone
| HNodes of node list result
| HCompiled of nat result

val set_reg : envcfg -> registry -> envcfg

val update_nth : nat -> ('a1 -> 'a1) -> 'a1 list -> 'a1 list

val hstep : envcfg -> hstate -> hop -> hstate * hout

val hrun : envcfg -> hstate -> hop list -> hstate * hout list

type cell =
| CScalar
| CArr of nat list
| CObj of (str * nat) list

type graph = cell list

val cell_of : graph -> nat -> cell

val is_cont : cell -> bool

val kids_of : cell -> (key * nat) list

val gvisit : graph -> nat -> key list -> nat -> (key list * nat) list result

val gdesc_wild : graph -> nat -> key list list result

val take1 : z list -> z * z list

val remove_nth : nat -> 'a1 list -> 'a1 list

val apply_perm : nat -> z -> 'a1 list -> 'a1 list

val shuffle : z list -> 'a1 list -> 'a1 list * z list

type gen_state =
| Unstarted of node
| Remaining of node list

type pending = (gen_state * nat) list

val gen_next : z list -> gen_state -> (node option * gen_state) * z list

val set_nth : nat -> 'a1 -> 'a1 list -> 'a1 list

val drain :
  nat -> z list -> gen_state -> node list -> ((node list * node
  option) * gen_state) * z list

val nd_loop : nat -> nat -> z list -> pending -> node list -> node list result

val count_nodes : json -> nat

val nd_visit : nat -> z list -> node -> node list result

type supply = z list list

val take_sub : supply -> z list * supply

val nd_children : supply -> node -> node list * supply

val m_filter_list : envcfg -> json -> expr -> node list -> node list result

val nd_sel :
  envcfg -> json -> supply -> sel -> node -> (node list * supply) result

val nd_sels :
  envcfg -> json -> supply -> sel list -> node -> (node list * supply) result

val nd_nodes :
  (supply -> node -> (node list * supply) result) -> supply -> node list ->
  (node list * supply) result

val nd_seg :
  envcfg -> json -> supply -> seg -> node list -> (node list * supply) result

val nd_segs :
  envcfg -> json -> supply -> seg list -> node list -> (node list * supply)
  result

val m_find_nd : envcfg -> supply -> query -> json -> node list result

val st_nodes :
  ('a1 -> 'a2 -> (node list * 'a1) result) -> 'a1 -> 'a2 list -> (node
  list * 'a1) result

val st_filter :
  ('a1 -> node -> (pyobj * 'a1) result) -> 'a1 -> node list -> (node
  list * 'a1) result

val g_expr :
  envcfg -> json -> json -> supply -> expr -> (pyobj * supply) result

type st2 = supply * supply

val nd2_sel : envcfg -> json -> st2 -> sel -> node -> (node list * st2) result

val nd2_sels :
  envcfg -> json -> st2 -> sel list -> node -> (node list * st2) result

val nd2_seg :
  envcfg -> json -> st2 -> seg -> node list -> (node list * st2) result

val nd2_segs :
  envcfg -> json -> st2 -> seg list -> node list -> (node list * st2) result

type gnode = key list * nat

val gchildren : graph -> gnode -> gnode list

val g_isobj : graph -> gnode -> bool

val g_iscont : graph -> gnode -> bool

type ggen_state =
| GUnstarted of gnode
| GRemaining of gnode list

type gpending = (ggen_state * nat) list

val ggen_next :
  graph -> z list -> ggen_state -> (gnode option * ggen_state) * z list

val gdrain :
  graph -> nat -> z list -> ggen_state -> gnode list -> ((gnode list * gnode
  option) * ggen_state) * z list

val gnd_loop :
  graph -> nat -> nat -> z list -> gpending -> gnode list -> gnode list result

val gnd_visit : graph -> nat -> nat -> z list -> gnode -> gnode list result

val loc_eqb : key list -> key list -> bool

val index_of : key list -> key list list -> nat -> nat option

val parent_and_prev : key list -> key list option * key list option

val before : key list list -> key list -> key list -> bool

val valid_order : node -> key list list -> bool

val queues_of : node -> node list list

val picks : 'a1 list list -> 'a1 list list -> ('a1 * 'a1 list list) list

val all_orders_from : nat -> node list list -> node list list

val all_orders : node -> node list list

val all_perms : nat -> 'a1 list -> 'a1 list list

val kid_orders : node -> node list list

val cat_choices : 'a1 list list list -> 'a1 list list

val e_sel :
  registry -> (bool -> str -> str -> bool) -> json -> node -> sel -> node
  list list

val e_sels :
  registry -> (bool -> str -> str -> bool) -> json -> sel list -> node ->
  node list list

val e_seg :
  registry -> (bool -> str -> str -> bool) -> json -> seg -> node list ->
  node list list

val e_segs :
  registry -> (bool -> str -> str -> bool) -> json -> seg list -> node list
  -> node list list

val nd_results :
  registry -> (bool -> str -> str -> bool) -> query -> json -> node list list

type citem =
| CIRange of n * n
| CICat of bool * str

type cset =
| CDot
| CAny
| CSet of bool * citem list

type ire =
| IEmpty
| IEps
| IChars of cset
| ICat of ire * ire
| IAlt of ire * ire
| IStar of ire

val cat_match : (n -> str) -> str -> n -> bool

val item_mem : (n -> str) -> n -> citem -> bool

val cs_mem : (n -> str) -> n -> cset -> bool

val nullable : ire -> bool

val deriv : (n -> str) -> n -> ire -> ire

val simp : ire -> ire

val matches : (n -> str) -> ire -> str -> bool

val normal_char : n -> bool

val single_char_esc : n -> n option

val cc_raw : n -> bool

val category_ok : str -> bool

val parse_cat : str -> (str * str) option

val take_num : str -> z option -> z option * str

val irep : ire -> nat -> ire

val iopt : ire -> nat -> ire

val quant_cap : z

type 'a presult =
| PSome of 'a * str
| PFail
| PUndecided

val parse_class_items : nat -> str -> citem list -> citem list presult

val parse_class : str -> cset presult

val apply_quant : ire -> str -> ire presult

val parse_alt : nat -> str -> ire presult

val parse_branch : nat -> str -> ire -> ire presult

val iparse : str -> ire presult

val i_match : (n -> str) -> str -> str -> z

val i_search : (n -> str) -> str -> str -> z

val dot_replacement : str

val map_re_loop : str -> bool -> bool -> str

val m_map_re : str -> str

val is_scalar : n -> bool

val cls_fn_first : (n * n) list

val cls_fn_char : (n * n) list

val int_rt : z -> bool

val is_eE : n -> bool

val nonnil_ : n list -> bool

val isnil_ : n list -> bool

val float_formb : str -> bool

val flt_rt : num -> bool

val lx_lit : json -> bool

val fname_okb : str -> bool

val lx_sel : sel -> bool

val lx_expr : expr -> bool

val lx_seg : seg -> bool

val lx_query : query -> bool

val iota_json : z -> json list

val enc_sel0 : (z * json) list -> z list

val mk_cfg : nat -> registry -> rxrow list -> envcfg

val op_find : z list -> z list

val op_sem : z list -> z list

val dec_comparand : comparand dec

val op_cmp : z list -> z list

val enc_token : token -> z list

val op_tokenize : z list -> z list

val op_float : z list -> z list

val op_compile : z list -> z list

val op_in_rfc : z list -> z list

val op_valid : z list -> z list

val op_strlit : z list -> z list

val op_errpos : z list -> z list

val op_linecol : z list -> z list

val op_env_find : z list -> z list

val op_str_query : z list -> z list

val op_lx_query : z list -> z list

val op_path : z list -> z list

val dec_num : num dec

val op_repr : z list -> z list

val op_norm_path : z list -> z list

val dec_hop : rxrow list -> hop dec

val enc_hout : hout -> z list

val op_history : z list -> z list

val enc_loc : key list -> z list

val op_nd_visit : z list -> z list

val dec_cell : cell dec

val op_graph : z list -> z list

val op_gnd_visit : z list -> z list

val op_valid_order : z list -> z list

val op_all_orders : z list -> z list

val op_find_nd : z list -> z list

val op_find_nd2 : z list -> z list

val op_nd_results : z list -> z list

val op_in_bf : z list -> z list

val op_map_re : z list -> z list

val gc_lookup : (n * str) list -> n -> str

val op_iregexp : z list -> z list

val dispatch : z list -> z list
