
(** val xorb : bool -> bool -> bool **)

let xorb b1 b2 =
  if b1 then if b2 then false else true else b2

(** val negb : bool -> bool **)

let negb = function
| true -> false
| false -> true

type nat =
| O
| S of nat

(** val fst : ('a1 * 'a2) -> 'a1 **)

let fst = function
| (x, _) -> x

(** val snd : ('a1 * 'a2) -> 'a2 **)

let snd = function
| (_, y) -> y

(** val length : 'a1 list -> nat **)

let rec length = function
| [] -> O
| _ :: l' -> S (length l')

(** val app : 'a1 list -> 'a1 list -> 'a1 list **)

let rec app l m =
  match l with
  | [] -> m
  | a :: l1 -> a :: (app l1 m)

type comparison =
| Eq
| Lt
| Gt

(** val compOpp : comparison -> comparison **)

let compOpp = function
| Eq -> Eq
| Lt -> Gt
| Gt -> Lt

module Coq__1 = struct
 (** val add : nat -> nat -> nat **)
 let rec add n0 m =
   match n0 with
   | O -> m
   | S p -> S (add p m)
end
include Coq__1

(** val mul : nat -> nat -> nat **)

let rec mul n0 m =
  match n0 with
  | O -> O
  | S p -> add m (mul p m)

(** val eqb : bool -> bool -> bool **)

let eqb b1 b2 =
  if b1 then b2 else if b2 then false else true

module Nat =
 struct
  (** val eqb : nat -> nat -> bool **)

  let rec eqb n0 m =
    match n0 with
    | O -> (match m with
            | O -> true
            | S _ -> false)
    | S n' -> (match m with
               | O -> false
               | S m' -> eqb n' m')

  (** val leb : nat -> nat -> bool **)

  let rec leb n0 m =
    match n0 with
    | O -> true
    | S n' -> (match m with
               | O -> false
               | S m' -> leb n' m')

  (** val ltb : nat -> nat -> bool **)

  let ltb n0 m =
    leb (S n0) m
 end

(** val tl : 'a1 list -> 'a1 list **)

let tl = function
| [] -> []
| _ :: m -> m

(** val in_dec : ('a1 -> 'a1 -> bool) -> 'a1 -> 'a1 list -> bool **)

let rec in_dec h a = function
| [] -> false
| y :: l0 -> let s = h y a in if s then true else in_dec h a l0

(** val nth : nat -> 'a1 list -> 'a1 -> 'a1 **)

let rec nth n0 l default =
  match n0 with
  | O -> (match l with
          | [] -> default
          | x :: _ -> x)
  | S m -> (match l with
            | [] -> default
            | _ :: t -> nth m t default)

(** val nth_error : 'a1 list -> nat -> 'a1 option **)

let rec nth_error l = function
| O -> (match l with
        | [] -> None
        | x :: _ -> Some x)
| S n1 -> (match l with
           | [] -> None
           | _ :: l0 -> nth_error l0 n1)

(** val rev : 'a1 list -> 'a1 list **)

let rec rev = function
| [] -> []
| x :: l' -> app (rev l') (x :: [])

(** val list_eq_dec : ('a1 -> 'a1 -> bool) -> 'a1 list -> 'a1 list -> bool **)

let rec list_eq_dec eq_dec0 l l' =
  match l with
  | [] -> (match l' with
           | [] -> true
           | _ :: _ -> false)
  | y :: l0 ->
    (match l' with
     | [] -> false
     | a :: l1 -> if eq_dec0 y a then list_eq_dec eq_dec0 l0 l1 else false)

(** val map : ('a1 -> 'a2) -> 'a1 list -> 'a2 list **)

let rec map f = function
| [] -> []
| a :: t -> (f a) :: (map f t)

(** val flat_map : ('a1 -> 'a2 list) -> 'a1 list -> 'a2 list **)

let rec flat_map f = function
| [] -> []
| x :: t -> app (f x) (flat_map f t)

(** val fold_left : ('a1 -> 'a2 -> 'a1) -> 'a2 list -> 'a1 -> 'a1 **)

let rec fold_left f l a0 =
  match l with
  | [] -> a0
  | b :: t -> fold_left f t (f a0 b)

(** val fold_right : ('a2 -> 'a1 -> 'a1) -> 'a1 -> 'a2 list -> 'a1 **)

let rec fold_right f a0 = function
| [] -> a0
| b :: t -> f b (fold_right f a0 t)

(** val existsb : ('a1 -> bool) -> 'a1 list -> bool **)

let rec existsb f = function
| [] -> false
| a :: l0 -> (||) (f a) (existsb f l0)

(** val forallb : ('a1 -> bool) -> 'a1 list -> bool **)

let rec forallb f = function
| [] -> true
| a :: l0 -> (&&) (f a) (forallb f l0)

(** val filter : ('a1 -> bool) -> 'a1 list -> 'a1 list **)

let rec filter f = function
| [] -> []
| x :: l0 -> if f x then x :: (filter f l0) else filter f l0

(** val combine : 'a1 list -> 'a2 list -> ('a1 * 'a2) list **)

let rec combine l l' =
  match l with
  | [] -> []
  | x :: tl0 ->
    (match l' with
     | [] -> []
     | y :: tl' -> (x, y) :: (combine tl0 tl'))

(** val firstn : nat -> 'a1 list -> 'a1 list **)

let rec firstn n0 l =
  match n0 with
  | O -> []
  | S n1 -> (match l with
             | [] -> []
             | a :: l0 -> a :: (firstn n1 l0))

(** val skipn : nat -> 'a1 list -> 'a1 list **)

let rec skipn n0 l =
  match n0 with
  | O -> l
  | S n1 -> (match l with
             | [] -> []
             | _ :: l0 -> skipn n1 l0)

(** val nodup : ('a1 -> 'a1 -> bool) -> 'a1 list -> 'a1 list **)

let rec nodup decA = function
| [] -> []
| x :: xs -> if in_dec decA x xs then nodup decA xs else x :: (nodup decA xs)

(** val seq : nat -> nat -> nat list **)

let rec seq start = function
| O -> []
| S len0 -> start :: (seq (S start) len0)

(** val repeat : 'a1 -> nat -> 'a1 list **)

let rec repeat x = function
| O -> []
| S k -> x :: (repeat x k)

type positive =
| XI of positive
| XO of positive
| XH

type n =
| N0
| Npos of positive

type z =
| Z0
| Zpos of positive
| Zneg of positive

module Pos =
 struct
  type mask =
  | IsNul
  | IsPos of positive
  | IsNeg
 end

module Coq_Pos =
 struct
  (** val succ : positive -> positive **)

  let rec succ = function
  | XI p -> XO (succ p)
  | XO p -> XI p
  | XH -> XO XH

  (** val add : positive -> positive -> positive **)

  let rec add x y =
    match x with
    | XI p ->
      (match y with
       | XI q -> XO (add_carry p q)
       | XO q -> XI (add p q)
       | XH -> XO (succ p))
    | XO p ->
      (match y with
       | XI q -> XI (add p q)
       | XO q -> XO (add p q)
       | XH -> XI p)
    | XH -> (match y with
             | XI q -> XO (succ q)
             | XO q -> XI q
             | XH -> XO XH)

  (** val add_carry : positive -> positive -> positive **)

  and add_carry x y =
    match x with
    | XI p ->
      (match y with
       | XI q -> XI (add_carry p q)
       | XO q -> XO (add_carry p q)
       | XH -> XI (succ p))
    | XO p ->
      (match y with
       | XI q -> XO (add_carry p q)
       | XO q -> XI (add p q)
       | XH -> XO (succ p))
    | XH ->
      (match y with
       | XI q -> XI (succ q)
       | XO q -> XO (succ q)
       | XH -> XI XH)

  (** val pred_double : positive -> positive **)

  let rec pred_double = function
  | XI p -> XI (XO p)
  | XO p -> XI (pred_double p)
  | XH -> XH

  (** val pred_N : positive -> n **)

  let pred_N = function
  | XI p -> Npos (XO p)
  | XO p -> Npos (pred_double p)
  | XH -> N0

  type mask = Pos.mask =
  | IsNul
  | IsPos of positive
  | IsNeg

  (** val succ_double_mask : mask -> mask **)

  let succ_double_mask = function
  | IsNul -> IsPos XH
  | IsPos p -> IsPos (XI p)
  | IsNeg -> IsNeg

  (** val double_mask : mask -> mask **)

  let double_mask = function
  | IsPos p -> IsPos (XO p)
  | x0 -> x0

  (** val double_pred_mask : positive -> mask **)

  let double_pred_mask = function
  | XI p -> IsPos (XO (XO p))
  | XO p -> IsPos (XO (pred_double p))
  | XH -> IsNul

  (** val sub_mask : positive -> positive -> mask **)

  let rec sub_mask x y =
    match x with
    | XI p ->
      (match y with
       | XI q -> double_mask (sub_mask p q)
       | XO q -> succ_double_mask (sub_mask p q)
       | XH -> IsPos (XO p))
    | XO p ->
      (match y with
       | XI q -> succ_double_mask (sub_mask_carry p q)
       | XO q -> double_mask (sub_mask p q)
       | XH -> IsPos (pred_double p))
    | XH -> (match y with
             | XH -> IsNul
             | _ -> IsNeg)

  (** val sub_mask_carry : positive -> positive -> mask **)

  and sub_mask_carry x y =
    match x with
    | XI p ->
      (match y with
       | XI q -> succ_double_mask (sub_mask_carry p q)
       | XO q -> double_mask (sub_mask p q)
       | XH -> IsPos (pred_double p))
    | XO p ->
      (match y with
       | XI q -> double_mask (sub_mask_carry p q)
       | XO q -> succ_double_mask (sub_mask_carry p q)
       | XH -> double_pred_mask p)
    | XH -> IsNeg

  (** val mul : positive -> positive -> positive **)

  let rec mul x y =
    match x with
    | XI p -> add y (XO (mul p y))
    | XO p -> XO (mul p y)
    | XH -> y

  (** val iter : ('a1 -> 'a1) -> 'a1 -> positive -> 'a1 **)

  let rec iter f x = function
  | XI n' -> f (iter f (iter f x n') n')
  | XO n' -> iter f (iter f x n') n'
  | XH -> f x

  (** val div2 : positive -> positive **)

  let div2 = function
  | XI p0 -> p0
  | XO p0 -> p0
  | XH -> XH

  (** val div2_up : positive -> positive **)

  let div2_up = function
  | XI p0 -> succ p0
  | XO p0 -> p0
  | XH -> XH

  (** val size : positive -> positive **)

  let rec size = function
  | XI p0 -> succ (size p0)
  | XO p0 -> succ (size p0)
  | XH -> XH

  (** val compare_cont : comparison -> positive -> positive -> comparison **)

  let rec compare_cont r0 x y =
    match x with
    | XI p ->
      (match y with
       | XI q -> compare_cont r0 p q
       | XO q -> compare_cont Gt p q
       | XH -> Gt)
    | XO p ->
      (match y with
       | XI q -> compare_cont Lt p q
       | XO q -> compare_cont r0 p q
       | XH -> Gt)
    | XH -> (match y with
             | XH -> r0
             | _ -> Lt)

  (** val compare : positive -> positive -> comparison **)

  let compare =
    compare_cont Eq

  (** val eqb : positive -> positive -> bool **)

  let rec eqb p q =
    match p with
    | XI p0 -> (match q with
                | XI q0 -> eqb p0 q0
                | _ -> false)
    | XO p0 -> (match q with
                | XO q0 -> eqb p0 q0
                | _ -> false)
    | XH -> (match q with
             | XH -> true
             | _ -> false)

  (** val coq_Nsucc_double : n -> n **)

  let coq_Nsucc_double = function
  | N0 -> Npos XH
  | Npos p -> Npos (XI p)

  (** val coq_Ndouble : n -> n **)

  let coq_Ndouble = function
  | N0 -> N0
  | Npos p -> Npos (XO p)

  (** val coq_lor : positive -> positive -> positive **)

  let rec coq_lor p q =
    match p with
    | XI p0 ->
      (match q with
       | XI q0 -> XI (coq_lor p0 q0)
       | XO q0 -> XI (coq_lor p0 q0)
       | XH -> p)
    | XO p0 ->
      (match q with
       | XI q0 -> XI (coq_lor p0 q0)
       | XO q0 -> XO (coq_lor p0 q0)
       | XH -> XI p0)
    | XH -> (match q with
             | XO q0 -> XI q0
             | _ -> q)

  (** val coq_land : positive -> positive -> n **)

  let rec coq_land p q =
    match p with
    | XI p0 ->
      (match q with
       | XI q0 -> coq_Nsucc_double (coq_land p0 q0)
       | XO q0 -> coq_Ndouble (coq_land p0 q0)
       | XH -> Npos XH)
    | XO p0 ->
      (match q with
       | XI q0 -> coq_Ndouble (coq_land p0 q0)
       | XO q0 -> coq_Ndouble (coq_land p0 q0)
       | XH -> N0)
    | XH -> (match q with
             | XO _ -> N0
             | _ -> Npos XH)

  (** val ldiff : positive -> positive -> n **)

  let rec ldiff p q =
    match p with
    | XI p0 ->
      (match q with
       | XI q0 -> coq_Ndouble (ldiff p0 q0)
       | XO q0 -> coq_Nsucc_double (ldiff p0 q0)
       | XH -> Npos (XO p0))
    | XO p0 ->
      (match q with
       | XI q0 -> coq_Ndouble (ldiff p0 q0)
       | XO q0 -> coq_Ndouble (ldiff p0 q0)
       | XH -> Npos p)
    | XH -> (match q with
             | XO _ -> Npos XH
             | _ -> N0)

  (** val iter_op : ('a1 -> 'a1 -> 'a1) -> positive -> 'a1 -> 'a1 **)

  let rec iter_op op p a =
    match p with
    | XI p0 -> op a (iter_op op p0 (op a a))
    | XO p0 -> iter_op op p0 (op a a)
    | XH -> a

  (** val to_nat : positive -> nat **)

  let to_nat x =
    iter_op Coq__1.add x (S O)

  (** val of_succ_nat : nat -> positive **)

  let rec of_succ_nat = function
  | O -> XH
  | S x -> succ (of_succ_nat x)

  (** val eq_dec : positive -> positive -> bool **)

  let rec eq_dec p x0 =
    match p with
    | XI p0 -> (match x0 with
                | XI p1 -> eq_dec p0 p1
                | _ -> false)
    | XO p0 -> (match x0 with
                | XO p1 -> eq_dec p0 p1
                | _ -> false)
    | XH -> (match x0 with
             | XH -> true
             | _ -> false)
 end

module N =
 struct
  (** val succ_double : n -> n **)

  let succ_double = function
  | N0 -> Npos XH
  | Npos p -> Npos (XI p)

  (** val double : n -> n **)

  let double = function
  | N0 -> N0
  | Npos p -> Npos (XO p)

  (** val succ_pos : n -> positive **)

  let succ_pos = function
  | N0 -> XH
  | Npos p -> Coq_Pos.succ p

  (** val sub : n -> n -> n **)

  let sub n0 m =
    match n0 with
    | N0 -> N0
    | Npos n' ->
      (match m with
       | N0 -> n0
       | Npos m' ->
         (match Coq_Pos.sub_mask n' m' with
          | Coq_Pos.IsPos p -> Npos p
          | _ -> N0))

  (** val compare : n -> n -> comparison **)

  let compare n0 m =
    match n0 with
    | N0 -> (match m with
             | N0 -> Eq
             | Npos _ -> Lt)
    | Npos n' -> (match m with
                  | N0 -> Gt
                  | Npos m' -> Coq_Pos.compare n' m')

  (** val eqb : n -> n -> bool **)

  let eqb n0 m =
    match n0 with
    | N0 -> (match m with
             | N0 -> true
             | Npos _ -> false)
    | Npos p -> (match m with
                 | N0 -> false
                 | Npos q -> Coq_Pos.eqb p q)

  (** val leb : n -> n -> bool **)

  let leb x y =
    match compare x y with
    | Gt -> false
    | _ -> true

  (** val ltb : n -> n -> bool **)

  let ltb x y =
    match compare x y with
    | Lt -> true
    | _ -> false

  (** val pos_div_eucl : positive -> n -> n * n **)

  let rec pos_div_eucl a b =
    match a with
    | XI a' ->
      let (q, r0) = pos_div_eucl a' b in
      let r' = succ_double r0 in
      if leb b r' then ((succ_double q), (sub r' b)) else ((double q), r')
    | XO a' ->
      let (q, r0) = pos_div_eucl a' b in
      let r' = double r0 in
      if leb b r' then ((succ_double q), (sub r' b)) else ((double q), r')
    | XH ->
      (match b with
       | N0 -> (N0, (Npos XH))
       | Npos p -> (match p with
                    | XH -> ((Npos XH), N0)
                    | _ -> (N0, (Npos XH))))

  (** val coq_lor : n -> n -> n **)

  let coq_lor n0 m =
    match n0 with
    | N0 -> m
    | Npos p -> (match m with
                 | N0 -> n0
                 | Npos q -> Npos (Coq_Pos.coq_lor p q))

  (** val coq_land : n -> n -> n **)

  let coq_land n0 m =
    match n0 with
    | N0 -> N0
    | Npos p -> (match m with
                 | N0 -> N0
                 | Npos q -> Coq_Pos.coq_land p q)

  (** val ldiff : n -> n -> n **)

  let ldiff n0 m =
    match n0 with
    | N0 -> N0
    | Npos p -> (match m with
                 | N0 -> n0
                 | Npos q -> Coq_Pos.ldiff p q)

  (** val eq_dec : n -> n -> bool **)

  let eq_dec n0 m =
    match n0 with
    | N0 -> (match m with
             | N0 -> true
             | Npos _ -> false)
    | Npos p -> (match m with
                 | N0 -> false
                 | Npos p0 -> Coq_Pos.eq_dec p p0)
 end

module Z =
 struct
  (** val double : z -> z **)

  let double = function
  | Z0 -> Z0
  | Zpos p -> Zpos (XO p)
  | Zneg p -> Zneg (XO p)

  (** val succ_double : z -> z **)

  let succ_double = function
  | Z0 -> Zpos XH
  | Zpos p -> Zpos (XI p)
  | Zneg p -> Zneg (Coq_Pos.pred_double p)

  (** val pred_double : z -> z **)

  let pred_double = function
  | Z0 -> Zneg XH
  | Zpos p -> Zpos (Coq_Pos.pred_double p)
  | Zneg p -> Zneg (XI p)

  (** val pos_sub : positive -> positive -> z **)

  let rec pos_sub x y =
    match x with
    | XI p ->
      (match y with
       | XI q -> double (pos_sub p q)
       | XO q -> succ_double (pos_sub p q)
       | XH -> Zpos (XO p))
    | XO p ->
      (match y with
       | XI q -> pred_double (pos_sub p q)
       | XO q -> double (pos_sub p q)
       | XH -> Zpos (Coq_Pos.pred_double p))
    | XH ->
      (match y with
       | XI q -> Zneg (XO q)
       | XO q -> Zneg (Coq_Pos.pred_double q)
       | XH -> Z0)

  (** val add : z -> z -> z **)

  let add x y =
    match x with
    | Z0 -> y
    | Zpos x' ->
      (match y with
       | Z0 -> x
       | Zpos y' -> Zpos (Coq_Pos.add x' y')
       | Zneg y' -> pos_sub x' y')
    | Zneg x' ->
      (match y with
       | Z0 -> x
       | Zpos y' -> pos_sub y' x'
       | Zneg y' -> Zneg (Coq_Pos.add x' y'))

  (** val opp : z -> z **)

  let opp = function
  | Z0 -> Z0
  | Zpos x0 -> Zneg x0
  | Zneg x0 -> Zpos x0

  (** val sub : z -> z -> z **)

  let sub m n0 =
    add m (opp n0)

  (** val mul : z -> z -> z **)

  let mul x y =
    match x with
    | Z0 -> Z0
    | Zpos x' ->
      (match y with
       | Z0 -> Z0
       | Zpos y' -> Zpos (Coq_Pos.mul x' y')
       | Zneg y' -> Zneg (Coq_Pos.mul x' y'))
    | Zneg x' ->
      (match y with
       | Z0 -> Z0
       | Zpos y' -> Zneg (Coq_Pos.mul x' y')
       | Zneg y' -> Zpos (Coq_Pos.mul x' y'))

  (** val pow_pos : z -> positive -> z **)

  let pow_pos z0 =
    Coq_Pos.iter (mul z0) (Zpos XH)

  (** val pow : z -> z -> z **)

  let pow x = function
  | Z0 -> Zpos XH
  | Zpos p -> pow_pos x p
  | Zneg _ -> Z0

  (** val compare : z -> z -> comparison **)

  let compare x y =
    match x with
    | Z0 -> (match y with
             | Z0 -> Eq
             | Zpos _ -> Lt
             | Zneg _ -> Gt)
    | Zpos x' -> (match y with
                  | Zpos y' -> Coq_Pos.compare x' y'
                  | _ -> Gt)
    | Zneg x' ->
      (match y with
       | Zneg y' -> compOpp (Coq_Pos.compare x' y')
       | _ -> Lt)

  (** val leb : z -> z -> bool **)

  let leb x y =
    match compare x y with
    | Gt -> false
    | _ -> true

  (** val ltb : z -> z -> bool **)

  let ltb x y =
    match compare x y with
    | Lt -> true
    | _ -> false

  (** val eqb : z -> z -> bool **)

  let eqb x y =
    match x with
    | Z0 -> (match y with
             | Z0 -> true
             | _ -> false)
    | Zpos p -> (match y with
                 | Zpos q -> Coq_Pos.eqb p q
                 | _ -> false)
    | Zneg p -> (match y with
                 | Zneg q -> Coq_Pos.eqb p q
                 | _ -> false)

  (** val max : z -> z -> z **)

  let max n0 m =
    match compare n0 m with
    | Lt -> m
    | _ -> n0

  (** val min : z -> z -> z **)

  let min n0 m =
    match compare n0 m with
    | Gt -> m
    | _ -> n0

  (** val abs : z -> z **)

  let abs = function
  | Zneg p -> Zpos p
  | x -> x

  (** val to_nat : z -> nat **)

  let to_nat = function
  | Zpos p -> Coq_Pos.to_nat p
  | _ -> O

  (** val to_N : z -> n **)

  let to_N = function
  | Zpos p -> Npos p
  | _ -> N0

  (** val of_nat : nat -> z **)

  let of_nat = function
  | O -> Z0
  | S n1 -> Zpos (Coq_Pos.of_succ_nat n1)

  (** val of_N : n -> z **)

  let of_N = function
  | N0 -> Z0
  | Npos p -> Zpos p

  (** val pos_div_eucl : positive -> z -> z * z **)

  let rec pos_div_eucl a b =
    match a with
    | XI a' ->
      let (q, r0) = pos_div_eucl a' b in
      let r' = add (mul (Zpos (XO XH)) r0) (Zpos XH) in
      if ltb r' b
      then ((mul (Zpos (XO XH)) q), r')
      else ((add (mul (Zpos (XO XH)) q) (Zpos XH)), (sub r' b))
    | XO a' ->
      let (q, r0) = pos_div_eucl a' b in
      let r' = mul (Zpos (XO XH)) r0 in
      if ltb r' b
      then ((mul (Zpos (XO XH)) q), r')
      else ((add (mul (Zpos (XO XH)) q) (Zpos XH)), (sub r' b))
    | XH -> if leb (Zpos (XO XH)) b then (Z0, (Zpos XH)) else ((Zpos XH), Z0)

  (** val div_eucl : z -> z -> z * z **)

  let div_eucl a b =
    match a with
    | Z0 -> (Z0, Z0)
    | Zpos a' ->
      (match b with
       | Z0 -> (Z0, a)
       | Zpos _ -> pos_div_eucl a' b
       | Zneg b' ->
         let (q, r0) = pos_div_eucl a' (Zpos b') in
         (match r0 with
          | Z0 -> ((opp q), Z0)
          | _ -> ((opp (add q (Zpos XH))), (add b r0))))
    | Zneg a' ->
      (match b with
       | Z0 -> (Z0, a)
       | Zpos _ ->
         let (q, r0) = pos_div_eucl a' b in
         (match r0 with
          | Z0 -> ((opp q), Z0)
          | _ -> ((opp (add q (Zpos XH))), (sub b r0)))
       | Zneg b' -> let (q, r0) = pos_div_eucl a' (Zpos b') in (q, (opp r0)))

  (** val div : z -> z -> z **)

  let div a b =
    let (q, _) = div_eucl a b in q

  (** val modulo : z -> z -> z **)

  let modulo a b =
    let (_, r0) = div_eucl a b in r0

  (** val quotrem : z -> z -> z * z **)

  let quotrem a b =
    match a with
    | Z0 -> (Z0, Z0)
    | Zpos a0 ->
      (match b with
       | Z0 -> (Z0, a)
       | Zpos b0 ->
         let (q, r0) = N.pos_div_eucl a0 (Npos b0) in ((of_N q), (of_N r0))
       | Zneg b0 ->
         let (q, r0) = N.pos_div_eucl a0 (Npos b0) in
         ((opp (of_N q)), (of_N r0)))
    | Zneg a0 ->
      (match b with
       | Z0 -> (Z0, a)
       | Zpos b0 ->
         let (q, r0) = N.pos_div_eucl a0 (Npos b0) in
         ((opp (of_N q)), (opp (of_N r0)))
       | Zneg b0 ->
         let (q, r0) = N.pos_div_eucl a0 (Npos b0) in
         ((of_N q), (opp (of_N r0))))

  (** val quot : z -> z -> z **)

  let quot a b =
    fst (quotrem a b)

  (** val even : z -> bool **)

  let even = function
  | Z0 -> true
  | Zpos p -> (match p with
               | XO _ -> true
               | _ -> false)
  | Zneg p -> (match p with
               | XO _ -> true
               | _ -> false)

  (** val odd : z -> bool **)

  let odd = function
  | Z0 -> false
  | Zpos p -> (match p with
               | XO _ -> false
               | _ -> true)
  | Zneg p -> (match p with
               | XO _ -> false
               | _ -> true)

  (** val div2 : z -> z **)

  let div2 = function
  | Z0 -> Z0
  | Zpos p -> (match p with
               | XH -> Z0
               | _ -> Zpos (Coq_Pos.div2 p))
  | Zneg p -> Zneg (Coq_Pos.div2_up p)

  (** val log2 : z -> z **)

  let log2 = function
  | Zpos p0 ->
    (match p0 with
     | XI p -> Zpos (Coq_Pos.size p)
     | XO p -> Zpos (Coq_Pos.size p)
     | XH -> Z0)
  | _ -> Z0

  (** val shiftl : z -> z -> z **)

  let shiftl a = function
  | Z0 -> a
  | Zpos p -> Coq_Pos.iter (mul (Zpos (XO XH))) a p
  | Zneg p -> Coq_Pos.iter div2 a p

  (** val coq_lor : z -> z -> z **)

  let coq_lor a b =
    match a with
    | Z0 -> b
    | Zpos a0 ->
      (match b with
       | Z0 -> a
       | Zpos b0 -> Zpos (Coq_Pos.coq_lor a0 b0)
       | Zneg b0 -> Zneg (N.succ_pos (N.ldiff (Coq_Pos.pred_N b0) (Npos a0))))
    | Zneg a0 ->
      (match b with
       | Z0 -> a
       | Zpos b0 -> Zneg (N.succ_pos (N.ldiff (Coq_Pos.pred_N a0) (Npos b0)))
       | Zneg b0 ->
         Zneg
           (N.succ_pos (N.coq_land (Coq_Pos.pred_N a0) (Coq_Pos.pred_N b0))))

  (** val coq_land : z -> z -> z **)

  let coq_land a b =
    match a with
    | Z0 -> Z0
    | Zpos a0 ->
      (match b with
       | Z0 -> Z0
       | Zpos b0 -> of_N (Coq_Pos.coq_land a0 b0)
       | Zneg b0 -> of_N (N.ldiff (Npos a0) (Coq_Pos.pred_N b0)))
    | Zneg a0 ->
      (match b with
       | Z0 -> Z0
       | Zpos b0 -> of_N (N.ldiff (Npos b0) (Coq_Pos.pred_N a0))
       | Zneg b0 ->
         Zneg (N.succ_pos (N.coq_lor (Coq_Pos.pred_N a0) (Coq_Pos.pred_N b0))))
 end

type str = n list

(** val str_eqb : str -> str -> bool **)

let rec str_eqb a b =
  match a with
  | [] -> (match b with
           | [] -> true
           | _ :: _ -> false)
  | x :: a' ->
    (match b with
     | [] -> false
     | y :: b' -> (&&) (N.eqb x y) (str_eqb a' b'))

(** val str_ltb : str -> str -> bool **)

let rec str_ltb a b =
  match a with
  | [] -> (match b with
           | [] -> false
           | _ :: _ -> true)
  | x :: a' ->
    (match b with
     | [] -> false
     | y :: b' ->
       if N.ltb x y then true else if N.eqb x y then str_ltb a' b' else false)

type jperr =
| ESyntax
| EType
| EIndex
| EName
| ELexer
| ERecursion

type pyexn =
| XOverflow
| XTypeError
| XKeyError
| XIndexError
| XAttribute
| XValue
| XRecursion
| XStopIteration
| XAssertion

type 'a result =
| Ok of 'a
| Err of jperr * z option
| Crash of pyexn
| OutOfFuel

(** val bind : 'a1 result -> ('a1 -> 'a2 result) -> 'a2 result **)

let bind r0 f =
  match r0 with
  | Ok a -> f a
  | Err (c0, o) -> Err (c0, o)
  | Crash x -> Crash x
  | OutOfFuel -> OutOfFuel

(** val jperr_code : jperr -> z **)

let jperr_code = function
| ESyntax -> Zpos XH
| EType -> Zpos (XO XH)
| EIndex -> Zpos (XI XH)
| EName -> Zpos (XO (XO XH))
| ELexer -> Zpos (XI (XO XH))
| ERecursion -> Zpos (XO (XI XH))

(** val pyexn_code : pyexn -> z **)

let pyexn_code = function
| XOverflow -> Zpos XH
| XTypeError -> Zpos (XO XH)
| XKeyError -> Zpos (XI XH)
| XIndexError -> Zpos (XO (XO XH))
| XAttribute -> Zpos (XI (XO XH))
| XValue -> Zpos (XO (XI XH))
| XRecursion -> Zpos (XI (XI XH))
| XStopIteration -> Zpos (XO (XO (XO XH)))
| XAssertion -> Zpos (XI (XO (XO XH)))

(** val flat_mapM :
    ('a1 -> 'a2 list result) -> 'a1 list -> 'a2 list result **)

let rec flat_mapM f = function
| [] -> Ok []
| x :: xs ->
  bind (f x) (fun y -> bind (flat_mapM f xs) (fun ys -> Ok (app y ys)))

(** val zlen : 'a1 list -> z **)

let zlen l =
  Z.of_nat (length l)

(** val znth_aux : 'a1 list -> z -> 'a1 option **)

let rec znth_aux l i =
  match l with
  | [] -> None
  | x :: xs -> if Z.eqb i Z0 then Some x else znth_aux xs (Z.sub i (Zpos XH))

(** val znth : 'a1 list -> z -> 'a1 option **)

let znth l i =
  if Z.ltb i Z0 then None else znth_aux l i

(** val find_assoc : str -> (str * 'a1) list -> 'a1 option **)

let rec find_assoc k = function
| [] -> None
| p :: m' ->
  let (k', v) = p in if str_eqb k k' then Some v else find_assoc k m'

type num =
| NInt of z
| NFlt of z * z
| NNegZero
| NInf of bool

type json =
| JNull
| JBool of bool
| JNum of num
| JStr of str
| JArr of json list
| JObj of (str * json) list

type xval =
| XFin of z * z
| XInf of bool

(** val num_xval : num -> xval **)

let num_xval = function
| NInt z0 -> XFin (z0, Z0)
| NFlt (m, e) -> XFin (m, e)
| NNegZero -> XFin (Z0, Z0)
| NInf s -> XInf s

(** val fin_compare : z -> z -> z -> z -> comparison **)

let fin_compare m1 e1 m2 e2 =
  if Z.leb e1 e2
  then Z.compare m1 (Z.mul m2 (Z.pow (Zpos (XO XH)) (Z.sub e2 e1)))
  else Z.compare (Z.mul m1 (Z.pow (Zpos (XO XH)) (Z.sub e1 e2))) m2

(** val xval_compare : xval -> xval -> comparison **)

let xval_compare a b =
  match a with
  | XFin (m1, e1) ->
    (match b with
     | XFin (m2, e2) -> fin_compare m1 e1 m2 e2
     | XInf neg -> if neg then Gt else Lt)
  | XInf neg ->
    if neg
    then (match b with
          | XFin (_, _) -> Lt
          | XInf neg0 -> if neg0 then Eq else Lt)
    else (match b with
          | XFin (_, _) -> Gt
          | XInf neg0 -> if neg0 then Gt else Eq)

(** val num_compare : num -> num -> comparison **)

let num_compare a b =
  xval_compare (num_xval a) (num_xval b)

(** val num_eqb : num -> num -> bool **)

let num_eqb a b =
  match num_compare a b with
  | Eq -> true
  | _ -> false

(** val num_ltb : num -> num -> bool **)

let num_ltb a b =
  match num_compare a b with
  | Lt -> true
  | _ -> false

(** val num_is_zero : num -> bool **)

let num_is_zero a =
  num_eqb a (NInt Z0)

type key =
| KName of str
| KIdx of z

type node = key list * json

(** val key_eqb : key -> key -> bool **)

let key_eqb a b =
  match a with
  | KName s -> (match b with
                | KName t -> str_eqb s t
                | KIdx _ -> false)
  | KIdx i -> (match b with
               | KName _ -> false
               | KIdx j -> Z.eqb i j)

(** val is_container : json -> bool **)

let is_container = function
| JArr _ -> true
| JObj _ -> true
| _ -> false

(** val enum_from : z -> 'a1 list -> (z * 'a1) list **)

let rec enum_from i = function
| [] -> []
| x :: xs -> (i, x) :: (enum_from (Z.add i (Zpos XH)) xs)

(** val children : node -> node list **)

let children n0 =
  match snd n0 with
  | JArr l ->
    map (fun ie -> ((app (fst n0) ((KIdx (fst ie)) :: [])), (snd ie)))
      (enum_from Z0 l)
  | JObj m ->
    map (fun kv -> ((app (fst n0) ((KName (fst kv)) :: [])), (snd kv))) m
  | _ -> []

type 'a dec = z list -> ('a * z list) option

(** val dec_z : z dec **)

let dec_z = function
| [] -> None
| x :: r0 -> Some (x, r0)

(** val dec_bool : bool dec **)

let dec_bool = function
| [] -> None
| x :: r0 -> Some ((negb (Z.eqb x Z0)), r0)

(** val dec_nat : nat dec **)

let dec_nat = function
| [] -> None
| x :: r0 -> Some ((Z.to_nat x), r0)

(** val dec_opt : 'a1 dec -> 'a1 option dec **)

let dec_opt d = function
| [] -> None
| z0 :: r0 ->
  (match z0 with
   | Z0 -> Some (None, r0)
   | _ ->
     (match d r0 with
      | Some p -> let (x, r') = p in Some ((Some x), r')
      | None -> None))

(** val dec_n : 'a1 dec -> nat -> z list -> ('a1 list * z list) option **)

let rec dec_n d n0 l =
  match n0 with
  | O -> Some ([], l)
  | S n' ->
    (match d l with
     | Some p ->
       let (x, r0) = p in
       (match dec_n d n' r0 with
        | Some p0 -> let (xs, r') = p0 in Some ((x :: xs), r')
        | None -> None)
     | None -> None)

(** val dec_list : 'a1 dec -> 'a1 list dec **)

let dec_list d = function
| [] -> None
| n0 :: r0 -> dec_n d (Z.to_nat n0) r0

(** val dec_cp : n dec **)

let dec_cp = function
| [] -> None
| x :: r0 -> Some ((Z.to_N x), r0)

(** val dec_str : str dec **)

let dec_str =
  dec_list dec_cp

(** val dec_pair : 'a1 dec -> 'a2 dec -> ('a1 * 'a2) dec **)

let dec_pair da db l =
  match da l with
  | Some p ->
    let (a, r0) = p in
    (match db r0 with
     | Some p0 -> let (b, r') = p0 in Some ((a, b), r')
     | None -> None)
  | None -> None

(** val dec_json_f : nat -> z list -> (json * z list) option **)

let rec dec_json_f fuel l =
  match fuel with
  | O -> None
  | S f ->
    (match l with
     | [] -> None
     | z0 :: r0 ->
       (match z0 with
        | Z0 -> Some (JNull, r0)
        | Zpos p ->
          (match p with
           | XI p0 ->
             (match p0 with
              | XI p1 ->
                (match p1 with
                 | XH ->
                   (match dec_list (dec_json_f f) r0 with
                    | Some p2 -> let (xs, r') = p2 in Some ((JArr xs), r')
                    | None -> None)
                 | _ -> None)
              | XO p1 ->
                (match p1 with
                 | XH ->
                   (match r0 with
                    | [] -> None
                    | b :: r1 -> Some ((JNum (NInf (negb (Z.eqb b Z0)))), r1))
                 | _ -> None)
              | XH ->
                (match r0 with
                 | [] -> None
                 | m :: l0 ->
                   (match l0 with
                    | [] -> None
                    | e :: r1 -> Some ((JNum (NFlt (m, e))), r1))))
           | XO p0 ->
             (match p0 with
              | XI p1 ->
                (match p1 with
                 | XH ->
                   (match dec_str r0 with
                    | Some p2 -> let (s, r') = p2 in Some ((JStr s), r')
                    | None -> None)
                 | _ -> None)
              | XO p1 ->
                (match p1 with
                 | XI _ -> None
                 | XO p2 ->
                   (match p2 with
                    | XH ->
                      (match dec_list (dec_pair dec_str (dec_json_f f)) r0 with
                       | Some p3 -> let (xs, r') = p3 in Some ((JObj xs), r')
                       | None -> None)
                    | _ -> None)
                 | XH -> Some ((JNum NNegZero), r0))
              | XH ->
                (match r0 with
                 | [] -> None
                 | z1 :: r1 -> Some ((JNum (NInt z1)), r1)))
           | XH ->
             (match r0 with
              | [] -> None
              | b :: r1 -> Some ((JBool (negb (Z.eqb b Z0))), r1)))
        | Zneg _ -> None))

(** val dec_json : json dec **)

let dec_json l =
  dec_json_f (S (length l)) l

(** val enc_bool : bool -> z list **)

let enc_bool b =
  (if b then Zpos XH else Z0) :: []

(** val enc_opt : ('a1 -> z list) -> 'a1 option -> z list **)

let enc_opt e = function
| Some x -> (Zpos XH) :: (e x)
| None -> Z0 :: []

(** val enc_list : ('a1 -> z list) -> 'a1 list -> z list **)

let enc_list e l =
  (zlen l) :: (flat_map e l)

(** val enc_str : str -> z list **)

let enc_str s =
  (zlen s) :: (map Z.of_N s)

(** val enc_num : num -> z list **)

let enc_num = function
| NInt z0 -> (Zpos (XO XH)) :: (z0 :: [])
| NFlt (m, e) -> (Zpos (XI XH)) :: (m :: (e :: []))
| NNegZero -> (Zpos (XO (XO XH))) :: []
| NInf b -> (Zpos (XI (XO XH))) :: (enc_bool b)

(** val enc_json : json -> z list **)

let rec enc_json = function
| JNull -> Z0 :: []
| JBool b -> (Zpos XH) :: (enc_bool b)
| JNum n0 -> enc_num n0
| JStr s -> (Zpos (XO (XI XH))) :: (enc_str s)
| JArr l -> (Zpos (XI (XI XH))) :: ((zlen l) :: (flat_map enc_json l))
| JObj m ->
  (Zpos (XO (XO (XO
    XH)))) :: ((zlen m) :: (flat_map (fun kv ->
                             app (enc_str (fst kv)) (enc_json (snd kv))) m))

(** val enc_key : key -> z list **)

let enc_key = function
| KName s -> Z0 :: (enc_str s)
| KIdx i -> (Zpos XH) :: (i :: [])

(** val enc_node : node -> z list **)

let enc_node n0 =
  app (enc_list enc_key (fst n0)) (enc_json (snd n0))

(** val enc_result : ('a1 -> z list) -> 'a1 result -> z list **)

let enc_result e = function
| Ok a -> Z0 :: (e a)
| Err (c0, o) ->
  (Zpos XH) :: ((jperr_code c0) :: (enc_opt (fun z0 -> z0 :: []) o))
| Crash x -> (Zpos (XO XH)) :: ((pyexn_code x) :: [])
| OutOfFuel -> (Zpos (XI XH)) :: []

(** val dec_key : key dec **)

let dec_key = function
| [] -> None
| z0 :: r0 ->
  (match z0 with
   | Z0 ->
     (match dec_str r0 with
      | Some p -> let (s, r') = p in Some ((KName s), r')
      | None -> None)
   | Zpos p ->
     (match p with
      | XH -> (match r0 with
               | [] -> None
               | i :: r1 -> Some ((KIdx i), r1))
      | _ -> None)
   | Zneg _ -> None)

(** val bad_request : z list **)

let bad_request =
  (Zneg XH) :: []

type ty3 =
| TValue
| TLogical
| TNodes

type cmpop =
| OEq
| ONe
| OLt
| OLe
| OGt
| OGe

type sel =
| SName of str
| SIndex of z
| SSlice of z option * z option * z option
| SWild
| SFilter of expr
and expr =
| ELit of json
| ERel of seg list
| EAbs of seg list
| ECall of str * expr list
| ENot of expr
| EAnd of expr * expr
| EOr of expr * expr
| ECmp of cmpop * expr * expr
and seg =
| Child of sel list
| Desc of sel list

type query = seg list

type pyobj =
| PVal of json
| PNodes of node list
| PNothing

type fimpl =
| FLength
| FCount
| FValue
| FMatch
| FSearch
| FConst of pyobj
| FFirst

type fdecl = { f_args : ty3 list; f_ret : ty3; f_impl : fimpl }

type registry = (str * fdecl) list

(** val ty3_eqb : ty3 -> ty3 -> bool **)

let ty3_eqb a b =
  match a with
  | TValue -> (match b with
               | TValue -> true
               | _ -> false)
  | TLogical -> (match b with
                 | TLogical -> true
                 | _ -> false)
  | TNodes -> (match b with
               | TNodes -> true
               | _ -> false)

(** val s_length : str **)

let s_length =
  (Npos (XO (XO (XI (XI (XO (XI XH))))))) :: ((Npos (XI (XO (XI (XO (XO (XI
    XH))))))) :: ((Npos (XO (XI (XI (XI (XO (XI XH))))))) :: ((Npos (XI (XI
    (XI (XO (XO (XI XH))))))) :: ((Npos (XO (XO (XI (XO (XI (XI
    XH))))))) :: ((Npos (XO (XO (XO (XI (XO (XI XH))))))) :: [])))))

(** val s_count : str **)

let s_count =
  (Npos (XI (XI (XO (XO (XO (XI XH))))))) :: ((Npos (XI (XI (XI (XI (XO (XI
    XH))))))) :: ((Npos (XI (XO (XI (XO (XI (XI XH))))))) :: ((Npos (XO (XI
    (XI (XI (XO (XI XH))))))) :: ((Npos (XO (XO (XI (XO (XI (XI
    XH))))))) :: []))))

(** val s_value : str **)

let s_value =
  (Npos (XO (XI (XI (XO (XI (XI XH))))))) :: ((Npos (XI (XO (XO (XO (XO (XI
    XH))))))) :: ((Npos (XO (XO (XI (XI (XO (XI XH))))))) :: ((Npos (XI (XO
    (XI (XO (XI (XI XH))))))) :: ((Npos (XI (XO (XI (XO (XO (XI
    XH))))))) :: []))))

(** val s_match : str **)

let s_match =
  (Npos (XI (XO (XI (XI (XO (XI XH))))))) :: ((Npos (XI (XO (XO (XO (XO (XI
    XH))))))) :: ((Npos (XO (XO (XI (XO (XI (XI XH))))))) :: ((Npos (XI (XI
    (XO (XO (XO (XI XH))))))) :: ((Npos (XO (XO (XO (XI (XO (XI
    XH))))))) :: []))))

(** val s_search : str **)

let s_search =
  (Npos (XI (XI (XO (XO (XI (XI XH))))))) :: ((Npos (XI (XO (XI (XO (XO (XI
    XH))))))) :: ((Npos (XI (XO (XO (XO (XO (XI XH))))))) :: ((Npos (XO (XI
    (XO (XO (XI (XI XH))))))) :: ((Npos (XI (XI (XO (XO (XO (XI
    XH))))))) :: ((Npos (XO (XO (XO (XI (XO (XI XH))))))) :: [])))))

(** val builtin_registry : registry **)

let builtin_registry =
  (s_length, { f_args = (TValue :: []); f_ret = TValue; f_impl =
    FLength }) :: ((s_count, { f_args = (TNodes :: []); f_ret = TValue;
    f_impl = FCount }) :: ((s_match, { f_args = (TValue :: (TValue :: []));
    f_ret = TLogical; f_impl = FMatch }) :: ((s_search, { f_args =
    (TValue :: (TValue :: [])); f_ret = TLogical; f_impl =
    FSearch }) :: ((s_value, { f_args = (TNodes :: []); f_ret = TValue;
    f_impl = FValue }) :: []))))

type envcfg = { min_idx : z; max_idx : z; max_depth : nat; reg : registry;
                rx : (bool -> str -> str -> bool) }

(** val dec_cmpop : cmpop dec **)

let dec_cmpop = function
| [] -> None
| z0 :: r0 ->
  (match z0 with
   | Z0 -> Some (OEq, r0)
   | Zpos p ->
     (match p with
      | XI p0 ->
        (match p0 with
         | XI _ -> None
         | XO p1 -> (match p1 with
                     | XH -> Some (OGe, r0)
                     | _ -> None)
         | XH -> Some (OLe, r0))
      | XO p0 ->
        (match p0 with
         | XI _ -> None
         | XO p1 -> (match p1 with
                     | XH -> Some (OGt, r0)
                     | _ -> None)
         | XH -> Some (OLt, r0))
      | XH -> Some (ONe, r0))
   | Zneg _ -> None)

(** val enc_cmpop : cmpop -> z list **)

let enc_cmpop = function
| OEq -> Z0 :: []
| ONe -> (Zpos XH) :: []
| OLt -> (Zpos (XO XH)) :: []
| OLe -> (Zpos (XI XH)) :: []
| OGt -> (Zpos (XO (XO XH))) :: []
| OGe -> (Zpos (XI (XO XH))) :: []

(** val dec_ty3 : ty3 dec **)

let dec_ty3 = function
| [] -> None
| z0 :: r0 ->
  (match z0 with
   | Zpos p ->
     (match p with
      | XI p0 -> (match p0 with
                  | XH -> Some (TNodes, r0)
                  | _ -> None)
      | XO p0 -> (match p0 with
                  | XH -> Some (TLogical, r0)
                  | _ -> None)
      | XH -> Some (TValue, r0))
   | _ -> None)

(** val dec_sel_f : nat -> z list -> (sel * z list) option **)

let rec dec_sel_f fuel l =
  match fuel with
  | O -> None
  | S f ->
    (match l with
     | [] -> None
     | z0 :: r0 ->
       (match z0 with
        | Z0 ->
          (match dec_str r0 with
           | Some p -> let (s, r') = p in Some ((SName s), r')
           | None -> None)
        | Zpos p ->
          (match p with
           | XI p0 -> (match p0 with
                       | XH -> Some (SWild, r0)
                       | _ -> None)
           | XO p0 ->
             (match p0 with
              | XI _ -> None
              | XO p1 ->
                (match p1 with
                 | XH ->
                   (match dec_expr_f f r0 with
                    | Some p2 -> let (e, r') = p2 in Some ((SFilter e), r')
                    | None -> None)
                 | _ -> None)
              | XH ->
                (match dec_opt dec_z r0 with
                 | Some p1 ->
                   let (a, r1) = p1 in
                   (match dec_opt dec_z r1 with
                    | Some p2 ->
                      let (b, r2) = p2 in
                      (match dec_opt dec_z r2 with
                       | Some p3 ->
                         let (c0, r3) = p3 in Some ((SSlice (a, b, c0)), r3)
                       | None -> None)
                    | None -> None)
                 | None -> None))
           | XH ->
             (match r0 with
              | [] -> None
              | i :: r1 -> Some ((SIndex i), r1)))
        | Zneg _ -> None))

(** val dec_expr_f : nat -> z list -> (expr * z list) option **)

and dec_expr_f fuel l =
  match fuel with
  | O -> None
  | S f ->
    (match l with
     | [] -> None
     | z0 :: r0 ->
       (match z0 with
        | Z0 ->
          (match dec_json r0 with
           | Some p -> let (v, r') = p in Some ((ELit v), r')
           | None -> None)
        | Zpos p ->
          (match p with
           | XI p0 ->
             (match p0 with
              | XI p1 ->
                (match p1 with
                 | XH ->
                   (match dec_cmpop r0 with
                    | Some p2 ->
                      let (o, r1) = p2 in
                      (match dec_expr_f f r1 with
                       | Some p3 ->
                         let (a, r2) = p3 in
                         (match dec_expr_f f r2 with
                          | Some p4 ->
                            let (b, r3) = p4 in Some ((ECmp (o, a, b)), r3)
                          | None -> None)
                       | None -> None)
                    | None -> None)
                 | _ -> None)
              | XO p1 ->
                (match p1 with
                 | XH ->
                   (match dec_expr_f f r0 with
                    | Some p2 ->
                      let (a, r1) = p2 in
                      (match dec_expr_f f r1 with
                       | Some p3 ->
                         let (b, r2) = p3 in Some ((EAnd (a, b)), r2)
                       | None -> None)
                    | None -> None)
                 | _ -> None)
              | XH ->
                (match dec_str r0 with
                 | Some p1 ->
                   let (nm, r1) = p1 in
                   (match dec_list (dec_expr_f f) r1 with
                    | Some p2 ->
                      let (args, r2) = p2 in Some ((ECall (nm, args)), r2)
                    | None -> None)
                 | None -> None))
           | XO p0 ->
             (match p0 with
              | XI p1 ->
                (match p1 with
                 | XH ->
                   (match dec_expr_f f r0 with
                    | Some p2 ->
                      let (a, r1) = p2 in
                      (match dec_expr_f f r1 with
                       | Some p3 ->
                         let (b, r2) = p3 in Some ((EOr (a, b)), r2)
                       | None -> None)
                    | None -> None)
                 | _ -> None)
              | XO p1 ->
                (match p1 with
                 | XH ->
                   (match dec_expr_f f r0 with
                    | Some p2 -> let (a, r') = p2 in Some ((ENot a), r')
                    | None -> None)
                 | _ -> None)
              | XH ->
                (match dec_list (dec_seg_f f) r0 with
                 | Some p1 -> let (q, r') = p1 in Some ((EAbs q), r')
                 | None -> None))
           | XH ->
             (match dec_list (dec_seg_f f) r0 with
              | Some p0 -> let (q, r') = p0 in Some ((ERel q), r')
              | None -> None))
        | Zneg _ -> None))

(** val dec_seg_f : nat -> z list -> (seg * z list) option **)

and dec_seg_f fuel l =
  match fuel with
  | O -> None
  | S f ->
    (match l with
     | [] -> None
     | z0 :: r0 ->
       (match z0 with
        | Z0 ->
          (match dec_list (dec_sel_f f) r0 with
           | Some p -> let (ss, r') = p in Some ((Child ss), r')
           | None -> None)
        | Zpos p ->
          (match p with
           | XH ->
             (match dec_list (dec_sel_f f) r0 with
              | Some p0 -> let (ss, r') = p0 in Some ((Desc ss), r')
              | None -> None)
           | _ -> None)
        | Zneg _ -> None))

(** val dec_query : query dec **)

let dec_query l =
  dec_list (dec_seg_f (S (length l))) l

(** val enc_sel : sel -> z list **)

let rec enc_sel = function
| SName k -> Z0 :: (enc_str k)
| SIndex i -> (Zpos XH) :: (i :: [])
| SSlice (a, b, c0) ->
  (Zpos (XO
    XH)) :: (app (enc_opt (fun z0 -> z0 :: []) a)
              (app (enc_opt (fun z0 -> z0 :: []) b)
                (enc_opt (fun z0 -> z0 :: []) c0)))
| SWild -> (Zpos (XI XH)) :: []
| SFilter e -> (Zpos (XO (XO XH))) :: (enc_expr e)

(** val enc_expr : expr -> z list **)

and enc_expr = function
| ELit v -> Z0 :: (enc_json v)
| ERel q ->
  (Zpos
    XH) :: ((zlen q) :: (let rec go = function
                         | [] -> []
                         | s :: q' -> app (enc_seg s) (go q')
                         in go q))
| EAbs q ->
  (Zpos (XO
    XH)) :: ((zlen q) :: (let rec go = function
                          | [] -> []
                          | s :: q' -> app (enc_seg s) (go q')
                          in go q))
| ECall (f, args) ->
  (Zpos (XI
    XH)) :: (app (enc_str f)
              ((zlen args) :: (let rec go = function
                               | [] -> []
                               | a :: l' -> app (enc_expr a) (go l')
                               in go args)))
| ENot a -> (Zpos (XO (XO XH))) :: (enc_expr a)
| EAnd (a, b) -> (Zpos (XI (XO XH))) :: (app (enc_expr a) (enc_expr b))
| EOr (a, b) -> (Zpos (XO (XI XH))) :: (app (enc_expr a) (enc_expr b))
| ECmp (o, a, b) ->
  (Zpos (XI (XI XH))) :: (app (enc_cmpop o) (app (enc_expr a) (enc_expr b)))

(** val enc_seg : seg -> z list **)

and enc_seg = function
| Child ss ->
  Z0 :: ((zlen ss) :: (let rec go = function
                       | [] -> []
                       | a :: l' -> app (enc_sel a) (go l')
                       in go ss))
| Desc ss ->
  (Zpos
    XH) :: ((zlen ss) :: (let rec go = function
                          | [] -> []
                          | a :: l' -> app (enc_sel a) (go l')
                          in go ss))

(** val enc_query : query -> z list **)

let enc_query q =
  enc_list enc_seg q

(** val dec_pyobj : pyobj dec **)

let dec_pyobj = function
| [] -> None
| z0 :: r0 ->
  (match z0 with
   | Z0 ->
     (match dec_json r0 with
      | Some p -> let (v, r') = p in Some ((PVal v), r')
      | None -> None)
   | Zpos p ->
     (match p with
      | XI _ -> None
      | XO p0 -> (match p0 with
                  | XH -> Some ((PNodes []), r0)
                  | _ -> None)
      | XH -> Some (PNothing, r0))
   | Zneg _ -> None)

(** val dec_fimpl : fimpl dec **)

let dec_fimpl = function
| [] -> None
| z0 :: r0 ->
  (match z0 with
   | Z0 -> Some (FLength, r0)
   | Zpos p ->
     (match p with
      | XI p0 ->
        (match p0 with
         | XI _ -> None
         | XO p1 ->
           (match p1 with
            | XH ->
              (match dec_pyobj r0 with
               | Some p2 -> let (p3, r') = p2 in Some ((FConst p3), r')
               | None -> None)
            | _ -> None)
         | XH -> Some (FMatch, r0))
      | XO p0 ->
        (match p0 with
         | XI p1 -> (match p1 with
                     | XH -> Some (FFirst, r0)
                     | _ -> None)
         | XO p1 -> (match p1 with
                     | XH -> Some (FSearch, r0)
                     | _ -> None)
         | XH -> Some (FValue, r0))
      | XH -> Some (FCount, r0))
   | Zneg _ -> None)

(** val dec_fdecl : (str * fdecl) dec **)

let dec_fdecl l =
  match dec_str l with
  | Some p ->
    let (nm, r0) = p in
    (match dec_list dec_ty3 r0 with
     | Some p0 ->
       let (args, r1) = p0 in
       (match dec_ty3 r1 with
        | Some p1 ->
          let (ret, r2) = p1 in
          (match dec_fimpl r2 with
           | Some p2 ->
             let (im, r3) = p2 in
             Some ((nm, { f_args = args; f_ret = ret; f_impl = im }), r3)
           | None -> None)
        | None -> None)
     | None -> None)
  | None -> None

(** val dec_registry : registry dec **)

let dec_registry =
  dec_list dec_fdecl

type rxrow = ((bool * str) * str) * bool

(** val dec_rxrow : rxrow dec **)

let dec_rxrow l =
  match dec_bool l with
  | Some p ->
    let (sr, r0) = p in
    (match dec_str r0 with
     | Some p0 ->
       let (s, r1) = p0 in
       (match dec_str r1 with
        | Some p1 ->
          let (p2, r2) = p1 in
          (match dec_bool r2 with
           | Some p3 -> let (b, r3) = p3 in Some ((((sr, s), p2), b), r3)
           | None -> None)
        | None -> None)
     | None -> None)
  | None -> None

(** val rx_lookup : rxrow list -> bool -> str -> str -> bool **)

let rec rx_lookup t sr s p =
  match t with
  | [] -> false
  | r0 :: t' ->
    let (p0, b) = r0 in
    let (p1, p') = p0 in
    let (sr', s') = p1 in
    if (&&) ((&&) (eqb sr sr') (str_eqb s s')) (str_eqb p p')
    then b
    else rx_lookup t' sr s p

(** val py_slice_indices :
    z -> z option -> z option -> z option -> (z * z) * z **)

let py_slice_indices len start stop step =
  let st = match step with
           | Some s -> s
           | None -> Zpos XH in
  let neg = Z.ltb st Z0 in
  let lower = if neg then Zneg XH else Z0 in
  let upper = if neg then Z.sub len (Zpos XH) else len in
  let clamp = fun x dflt ->
    match x with
    | Some v ->
      if Z.ltb v Z0
      then let v' = Z.add v len in if Z.ltb v' lower then lower else v'
      else if Z.ltb upper v then upper else v
    | None -> dflt
  in
  (((clamp start (if neg then upper else lower)),
  (clamp stop (if neg then lower else upper))), st)

(** val py_range_len : z -> z -> z -> z **)

let py_range_len lo hi step =
  if Z.ltb Z0 step
  then if Z.ltb lo hi
       then Z.add (Z.div (Z.sub (Z.sub hi lo) (Zpos XH)) step) (Zpos XH)
       else Z0
  else if Z.ltb hi lo
       then Z.add (Z.div (Z.sub (Z.sub lo hi) (Zpos XH)) (Z.opp step)) (Zpos
              XH)
       else Z0

(** val py_range : z -> z -> z -> z list **)

let py_range lo hi step =
  map (fun k -> Z.add lo (Z.mul (Z.of_nat k) step))
    (seq O (Z.to_nat (py_range_len lo hi step)))

(** val py_list_getitem : 'a1 list -> z -> 'a1 option **)

let py_list_getitem l i =
  znth l (if Z.ltb i Z0 then Z.add i (zlen l) else i)

(** val m_normalized_index : z -> z -> z **)

let m_normalized_index len i =
  if (&&) (Z.ltb i Z0) (Z.leb (Z.abs i) len) then Z.add len i else i

(** val m_index_select : json list -> z -> (z * json) list **)

let m_index_select l i =
  match py_list_getitem l i with
  | Some x -> ((m_normalized_index (zlen l) i), x) :: []
  | None -> []

(** val m_slice_select :
    json list -> z option -> z option -> z option -> (z * json) list **)

let m_slice_select l s e t = match t with
| Some z0 ->
  (match z0 with
   | Z0 -> []
   | Zpos _ ->
     let (p, st) = py_slice_indices (zlen l) s e t in
     let (lo, hi) = p in
     let idxs = py_range lo hi st in
     let elems =
       flat_map (fun i -> match znth l i with
                          | Some x -> x :: []
                          | None -> []) idxs
     in
     combine idxs elems
   | Zneg _ ->
     let (p, st) = py_slice_indices (zlen l) s e t in
     let (lo, hi) = p in
     let idxs = py_range lo hi st in
     let elems =
       flat_map (fun i -> match znth l i with
                          | Some x -> x :: []
                          | None -> []) idxs
     in
     combine idxs elems)
| None ->
  let (p, st) = py_slice_indices (zlen l) s e t in
  let (lo, hi) = p in
  let idxs = py_range lo hi st in
  let elems =
    flat_map (fun i -> match znth l i with
                       | Some x -> x :: []
                       | None -> []) idxs
  in
  combine idxs elems

(** val normalize : z -> z -> z **)

let normalize i len =
  if Z.leb Z0 i then i else Z.add len i

(** val bounds : z -> z -> z -> z -> z * z **)

let bounds start end_ step len =
  let n_start = normalize start len in
  let n_end = normalize end_ len in
  if Z.leb Z0 step
  then ((Z.min (Z.max n_start Z0) len), (Z.min (Z.max n_end Z0) len))
  else ((Z.min (Z.max n_end (Zneg XH)) (Z.sub len (Zpos XH))),
         (Z.min (Z.max n_start (Zneg XH)) (Z.sub len (Zpos XH))))

(** val loop_up : nat -> z -> z -> z -> z list **)

let rec loop_up fuel i upper step =
  match fuel with
  | O -> []
  | S f ->
    if Z.ltb i upper then i :: (loop_up f (Z.add i step) upper step) else []

(** val loop_down : nat -> z -> z -> z -> z list **)

let rec loop_down fuel i lower step =
  match fuel with
  | O -> []
  | S f ->
    if Z.ltb lower i then i :: (loop_down f (Z.add i step) lower step) else []

(** val slice_fuel : z -> nat **)

let slice_fuel len =
  S (Z.to_nat len)

(** val rfc_slice_fuel :
    nat -> z -> z option -> z option -> z option -> z list **)

let rfc_slice_fuel fuel len s e t =
  let step = match t with
             | Some x -> x
             | None -> Zpos XH in
  if Z.eqb step Z0
  then []
  else let start =
         match s with
         | Some x -> x
         | None -> if Z.leb Z0 step then Z0 else Z.sub len (Zpos XH)
       in
       let end_ =
         match e with
         | Some x -> x
         | None -> if Z.leb Z0 step then len else Z.sub (Z.opp len) (Zpos XH)
       in
       let (lower, upper) = bounds start end_ step len in
       if Z.ltb Z0 step
       then loop_up fuel lower upper step
       else loop_down fuel upper lower step

(** val rfc_slice : z -> z option -> z option -> z option -> z list **)

let rfc_slice len s e t =
  rfc_slice_fuel (slice_fuel len) len s e t

(** val rfc_index : z -> z -> z list **)

let rfc_index len i =
  let n0 = normalize i len in
  if (&&) (Z.leb Z0 n0) (Z.ltb n0 len) then n0 :: [] else []

(** val py_bool : json -> bool **)

let py_bool = function
| JNull -> false
| JBool b -> b
| JNum n0 -> negb (num_is_zero n0)
| JStr s -> (match s with
             | [] -> false
             | _ :: _ -> true)
| JArr l -> (match l with
             | [] -> false
             | _ :: _ -> true)
| JObj m -> (match m with
             | [] -> false
             | _ :: _ -> true)

(** val m_is_truthy : pyobj -> bool **)

let m_is_truthy = function
| PVal v -> (match v with
             | JNull -> true
             | _ -> py_bool v)
| PNodes ns -> (match ns with
                | [] -> false
                | _ :: _ -> true)
| PNothing -> false

(** val m_json_eq : json -> json -> bool **)

let rec m_json_eq a b =
  match a with
  | JNull -> (match b with
              | JNull -> true
              | _ -> false)
  | JBool x -> (match b with
                | JBool y -> eqb x y
                | _ -> false)
  | JNum x -> (match b with
               | JNum y -> num_eqb x y
               | _ -> false)
  | JStr x -> (match b with
               | JStr y -> str_eqb x y
               | _ -> false)
  | JArr x ->
    (match b with
     | JArr y ->
       let rec go x0 y0 =
         match x0 with
         | [] -> (match y0 with
                  | [] -> true
                  | _ :: _ -> false)
         | a' :: x' ->
           (match y0 with
            | [] -> false
            | b' :: y' -> (&&) (m_json_eq a' b') (go x' y'))
       in go x y
     | _ -> false)
  | JObj x ->
    (match b with
     | JObj y ->
       (&&) (Nat.eqb (length x) (length y))
         (let rec go = function
          | [] -> true
          | p :: x' ->
            let (k, v) = p in
            (match find_assoc k y with
             | Some v' -> (&&) (m_json_eq v v') (go x')
             | None -> false)
          in go x)
     | _ -> false)

(** val m_eq : pyobj -> pyobj -> bool **)

let m_eq left0 right0 = match right0 with
| PNodes _ ->
  (match right0 with
   | PVal l -> (match left0 with
                | PVal r0 -> m_json_eq l r0
                | _ -> false)
   | PNodes ln ->
     (match left0 with
      | PNodes rn ->
        (match ln with
         | [] -> (match rn with
                  | [] -> true
                  | _ :: _ -> false)
         | _ :: _ -> false)
      | _ ->
        (match ln with
         | [] -> (match left0 with
                  | PNothing -> true
                  | _ -> false)
         | _ :: _ -> false))
   | PNothing -> (match left0 with
                  | PNothing -> true
                  | _ -> false))
| _ ->
  (match left0 with
   | PVal l -> (match right0 with
                | PVal r0 -> m_json_eq l r0
                | _ -> false)
   | PNodes ln ->
     (match right0 with
      | PNodes rn ->
        (match ln with
         | [] -> (match rn with
                  | [] -> true
                  | _ :: _ -> false)
         | _ :: _ -> false)
      | _ ->
        (match ln with
         | [] -> (match right0 with
                  | PNothing -> true
                  | _ -> false)
         | _ :: _ -> false))
   | PNothing -> (match right0 with
                  | PNothing -> true
                  | _ -> false))

(** val m_lt : pyobj -> pyobj -> bool **)

let m_lt lhs rhs =
  match lhs with
  | PVal v ->
    (match v with
     | JNum a ->
       (match rhs with
        | PVal v0 -> (match v0 with
                      | JNum b -> num_ltb a b
                      | _ -> false)
        | _ -> false)
     | JStr a ->
       (match rhs with
        | PVal v0 -> (match v0 with
                      | JStr b -> str_ltb a b
                      | _ -> false)
        | _ -> false)
     | _ -> false)
  | _ -> false

(** val m_cmp : cmpop -> pyobj -> pyobj -> bool **)

let m_cmp o l r0 =
  match o with
  | OEq -> m_eq l r0
  | ONe -> negb (m_eq l r0)
  | OLt -> m_lt l r0
  | OLe -> (||) (m_lt l r0) (m_eq l r0)
  | OGt -> m_lt r0 l
  | OGe -> (||) (m_lt r0 l) (m_eq l r0)

(** val mk_child : node -> key -> json -> node **)

let mk_child n0 k v =
  ((app (fst n0) (k :: [])), v)

(** val m_visit : nat -> nat -> key list -> json -> node list result **)

let rec m_visit limit d loc v =
  if Nat.ltb limit d
  then Err (ERecursion, None)
  else (match v with
        | JArr l ->
          bind
            (let rec go i = function
             | [] -> Ok []
             | x :: xs ->
               bind
                 (if is_container x
                  then m_visit limit (S d) (app loc ((KIdx i) :: [])) x
                  else Ok []) (fun a ->
                 bind (go (Z.add i (Zpos XH)) xs) (fun b -> Ok (app a b)))
             in go Z0 l) (fun rest0 -> Ok ((loc, v) :: rest0))
        | JObj m ->
          bind
            (let rec go = function
             | [] -> Ok []
             | p :: xs ->
               let (k, x) = p in
               bind
                 (if is_container x
                  then m_visit limit (S d) (app loc ((KName k) :: [])) x
                  else Ok []) (fun a -> bind (go xs) (fun b -> Ok (app a b)))
             in go m) (fun rest0 -> Ok ((loc, v) :: rest0))
        | _ -> Ok ((loc, v) :: []))

(** val m_py_len : pyobj -> z option **)

let m_py_len = function
| PVal v ->
  (match v with
   | JStr s -> Some (zlen s)
   | JArr l -> Some (zlen l)
   | JObj m -> Some (zlen m)
   | _ -> None)
| PNodes ns -> Some (zlen ns)
| PNothing -> None

(** val m_apply : envcfg -> fdecl -> pyobj list -> pyobj result **)

let m_apply cfg d args =
  match d.f_impl with
  | FLength ->
    (match args with
     | [] -> Crash XTypeError
     | o :: l ->
       (match l with
        | [] ->
          (match m_py_len o with
           | Some n0 -> Ok (PVal (JNum (NInt n0)))
           | None -> Ok PNothing)
        | _ :: _ -> Crash XTypeError))
  | FCount ->
    (match args with
     | [] -> Crash XTypeError
     | o :: l ->
       (match l with
        | [] ->
          (match m_py_len o with
           | Some n0 -> Ok (PVal (JNum (NInt n0)))
           | None -> Crash XTypeError)
        | _ :: _ -> Crash XTypeError))
  | FValue ->
    (match args with
     | [] -> Crash XTypeError
     | o :: l ->
       (match l with
        | [] ->
          (match o with
           | PNodes ns ->
             (match ns with
              | [] -> Ok PNothing
              | n0 :: l0 ->
                (match l0 with
                 | [] -> Ok (PVal (snd n0))
                 | _ :: _ -> Ok PNothing))
           | _ ->
             (match m_py_len o with
              | Some z0 ->
                (match z0 with
                 | Zpos p ->
                   (match p with
                    | XH -> Crash XAttribute
                    | _ -> Ok PNothing)
                 | _ -> Ok PNothing)
              | None -> Crash XTypeError))
        | _ :: _ -> Crash XTypeError))
  | FMatch ->
    (match args with
     | [] -> Crash XTypeError
     | s :: l ->
       (match l with
        | [] -> Crash XTypeError
        | p :: l0 ->
          (match l0 with
           | [] ->
             (match s with
              | PVal v ->
                (match v with
                 | JStr s' ->
                   (match p with
                    | PVal v0 ->
                      (match v0 with
                       | JStr p' -> Ok (PVal (JBool (cfg.rx false s' p')))
                       | _ -> Ok (PVal (JBool false)))
                    | _ -> Ok (PVal (JBool false)))
                 | _ -> Ok (PVal (JBool false)))
              | _ -> Ok (PVal (JBool false)))
           | _ :: _ -> Crash XTypeError)))
  | FSearch ->
    (match args with
     | [] -> Crash XTypeError
     | s :: l ->
       (match l with
        | [] -> Crash XTypeError
        | p :: l0 ->
          (match l0 with
           | [] ->
             (match s with
              | PVal v ->
                (match v with
                 | JStr s' ->
                   (match p with
                    | PVal v0 ->
                      (match v0 with
                       | JStr p' -> Ok (PVal (JBool (cfg.rx true s' p')))
                       | _ -> Ok (PVal (JBool false)))
                    | _ -> Ok (PVal (JBool false)))
                 | _ -> Ok (PVal (JBool false)))
              | _ -> Ok (PVal (JBool false)))
           | _ :: _ -> Crash XTypeError)))
  | FConst p -> Ok p
  | FFirst -> (match args with
               | [] -> Crash XTypeError
               | o :: _ -> Ok o)

(** val m_unpack : ty3 list -> pyobj list -> pyobj list result **)

let rec m_unpack tys = function
| [] -> Ok []
| a :: args' ->
  (match tys with
   | [] -> Crash XIndexError
   | t :: tys' ->
     let a' =
       match t with
       | TValue ->
         (match a with
          | PNodes ns ->
            (match ns with
             | [] -> PNothing
             | n0 :: l -> (match l with
                           | [] -> PVal (snd n0)
                           | _ :: _ -> a))
          | _ -> a)
       | TLogical -> PVal (JBool (m_is_truthy a))
       | TNodes -> a
     in
     bind (m_unpack tys' args') (fun r0 -> Ok (a' :: r0)))

(** val m_unwrap1 : pyobj -> pyobj **)

let m_unwrap1 o = match o with
| PNodes ns ->
  (match ns with
   | [] -> o
   | n0 :: l -> (match l with
                 | [] -> PVal (snd n0)
                 | _ :: _ -> o))
| _ -> o

(** val run_segs :
    (seg -> node list -> node list result) -> seg list -> node list -> node
    list result **)

let rec run_segs f q ns =
  match q with
  | [] -> Ok ns
  | sg :: q' -> bind (f sg ns) (fun ns' -> run_segs f q' ns')

(** val m_seg : envcfg -> json -> seg -> node list -> node list result **)

let m_seg cfg =
  let rec m_sel root s n0 =
    match s with
    | SName k ->
      (match snd n0 with
       | JNull -> Ok []
       | JBool _ -> Ok []
       | JNum _ -> Ok []
       | JStr _ -> Ok []
       | JArr _ -> Ok []
       | JObj m ->
         (match find_assoc k m with
          | Some v -> Ok ((mk_child n0 (KName k) v) :: [])
          | None -> Ok []))
    | SIndex i ->
      (match snd n0 with
       | JArr l ->
         Ok
           (map (fun p -> mk_child n0 (KIdx (fst p)) (snd p))
             (m_index_select l i))
       | _ -> Ok [])
    | SSlice (a, b, c0) ->
      (match snd n0 with
       | JArr l ->
         Ok
           (map (fun p -> mk_child n0 (KIdx (fst p)) (snd p))
             (m_slice_select l a b c0))
       | _ -> Ok [])
    | SWild -> Ok (children n0)
    | SFilter e ->
      let rec go = function
      | [] -> Ok []
      | c0 :: cs' ->
        bind (m_expr root (snd c0) e) (fun o ->
          bind (go cs') (fun r0 -> Ok
            (if m_is_truthy o then c0 :: r0 else r0)))
      in go (children n0)
  and m_expr root cur0 = function
  | ELit v -> Ok (PVal v)
  | ERel q ->
    bind
      (let rec segs q0 ns =
         match q0 with
         | [] -> Ok ns
         | sg :: q' -> bind (m_seg0 root sg ns) (fun ns' -> segs q' ns')
       in segs q (([], cur0) :: [])) (fun ns -> Ok (PNodes ns))
  | EAbs q ->
    bind
      (let rec segs q0 ns =
         match q0 with
         | [] -> Ok ns
         | sg :: q' -> bind (m_seg0 root sg ns) (fun ns' -> segs q' ns')
       in segs q (([], root) :: [])) (fun ns -> Ok (PNodes ns))
  | ECall (f, args) ->
    (match find_assoc f cfg.reg with
     | Some d ->
       bind
         (let rec go = function
          | [] -> Ok []
          | a :: args' ->
            bind (m_expr root cur0 a) (fun x ->
              bind (go args') (fun r0 -> Ok (x :: r0)))
          in go args) (fun vs ->
         bind (m_unpack d.f_args vs) (fun us -> m_apply cfg d us))
     | None -> Ok PNothing)
  | ENot a ->
    bind (m_expr root cur0 a) (fun o -> Ok (PVal (JBool
      (negb (m_is_truthy o)))))
  | EAnd (a, b) ->
    bind (m_expr root cur0 a) (fun x ->
      bind (m_expr root cur0 b) (fun y -> Ok (PVal (JBool
        ((&&) (m_is_truthy x) (m_is_truthy y))))))
  | EOr (a, b) ->
    bind (m_expr root cur0 a) (fun x ->
      bind (m_expr root cur0 b) (fun y -> Ok (PVal (JBool
        ((||) (m_is_truthy x) (m_is_truthy y))))))
  | ECmp (o, a, b) ->
    bind (m_expr root cur0 a) (fun x ->
      bind (m_expr root cur0 b) (fun y -> Ok (PVal (JBool
        (m_cmp o (m_unwrap1 x) (m_unwrap1 y))))))
  and m_seg0 root sg ns =
    match sg with
    | Child ss ->
      flat_mapM (fun n0 ->
        let rec go = function
        | [] -> Ok []
        | s :: ss' ->
          bind (m_sel root s n0) (fun a ->
            bind (go ss') (fun b -> Ok (app a b)))
        in go ss) ns
    | Desc ss ->
      flat_mapM (fun n0 ->
        bind (m_visit cfg.max_depth (S O) (fst n0) (snd n0)) (fun vs ->
          flat_mapM (fun v ->
            let rec go = function
            | [] -> Ok []
            | s :: ss' ->
              bind (m_sel root s v) (fun a ->
                bind (go ss') (fun b -> Ok (app a b)))
            in go ss) vs)) ns
  in m_seg0

(** val m_segs :
    envcfg -> json -> seg list -> node list -> node list result **)

let m_segs cfg root q ns =
  run_segs (m_seg cfg root) q ns

(** val m_find : envcfg -> query -> json -> node list result **)

let m_find cfg q v =
  m_segs cfg v q (([], v) :: [])

type comparand =
| Nothing
| Val of json

(** val json_eq : json -> json -> bool **)

let rec json_eq a b =
  match a with
  | JNull -> (match b with
              | JNull -> true
              | _ -> false)
  | JBool x -> (match b with
                | JBool y -> eqb x y
                | _ -> false)
  | JNum x -> (match b with
               | JNum y -> num_eqb x y
               | _ -> false)
  | JStr x -> (match b with
               | JStr y -> str_eqb x y
               | _ -> false)
  | JArr x ->
    (match b with
     | JArr y ->
       let rec go x0 y0 =
         match x0 with
         | [] -> (match y0 with
                  | [] -> true
                  | _ :: _ -> false)
         | a' :: x' ->
           (match y0 with
            | [] -> false
            | b' :: y' -> (&&) (json_eq a' b') (go x' y'))
       in go x y
     | _ -> false)
  | JObj x ->
    (match b with
     | JObj y ->
       (&&)
         (let rec go = function
          | [] -> true
          | p :: x' ->
            let (k, v) = p in
            (match find_assoc k y with
             | Some v' -> (&&) (json_eq v v') (go x')
             | None -> false)
          in go x)
         (forallb (fun k -> existsb (str_eqb k) (map fst x)) (map fst y))
     | _ -> false)

(** val c_eq : comparand -> comparand -> bool **)

let c_eq a b =
  match a with
  | Nothing -> (match b with
                | Nothing -> true
                | Val _ -> false)
  | Val x -> (match b with
              | Nothing -> false
              | Val y -> json_eq x y)

(** val c_lt : comparand -> comparand -> bool **)

let c_lt a b =
  match a with
  | Nothing -> false
  | Val v ->
    (match v with
     | JNum x ->
       (match b with
        | Nothing -> false
        | Val v0 -> (match v0 with
                     | JNum y -> num_ltb x y
                     | _ -> false))
     | JStr x ->
       (match b with
        | Nothing -> false
        | Val v0 -> (match v0 with
                     | JStr y -> str_ltb x y
                     | _ -> false))
     | _ -> false)

(** val cmp : cmpop -> comparand -> comparand -> bool **)

let cmp o a b =
  match o with
  | OEq -> c_eq a b
  | ONe -> negb (c_eq a b)
  | OLt -> c_lt a b
  | OLe -> (||) (c_lt a b) (c_eq a b)
  | OGt -> c_lt b a
  | OGe -> (||) (c_lt b a) (c_eq a b)

(** val child_at : node -> key -> json -> node **)

let child_at n0 k v =
  ((app (fst n0) (k :: [])), v)

(** val descendants : key list -> json -> node list **)

let rec descendants loc v =
  (loc,
    v) :: (match v with
           | JArr l ->
             let rec go i = function
             | [] -> []
             | x :: xs ->
               app (descendants (app loc ((KIdx i) :: [])) x)
                 (go (Z.add i (Zpos XH)) xs)
             in go Z0 l
           | JObj m ->
             let rec go = function
             | [] -> []
             | p :: xs ->
               let (k, x) = p in
               app (descendants (app loc ((KName k) :: [])) x) (go xs)
             in go m
           | _ -> [])

(** val select_idx : node -> json list -> z list -> node list **)

let select_idx n0 l idxs =
  flat_map (fun i ->
    match znth l i with
    | Some x -> (child_at n0 (KIdx i) x) :: []
    | None -> []) idxs

type sval =
| SV of comparand
| SL of bool
| SN of node list

(** val as_val : sval -> comparand **)

let as_val = function
| SV c0 -> c0
| _ -> Nothing

(** val as_bool : sval -> bool **)

let as_bool = function
| SV _ -> false
| SL b -> b
| SN ns -> (match ns with
            | [] -> false
            | _ :: _ -> true)

(** val as_nodes : sval -> node list **)

let as_nodes = function
| SN ns -> ns
| _ -> []

(** val nonempty : 'a1 list -> bool **)

let nonempty = function
| [] -> false
| _ :: _ -> true

(** val conv_nodes : ty3 -> node list -> sval **)

let conv_nodes want ns =
  match want with
  | TValue ->
    SV
      (match ns with
       | [] -> Nothing
       | n0 :: l -> (match l with
                     | [] -> Val (snd n0)
                     | _ :: _ -> Nothing))
  | TLogical -> SL (nonempty ns)
  | TNodes -> SN ns

(** val coerce : ty3 -> ty3 -> sval -> sval **)

let coerce want ret r0 =
  match want with
  | TLogical ->
    (match ret with
     | TNodes -> SL (nonempty (as_nodes r0))
     | _ -> r0)
  | _ -> r0

(** val sval_of_pyobj : ty3 -> pyobj -> sval **)

let sval_of_pyobj t p =
  match t with
  | TValue -> (match p with
               | PVal v -> SV (Val v)
               | _ -> SV Nothing)
  | TLogical ->
    (match p with
     | PVal v -> (match v with
                  | JBool b -> SL b
                  | _ -> SL false)
     | _ -> SL false)
  | TNodes -> (match p with
               | PNodes ns -> SN ns
               | _ -> SN [])

(** val fn_sem :
    (bool -> str -> str -> bool) -> fdecl -> sval list -> sval **)

let fn_sem rx0 d args =
  match d.f_impl with
  | FLength ->
    (match args with
     | [] -> SV Nothing
     | s0 :: l0 ->
       (match s0 with
        | SV c0 ->
          (match c0 with
           | Nothing -> SV Nothing
           | Val v ->
             (match v with
              | JStr s ->
                (match l0 with
                 | [] -> SV (Val (JNum (NInt (zlen s))))
                 | _ :: _ -> SV Nothing)
              | JArr l ->
                (match l0 with
                 | [] -> SV (Val (JNum (NInt (zlen l))))
                 | _ :: _ -> SV Nothing)
              | JObj m ->
                (match l0 with
                 | [] -> SV (Val (JNum (NInt (zlen m))))
                 | _ :: _ -> SV Nothing)
              | _ -> SV Nothing))
        | _ -> SV Nothing))
  | FCount ->
    (match args with
     | [] -> SV Nothing
     | s :: l ->
       (match s with
        | SN ns ->
          (match l with
           | [] -> SV (Val (JNum (NInt (zlen ns))))
           | _ :: _ -> SV Nothing)
        | _ -> SV Nothing))
  | FValue ->
    (match args with
     | [] -> SV Nothing
     | s :: l ->
       (match s with
        | SN ns ->
          (match ns with
           | [] -> SV Nothing
           | n0 :: l0 ->
             (match l0 with
              | [] ->
                (match l with
                 | [] -> SV (Val (snd n0))
                 | _ :: _ -> SV Nothing)
              | _ :: _ -> SV Nothing))
        | _ -> SV Nothing))
  | FMatch ->
    (match args with
     | [] -> SL false
     | s0 :: l ->
       (match s0 with
        | SV c0 ->
          (match c0 with
           | Nothing -> SL false
           | Val v ->
             (match v with
              | JStr s ->
                (match l with
                 | [] -> SL false
                 | s1 :: l0 ->
                   (match s1 with
                    | SV c1 ->
                      (match c1 with
                       | Nothing -> SL false
                       | Val v0 ->
                         (match v0 with
                          | JStr p ->
                            (match l0 with
                             | [] -> SL (rx0 false s p)
                             | _ :: _ -> SL false)
                          | _ -> SL false))
                    | _ -> SL false))
              | _ -> SL false))
        | _ -> SL false))
  | FSearch ->
    (match args with
     | [] -> SL false
     | s0 :: l ->
       (match s0 with
        | SV c0 ->
          (match c0 with
           | Nothing -> SL false
           | Val v ->
             (match v with
              | JStr s ->
                (match l with
                 | [] -> SL false
                 | s1 :: l0 ->
                   (match s1 with
                    | SV c1 ->
                      (match c1 with
                       | Nothing -> SL false
                       | Val v0 ->
                         (match v0 with
                          | JStr p ->
                            (match l0 with
                             | [] -> SL (rx0 true s p)
                             | _ :: _ -> SL false)
                          | _ -> SL false))
                    | _ -> SL false))
              | _ -> SL false))
        | _ -> SL false))
  | FConst p -> sval_of_pyobj d.f_ret p
  | FFirst -> (match args with
               | [] -> SV Nothing
               | a :: _ -> a)

(** val run_segs_s :
    (seg -> node list -> node list) -> seg list -> node list -> node list **)

let rec run_segs_s f q ns =
  match q with
  | [] -> ns
  | sg :: q' -> run_segs_s f q' (f sg ns)

(** val s_seg :
    registry -> (bool -> str -> str -> bool) -> json -> seg -> node list ->
    node list **)

let s_seg rg rx0 =
  let rec s_sel root s n0 =
    match s with
    | SName k ->
      (match snd n0 with
       | JNull -> []
       | JBool _ -> []
       | JNum _ -> []
       | JStr _ -> []
       | JArr _ -> []
       | JObj m ->
         (match find_assoc k m with
          | Some v -> (child_at n0 (KName k) v) :: []
          | None -> []))
    | SIndex i ->
      (match snd n0 with
       | JArr l -> select_idx n0 l (rfc_index (zlen l) i)
       | _ -> [])
    | SSlice (a, b, c0) ->
      (match snd n0 with
       | JArr l -> select_idx n0 l (rfc_slice (zlen l) a b c0)
       | _ -> [])
    | SWild -> children n0
    | SFilter e ->
      filter (fun c0 -> as_bool (s_expr TLogical root (snd c0) e))
        (children n0)
  and s_expr want root cur0 = function
  | ELit v -> SV (Val v)
  | ERel q ->
    conv_nodes want
      (let rec segs q0 ns =
         match q0 with
         | [] -> ns
         | sg :: q' -> segs q' (s_seg0 root sg ns)
       in segs q (([], cur0) :: []))
  | EAbs q ->
    conv_nodes want
      (let rec segs q0 ns =
         match q0 with
         | [] -> ns
         | sg :: q' -> segs q' (s_seg0 root sg ns)
       in segs q (([], root) :: []))
  | ECall (f, args) ->
    (match find_assoc f rg with
     | Some d ->
       coerce want d.f_ret
         (fn_sem rx0 d
           (let rec go tys = function
            | [] -> []
            | a :: args' ->
              (match tys with
               | [] -> []
               | t :: tys' -> (s_expr t root cur0 a) :: (go tys' args'))
            in go d.f_args args))
     | None -> SV Nothing)
  | ENot a -> SL (negb (as_bool (s_expr TLogical root cur0 a)))
  | EAnd (a, b) ->
    SL
      ((&&) (as_bool (s_expr TLogical root cur0 a))
        (as_bool (s_expr TLogical root cur0 b)))
  | EOr (a, b) ->
    SL
      ((||) (as_bool (s_expr TLogical root cur0 a))
        (as_bool (s_expr TLogical root cur0 b)))
  | ECmp (o, a, b) ->
    SL
      (cmp o (as_val (s_expr TValue root cur0 a))
        (as_val (s_expr TValue root cur0 b)))
  and s_seg0 root sg ns =
    match sg with
    | Child ss ->
      flat_map (fun n0 ->
        let rec go = function
        | [] -> []
        | s :: ss' -> app (s_sel root s n0) (go ss')
        in go ss) ns
    | Desc ss ->
      flat_map (fun n0 ->
        flat_map (fun d ->
          let rec go = function
          | [] -> []
          | s :: ss' -> app (s_sel root s d) (go ss')
          in go ss) (descendants (fst n0) (snd n0))) ns
  in s_seg0

(** val s_segs :
    registry -> (bool -> str -> str -> bool) -> json -> seg list -> node list
    -> node list **)

let s_segs rg rx0 root q ns =
  run_segs_s (s_seg rg rx0 root) q ns

(** val sem :
    registry -> (bool -> str -> str -> bool) -> query -> json -> node list **)

let sem rg rx0 q v =
  s_segs rg rx0 v q (([], v) :: [])

type ttype =
| T_EOF
| T_ERROR
| T_INIT
| T_COLON
| T_COMMA
| T_DOUBLE_DOT
| T_FILTER
| T_INDEX
| T_LBRACKET
| T_PROPERTY
| T_RBRACKET
| T_ROOT
| T_WILD
| T_AND
| T_CURRENT
| T_DQ_STRING
| T_EQ
| T_FALSE
| T_FLOAT
| T_FUNCTION
| T_GE
| T_GT
| T_INT
| T_LE
| T_LPAREN
| T_LT
| T_NE
| T_NOT
| T_NULL
| T_OR
| T_RPAREN
| T_SQ_STRING
| T_TRUE

(** val ttype_code : ttype -> z **)

let ttype_code = function
| T_EOF -> Z0
| T_ERROR -> Zpos XH
| T_INIT -> Zpos (XO XH)
| T_COLON -> Zpos (XI XH)
| T_COMMA -> Zpos (XO (XO XH))
| T_DOUBLE_DOT -> Zpos (XI (XO XH))
| T_FILTER -> Zpos (XO (XI XH))
| T_INDEX -> Zpos (XI (XI XH))
| T_LBRACKET -> Zpos (XO (XO (XO XH)))
| T_PROPERTY -> Zpos (XI (XO (XO XH)))
| T_RBRACKET -> Zpos (XO (XI (XO XH)))
| T_ROOT -> Zpos (XI (XI (XO XH)))
| T_WILD -> Zpos (XO (XO (XI XH)))
| T_AND -> Zpos (XI (XO (XI XH)))
| T_CURRENT -> Zpos (XO (XI (XI XH)))
| T_DQ_STRING -> Zpos (XI (XI (XI XH)))
| T_EQ -> Zpos (XO (XO (XO (XO XH))))
| T_FALSE -> Zpos (XI (XO (XO (XO XH))))
| T_FLOAT -> Zpos (XO (XI (XO (XO XH))))
| T_FUNCTION -> Zpos (XI (XI (XO (XO XH))))
| T_GE -> Zpos (XO (XO (XI (XO XH))))
| T_GT -> Zpos (XI (XO (XI (XO XH))))
| T_INT -> Zpos (XO (XI (XI (XO XH))))
| T_LE -> Zpos (XI (XI (XI (XO XH))))
| T_LPAREN -> Zpos (XO (XO (XO (XI XH))))
| T_LT -> Zpos (XI (XO (XO (XI XH))))
| T_NE -> Zpos (XO (XI (XO (XI XH))))
| T_NOT -> Zpos (XI (XI (XO (XI XH))))
| T_NULL -> Zpos (XO (XO (XI (XI XH))))
| T_OR -> Zpos (XI (XO (XI (XI XH))))
| T_RPAREN -> Zpos (XO (XI (XI (XI XH))))
| T_SQ_STRING -> Zpos (XI (XI (XI (XI XH))))
| T_TRUE -> Zpos (XO (XO (XO (XO (XO XH)))))

(** val ttype_eqb : ttype -> ttype -> bool **)

let ttype_eqb a b =
  Z.eqb (ttype_code a) (ttype_code b)

type token = { ty : ttype; tval : str; tidx : z }

type stream = { cur : token; pushed : token list; rest : token list }

(** val eof_token : token **)

let eof_token =
  { ty = T_EOF; tval = []; tidx = (Zneg XH) }

(** val stream_init : token list -> stream **)

let stream_init = function
| [] -> { cur = eof_token; pushed = []; rest = [] }
| t :: r0 -> { cur = t; pushed = []; rest = r0 }

(** val s_next : stream -> token * stream **)

let s_next s =
  let tok = s.cur in
  (match s.pushed with
   | [] ->
     if ttype_eqb tok.ty T_EOF
     then (tok, s)
     else (match s.rest with
           | [] -> (tok, { cur = eof_token; pushed = []; rest = [] })
           | t :: r0 -> (tok, { cur = t; pushed = []; rest = r0 }))
   | p :: ps -> (tok, { cur = p; pushed = ps; rest = s.rest }))

(** val s_push : stream -> token -> stream **)

let s_push s tok =
  { cur = tok; pushed = (app s.pushed (s.cur :: [])); rest = s.rest }

(** val s_peek : stream -> token * stream **)

let s_peek s =
  let (c0, s1) = s_next s in (s1.cur, (s_push s1 c0))

type re =
| REps
| RClass of bool * (n * n) list
| RSeq of re * re
| RAlt of re * re
| RStar of re

(** val rPlus : re -> re **)

let rPlus a =
  RSeq (a, (RStar a))

(** val rOpt : re -> re **)

let rOpt a =
  RAlt (a, REps)

(** val rChar : n -> re **)

let rChar c0 =
  RClass (false, ((c0, c0) :: []))

(** val in_ranges : n -> (n * n) list -> bool **)

let rec in_ranges c0 = function
| [] -> false
| p :: rs' ->
  let (lo, hi) = p in
  (||) ((&&) (N.leb lo c0) (N.leb c0 hi)) (in_ranges c0 rs')

(** val rm :
    nat -> re -> n list -> z -> (n list -> z -> z option) -> z option **)

let rec rm fuel r0 s n0 k =
  match fuel with
  | O -> None
  | S f ->
    (match r0 with
     | REps -> k s n0
     | RClass (neg, rs) ->
       (match s with
        | [] -> None
        | c0 :: s' ->
          if xorb neg (in_ranges c0 rs)
          then k s' (Z.add n0 (Zpos XH))
          else None)
     | RSeq (a, b) -> rm f a s n0 (fun s' n' -> rm f b s' n' k)
     | RAlt (a, b) ->
       (match rm f a s n0 k with
        | Some x -> Some x
        | None -> rm f b s n0 k)
     | RStar a ->
       (match rm f a s n0 (fun s' n' ->
                if Z.eqb n' n0 then None else rm f (RStar a) s' n' k) with
        | Some x -> Some x
        | None -> k s n0))

(** val re_match : re -> n list -> z option **)

let re_match r0 s =
  rm
    (add (mul (S (S (S (S (S (S (S (S O)))))))) (length s)) (S (S (S (S (S (S
      (S (S (S (S (S (S (S (S (S (S (S (S (S (S (S (S (S (S (S (S (S (S (S (S
      (S (S (S (S (S (S (S (S (S (S (S (S (S (S (S (S (S (S (S (S (S (S (S (S
      (S (S (S (S (S (S (S (S (S (S
      O))))))))))))))))))))))))))))))))))))))))))))))))))))))))))))))))) r0 s
    Z0 (fun _ n0 -> Some n0)

(** val cls_digit : (n * n) list **)

let cls_digit =
  ((Npos (XO (XO (XO (XO (XI XH)))))), (Npos (XI (XO (XO (XI (XI
    XH))))))) :: []

(** val re_digits : re **)

let re_digits =
  rPlus (RClass (false, cls_digit))

(** val re_minus_opt : re **)

let re_minus_opt =
  rOpt (rChar (Npos (XI (XO (XI (XI (XO XH)))))))

(** val re_eE : re **)

let re_eE =
  RClass (false, (((Npos (XI (XO (XI (XO (XO (XI XH))))))), (Npos (XI (XO (XI
    (XO (XO (XI XH)))))))) :: (((Npos (XI (XO (XI (XO (XO (XO XH))))))),
    (Npos (XI (XO (XI (XO (XO (XO XH)))))))) :: [])))

(** val rE_WHITESPACE : re **)

let rE_WHITESPACE =
  rPlus (RClass (false, (((Npos (XO (XO (XO (XO (XO XH)))))), (Npos (XO (XO
    (XO (XO (XO XH))))))) :: (((Npos (XO (XI (XO XH)))), (Npos (XO (XI (XO
    XH))))) :: (((Npos (XI (XO (XI XH)))), (Npos (XI (XO (XI
    XH))))) :: (((Npos (XI (XO (XO XH)))), (Npos (XI (XO (XO
    XH))))) :: []))))))

(** val cls_name_first : (n * n) list **)

let cls_name_first =
  ((Npos (XO (XO (XO (XO (XO (XO (XO XH)))))))), (Npos (XI (XI (XI (XI (XI
    (XI (XI (XI (XI (XI (XI (XO (XI (XO (XI XH))))))))))))))))) :: (((Npos
    (XO (XO (XO (XO (XO (XO (XO (XO (XO (XO (XO (XO (XO (XI (XI
    XH)))))))))))))))), (Npos (XI (XI (XI (XI (XI (XI (XI (XI (XI (XI (XI (XI
    (XI (XI (XI (XI (XO (XO (XO (XO XH)))))))))))))))))))))) :: (((Npos (XI
    (XO (XO (XO (XO (XI XH))))))), (Npos (XO (XI (XO (XI (XI (XI
    XH)))))))) :: (((Npos (XI (XO (XO (XO (XO (XO XH))))))), (Npos (XO (XI
    (XO (XI (XI (XO XH)))))))) :: (((Npos (XI (XI (XI (XI (XI (XO XH))))))),
    (Npos (XI (XI (XI (XI (XI (XO XH)))))))) :: []))))

(** val cls_name_char : (n * n) list **)

let cls_name_char =
  ((Npos (XO (XO (XO (XO (XO (XO (XO XH)))))))), (Npos (XI (XI (XI (XI (XI
    (XI (XI (XI (XI (XI (XI (XO (XI (XO (XI XH))))))))))))))))) :: (((Npos
    (XO (XO (XO (XO (XO (XO (XO (XO (XO (XO (XO (XO (XO (XI (XI
    XH)))))))))))))))), (Npos (XI (XI (XI (XI (XI (XI (XI (XI (XI (XI (XI (XI
    (XI (XI (XI (XI (XO (XO (XO (XO XH)))))))))))))))))))))) :: (((Npos (XI
    (XO (XO (XO (XO (XI XH))))))), (Npos (XO (XI (XO (XI (XI (XI
    XH)))))))) :: (((Npos (XI (XO (XO (XO (XO (XO XH))))))), (Npos (XO (XI
    (XO (XI (XI (XO XH)))))))) :: (((Npos (XO (XO (XO (XO (XI XH)))))), (Npos
    (XI (XO (XO (XI (XI XH))))))) :: (((Npos (XI (XI (XI (XI (XI (XO
    XH))))))), (Npos (XI (XI (XI (XI (XI (XO XH)))))))) :: [])))))

(** val rE_PROPERTY : re **)

let rE_PROPERTY =
  RSeq ((RClass (false, cls_name_first)), (RStar (RClass (false,
    cls_name_char))))

(** val rE_INDEX : re **)

let rE_INDEX =
  RSeq (re_minus_opt, re_digits)

(** val rE_INT : re **)

let rE_INT =
  RSeq (re_minus_opt, (RSeq (re_digits,
    (rOpt (RSeq (re_eE, (RSeq
      ((rOpt (rChar (Npos (XI (XI (XO (XI (XO XH)))))))), re_digits))))))))

(** val rE_FLOAT : re **)

let rE_FLOAT =
  RAlt ((RSeq ((rOpt (rChar (Npos (XO (XI (XO (XI (XI XH)))))))), (RSeq
    (re_minus_opt, (RSeq (re_digits, (RSeq
    ((rChar (Npos (XO (XI (XI (XI (XO XH))))))), (RSeq (re_digits,
    (rOpt (RSeq (re_eE, (RSeq
      ((rOpt (RClass (false, (((Npos (XI (XI (XO (XI (XO XH)))))), (Npos (XI
         (XI (XO (XI (XO XH))))))) :: (((Npos (XI (XO (XI (XI (XO XH)))))),
         (Npos (XI (XO (XI (XI (XO XH))))))) :: []))))), re_digits))))))))))))))),
    (RSeq (re_minus_opt, (RSeq (re_digits, (RSeq (re_eE, (RSeq
    ((rChar (Npos (XI (XO (XI (XI (XO XH))))))), re_digits)))))))))

(** val rE_FUNCTION_NAME : re **)

let rE_FUNCTION_NAME =
  RSeq ((RClass (false, (((Npos (XI (XO (XO (XO (XO (XI XH))))))), (Npos (XO
    (XI (XO (XI (XI (XI XH)))))))) :: []))), (RStar (RClass (false, (((Npos
    (XI (XO (XO (XO (XO (XI XH))))))), (Npos (XO (XI (XO (XI (XI (XI
    XH)))))))) :: (((Npos (XI (XI (XI (XI (XI (XO XH))))))), (Npos (XI (XI
    (XI (XI (XI (XO XH)))))))) :: (((Npos (XO (XO (XO (XO (XI XH)))))), (Npos
    (XI (XO (XO (XI (XI XH))))))) :: [])))))))

(** val eSCAPES : n list **)

let eSCAPES =
  (Npos (XO (XI (XO (XO (XO (XI XH))))))) :: ((Npos (XO (XI (XI (XO (XO (XI
    XH))))))) :: ((Npos (XO (XI (XI (XI (XO (XI XH))))))) :: ((Npos (XO (XI
    (XO (XO (XI (XI XH))))))) :: ((Npos (XO (XO (XI (XO (XI (XI
    XH))))))) :: ((Npos (XI (XO (XI (XO (XI (XI XH))))))) :: ((Npos (XI (XI
    (XI (XI (XO XH)))))) :: ((Npos (XO (XO (XI (XI (XI (XO
    XH))))))) :: [])))))))

type lexer = { l_rest : n list; l_cur : n list; l_start : z; l_pos : 
               z; l_fdepth : z; l_ffd : z list; l_fcs : z list;
               l_bs : (n * z) list; l_toks : token list }

type lstate =
| SRoot
| SSegment
| SDescendant
| SShorthand
| SBracket
| SFilter0
| SString of n * bool
| SStringBody of n * bool

type lexout =
| LNext of lstate * lexer
| LStop of lexer
| LRaise of jperr * z
| LCrash of pyexn

(** val upd_text : lexer -> n list -> n list -> z -> z -> lexer **)

let upd_text l rest0 cur0 start pos =
  { l_rest = rest0; l_cur = cur0; l_start = start; l_pos = pos; l_fdepth =
    l.l_fdepth; l_ffd = l.l_ffd; l_fcs = l.l_fcs; l_bs = l.l_bs; l_toks =
    l.l_toks }

(** val l_next : lexer -> n option * lexer **)

let l_next l =
  match l.l_rest with
  | [] -> (None, l)
  | c0 :: r0 ->
    ((Some c0),
      (upd_text l r0 (c0 :: l.l_cur) l.l_start (Z.add l.l_pos (Zpos XH))))

(** val l_peek : lexer -> n option **)

let l_peek l =
  match l.l_rest with
  | [] -> None
  | c0 :: _ -> Some c0

(** val l_ignore : lexer -> lexer **)

let l_ignore l =
  upd_text l l.l_rest [] l.l_pos l.l_pos

(** val l_backup : lexer -> lexer option **)

let l_backup l =
  match l.l_cur with
  | [] -> None
  | c0 :: cur' ->
    Some
      (upd_text l (c0 :: l.l_rest) cur' l.l_start (Z.sub l.l_pos (Zpos XH)))

(** val add_tok : lexer -> token -> lexer **)

let add_tok l t =
  { l_rest = l.l_rest; l_cur = l.l_cur; l_start = l.l_start; l_pos = l.l_pos;
    l_fdepth = l.l_fdepth; l_ffd = l.l_ffd; l_fcs = l.l_fcs; l_bs = l.l_bs;
    l_toks = (t :: l.l_toks) }

(** val l_emit : ttype -> lexer -> lexer **)

let l_emit t l =
  l_ignore (add_tok l { ty = t; tval = (rev l.l_cur); tidx = l.l_start })

(** val l_error : lexer -> lexout **)

let l_error l =
  LStop (add_tok l { ty = T_ERROR; tval = (rev l.l_cur); tidx = l.l_start })

(** val skipn_push : nat -> n list -> n list -> n list * n list **)

let rec skipn_push n0 rest0 cur0 =
  match n0 with
  | O -> (rest0, cur0)
  | S n' ->
    (match rest0 with
     | [] -> (rest0, cur0)
     | c0 :: r0 -> skipn_push n' r0 (c0 :: cur0))

(** val l_advance : lexer -> z -> lexer **)

let l_advance l n0 =
  let (r0, c0) = skipn_push (Z.to_nat n0) l.l_rest l.l_cur in
  upd_text l r0 c0 l.l_start (Z.add l.l_pos n0)

(** val l_accept_match : re -> lexer -> bool * lexer **)

let l_accept_match r0 l =
  match re_match r0 l.l_rest with
  | Some n0 -> (true, (l_advance l n0))
  | None -> (false, l)

(** val is_prefix : n list -> n list -> bool **)

let rec is_prefix p s =
  match p with
  | [] -> true
  | c0 :: p' ->
    (match s with
     | [] -> false
     | d :: s' -> (&&) (N.eqb c0 d) (is_prefix p' s'))

(** val l_accept : n list -> lexer -> bool * lexer **)

let l_accept p l =
  if is_prefix p l.l_rest then (true, (l_advance l (zlen p))) else (false, l)

(** val l_ignore_ws : lexer -> (bool * lexer) option **)

let l_ignore_ws l =
  match l.l_cur with
  | [] ->
    let (b, l') = l_accept_match rE_WHITESPACE l in
    Some (b, (if b then l_ignore l' else l'))
  | _ :: _ -> None

(** val set_stacks :
    lexer -> z -> z list -> z list -> (n * z) list -> lexer **)

let set_stacks l fdepth ffd fcs bs =
  { l_rest = l.l_rest; l_cur = l.l_cur; l_start = l.l_start; l_pos = l.l_pos;
    l_fdepth = fdepth; l_ffd = ffd; l_fcs = fcs; l_bs = bs; l_toks =
    l.l_toks }

(** val push_bracket : n -> z -> lexer -> lexer **)

let push_bracket c0 idx l =
  set_stacks l l.l_fdepth l.l_ffd l.l_fcs ((c0, idx) :: l.l_bs)

(** val ceq : n option -> n -> bool **)

let ceq o c0 =
  match o with
  | Some d -> N.eqb d c0
  | None -> false

(** val s_true : n list **)

let s_true =
  (Npos (XO (XO (XI (XO (XI (XI XH))))))) :: ((Npos (XO (XI (XO (XO (XI (XI
    XH))))))) :: ((Npos (XI (XO (XI (XO (XI (XI XH))))))) :: ((Npos (XI (XO
    (XI (XO (XO (XI XH))))))) :: [])))

(** val s_false : n list **)

let s_false =
  (Npos (XO (XI (XI (XO (XO (XI XH))))))) :: ((Npos (XI (XO (XO (XO (XO (XI
    XH))))))) :: ((Npos (XO (XO (XI (XI (XO (XI XH))))))) :: ((Npos (XI (XI
    (XO (XO (XI (XI XH))))))) :: ((Npos (XI (XO (XI (XO (XO (XI
    XH))))))) :: []))))

(** val s_null : n list **)

let s_null =
  (Npos (XO (XI (XI (XI (XO (XI XH))))))) :: ((Npos (XI (XO (XI (XO (XI (XI
    XH))))))) :: ((Npos (XO (XO (XI (XI (XO (XI XH))))))) :: ((Npos (XO (XO
    (XI (XI (XO (XI XH))))))) :: [])))

(** val emit2 : lexer -> n -> ttype -> ttype -> lexer **)

let emit2 l second t2 t1 =
  if ceq (l_peek l) second then l_emit t2 (snd (l_next l)) else l_emit t1 l

(** val lex_step : lstate -> lexer -> lexout **)

let lex_step st l =
  match st with
  | SRoot ->
    let (c0, l1) = l_next l in
    if ceq c0 (Npos (XO (XO (XI (XO (XO XH))))))
    then LNext (SSegment, (l_emit T_ROOT l1))
    else l_error l1
  | SSegment ->
    (match l_ignore_ws l with
     | Some p ->
       let (ws, l0) = p in
       if (&&) ws (match l_peek l0 with
                   | Some _ -> false
                   | None -> true)
       then l_error l0
       else let (c0, l1) = l_next l0 in
            (match c0 with
             | Some c' ->
               if N.eqb c' (Npos (XO (XI (XI (XI (XO XH))))))
               then if ceq (l_peek l1) (Npos (XO (XI (XI (XI (XO XH))))))
                    then LNext (SDescendant,
                           (l_emit T_DOUBLE_DOT (snd (l_next l1))))
                    else LNext (SShorthand, l1)
               else if N.eqb c' (Npos (XI (XI (XO (XI (XI (XO XH)))))))
                    then LNext (SBracket,
                           (push_bracket (Npos (XI (XI (XO (XI (XI (XO
                             XH))))))) (Z.sub l1.l_pos (Zpos XH))
                             (l_emit T_LBRACKET l1)))
                    else if negb (Z.eqb l1.l_fdepth Z0)
                         then (match l_backup l1 with
                               | Some l2 -> LNext (SFilter0, l2)
                               | None -> LRaise (ESyntax, l1.l_pos))
                         else l_error l1
             | None -> LStop (l_emit T_EOF l1))
     | None -> LRaise (ELexer, l.l_pos))
  | SDescendant ->
    let (c0, l1) = l_next l in
    (match c0 with
     | Some c' ->
       if N.eqb c' (Npos (XO (XI (XO (XI (XO XH))))))
       then LNext (SSegment, (l_emit T_WILD l1))
       else if N.eqb c' (Npos (XI (XI (XO (XI (XI (XO XH)))))))
            then LNext (SBracket,
                   (push_bracket (Npos (XI (XI (XO (XI (XI (XO XH)))))))
                     (Z.sub l1.l_pos (Zpos XH)) (l_emit T_LBRACKET l1)))
            else (match l_backup l1 with
                  | Some l2 ->
                    let (b, l3) = l_accept_match rE_PROPERTY l2 in
                    if b
                    then LNext (SSegment, (l_emit T_PROPERTY l3))
                    else l_error (snd (l_next l3))
                  | None -> LRaise (ESyntax, l1.l_pos))
     | None -> l_error l1)
  | SShorthand ->
    let l0 = l_ignore l in
    let (w, l1) = l_accept_match rE_WHITESPACE l0 in
    if w
    then l_error l1
    else let (c0, l2) = l_next l1 in
         if ceq c0 (Npos (XO (XI (XO (XI (XO XH))))))
         then LNext (SSegment, (l_emit T_WILD l2))
         else (match l_backup l2 with
               | Some l3 ->
                 let (b, l4) = l_accept_match rE_PROPERTY l3 in
                 if b
                 then LNext (SSegment, (l_emit T_PROPERTY l4))
                 else l_error l4
               | None -> LRaise (ESyntax, l2.l_pos))
  | SBracket ->
    (match l_ignore_ws l with
     | Some p ->
       let (_, l0) = p in
       let (c0, l1) = l_next l0 in
       (match c0 with
        | Some c' ->
          if N.eqb c' (Npos (XI (XO (XI (XI (XI (XO XH)))))))
          then (match l1.l_bs with
                | [] ->
                  (match l_backup l1 with
                   | Some l2 -> l_error l2
                   | None -> LRaise (ESyntax, l1.l_pos))
                | p0 :: bs' ->
                  let (n0, _) = p0 in
                  (match n0 with
                   | N0 ->
                     (match l_backup l1 with
                      | Some l2 -> l_error l2
                      | None -> LRaise (ESyntax, l1.l_pos))
                   | Npos p1 ->
                     (match p1 with
                      | XI p2 ->
                        (match p2 with
                         | XI p3 ->
                           (match p3 with
                            | XO p4 ->
                              (match p4 with
                               | XI p5 ->
                                 (match p5 with
                                  | XI p6 ->
                                    (match p6 with
                                     | XO p7 ->
                                       (match p7 with
                                        | XH ->
                                          LNext (SSegment,
                                            (l_emit T_RBRACKET
                                              (set_stacks l1 l1.l_fdepth
                                                l1.l_ffd l1.l_fcs bs')))
                                        | _ ->
                                          (match l_backup l1 with
                                           | Some l2 -> l_error l2
                                           | None ->
                                             LRaise (ESyntax, l1.l_pos)))
                                     | _ ->
                                       (match l_backup l1 with
                                        | Some l2 -> l_error l2
                                        | None -> LRaise (ESyntax, l1.l_pos)))
                                  | _ ->
                                    (match l_backup l1 with
                                     | Some l2 -> l_error l2
                                     | None -> LRaise (ESyntax, l1.l_pos)))
                               | _ ->
                                 (match l_backup l1 with
                                  | Some l2 -> l_error l2
                                  | None -> LRaise (ESyntax, l1.l_pos)))
                            | _ ->
                              (match l_backup l1 with
                               | Some l2 -> l_error l2
                               | None -> LRaise (ESyntax, l1.l_pos)))
                         | _ ->
                           (match l_backup l1 with
                            | Some l2 -> l_error l2
                            | None -> LRaise (ESyntax, l1.l_pos)))
                      | _ ->
                        (match l_backup l1 with
                         | Some l2 -> l_error l2
                         | None -> LRaise (ESyntax, l1.l_pos)))))
          else if N.eqb c' (Npos (XO (XI (XO (XI (XO XH))))))
               then LNext (SBracket, (l_emit T_WILD l1))
               else if N.eqb c' (Npos (XI (XI (XI (XI (XI XH))))))
                    then let l2 = l_emit T_FILTER l1 in
                         LNext (SFilter0,
                         (set_stacks l2 (Z.add l2.l_fdepth (Zpos XH))
                           ((zlen l2.l_fcs) :: l2.l_ffd) l2.l_fcs l2.l_bs))
                    else if N.eqb c' (Npos (XO (XO (XI (XI (XO XH))))))
                         then LNext (SBracket, (l_emit T_COMMA l1))
                         else if N.eqb c' (Npos (XO (XI (XO (XI (XI XH))))))
                              then LNext (SBracket, (l_emit T_COLON l1))
                              else if N.eqb c' (Npos (XI (XI (XI (XO (XO
                                        XH))))))
                                   then LNext ((SString ((Npos (XI (XI (XI
                                          (XO (XO XH)))))), false)), l1)
                                   else if N.eqb c' (Npos (XO (XI (XO (XO (XO
                                             XH))))))
                                        then LNext ((SString ((Npos (XO (XI
                                               (XO (XO (XO XH)))))), false)),
                                               l1)
                                        else (match l_backup l1 with
                                              | Some l2 ->
                                                let (b, l3) =
                                                  l_accept_match rE_INDEX l2
                                                in
                                                if b
                                                then LNext (SBracket,
                                                       (l_emit T_INDEX l3))
                                                else l_error l3
                                              | None ->
                                                LRaise (ESyntax, l1.l_pos))
        | None -> l_error l1)
     | None -> LRaise (ELexer, l.l_pos))
  | SFilter0 ->
    (match l_ignore_ws l with
     | Some p ->
       let (_, l0) = p in
       let (c0, l1) = l_next l0 in
       (match c0 with
        | Some c' ->
          if N.eqb c' (Npos (XI (XO (XI (XI (XI (XO XH)))))))
          then (match l1.l_ffd with
                | [] -> LCrash XIndexError
                | _ :: ffd' ->
                  (match l_backup
                           (set_stacks l1 (Z.sub l1.l_fdepth (Zpos XH)) ffd'
                             l1.l_fcs l1.l_bs) with
                   | Some l2 -> LNext (SBracket, l2)
                   | None -> LRaise (ESyntax, l1.l_pos)))
          else if N.eqb c' (Npos (XO (XO (XI (XI (XO XH))))))
               then let l2 = l_emit T_COMMA l1 in
                    (match l2.l_ffd with
                     | [] -> LCrash XIndexError
                     | d :: ffd' ->
                       if Z.ltb d (zlen l2.l_fcs)
                       then LNext (SFilter0, l2)
                       else LNext (SBracket,
                              (set_stacks l2 (Z.sub l2.l_fdepth (Zpos XH))
                                ffd' l2.l_fcs l2.l_bs)))
               else if N.eqb c' (Npos (XI (XI (XI (XO (XO XH))))))
                    then LNext ((SString ((Npos (XI (XI (XI (XO (XO XH)))))),
                           true)), l1)
                    else if N.eqb c' (Npos (XO (XI (XO (XO (XO XH))))))
                         then LNext ((SString ((Npos (XO (XI (XO (XO (XO
                                XH)))))), true)), l1)
                         else if N.eqb c' (Npos (XO (XO (XO (XI (XO XH))))))
                              then let l2 =
                                     push_bracket (Npos (XO (XO (XO (XI (XO
                                       XH)))))) (Z.sub l1.l_pos (Zpos XH))
                                       (l_emit T_LPAREN l1)
                                   in
                                   LNext (SFilter0,
                                   (match l2.l_fcs with
                                    | [] -> l2
                                    | n0 :: fcs' ->
                                      set_stacks l2 l2.l_fdepth l2.l_ffd
                                        ((Z.add n0 (Zpos XH)) :: fcs') l2.l_bs))
                              else if N.eqb c' (Npos (XI (XO (XO (XI (XO
                                        XH))))))
                                   then (match l1.l_bs with
                                         | [] ->
                                           (match l_backup l1 with
                                            | Some l2 -> l_error l2
                                            | None ->
                                              LRaise (ESyntax, l1.l_pos))
                                         | p0 :: bs' ->
                                           let (n0, _) = p0 in
                                           (match n0 with
                                            | N0 ->
                                              (match l_backup l1 with
                                               | Some l2 -> l_error l2
                                               | None ->
                                                 LRaise (ESyntax, l1.l_pos))
                                            | Npos p1 ->
                                              (match p1 with
                                               | XO p2 ->
                                                 (match p2 with
                                                  | XO p3 ->
                                                    (match p3 with
                                                     | XO p4 ->
                                                       (match p4 with
                                                        | XI p5 ->
                                                          (match p5 with
                                                           | XO p6 ->
                                                             (match p6 with
                                                              | XH ->
                                                                let l2 =
                                                                  l_emit
                                                                    T_RPAREN
                                                                    (set_stacks
                                                                    l1
                                                                    l1.l_fdepth
                                                                    l1.l_ffd
                                                                    l1.l_fcs
                                                                    bs')
                                                                in
                                                                LNext
                                                                (SFilter0,
                                                                (match l2.l_fcs with
                                                                 | [] -> l2
                                                                 | n1 :: fcs' ->
                                                                   set_stacks
                                                                    l2
                                                                    l2.l_fdepth
                                                                    l2.l_ffd
                                                                    (if 
                                                                    Z.eqb n1
                                                                    (Zpos XH)
                                                                    then fcs'
                                                                    else 
                                                                    (Z.sub n1
                                                                    (Zpos XH)) :: fcs')
                                                                    l2.l_bs))
                                                              | _ ->
                                                                (match 
                                                                 l_backup l1 with
                                                                 | Some l2 ->
                                                                   l_error l2
                                                                 | None ->
                                                                   LRaise
                                                                    (ESyntax,
                                                                    l1.l_pos)))
                                                           | _ ->
                                                             (match l_backup
                                                                    l1 with
                                                              | Some l2 ->
                                                                l_error l2
                                                              | None ->
                                                                LRaise
                                                                  (ESyntax,
                                                                  l1.l_pos)))
                                                        | _ ->
                                                          (match l_backup l1 with
                                                           | Some l2 ->
                                                             l_error l2
                                                           | None ->
                                                             LRaise (ESyntax,
                                                               l1.l_pos)))
                                                     | _ ->
                                                       (match l_backup l1 with
                                                        | Some l2 ->
                                                          l_error l2
                                                        | None ->
                                                          LRaise (ESyntax,
                                                            l1.l_pos)))
                                                  | _ ->
                                                    (match l_backup l1 with
                                                     | Some l2 -> l_error l2
                                                     | None ->
                                                       LRaise (ESyntax,
                                                         l1.l_pos)))
                                               | _ ->
                                                 (match l_backup l1 with
                                                  | Some l2 -> l_error l2
                                                  | None ->
                                                    LRaise (ESyntax, l1.l_pos)))))
                                   else if N.eqb c' (Npos (XO (XO (XI (XO (XO
                                             XH))))))
                                        then LNext (SSegment,
                                               (l_emit T_ROOT l1))
                                        else if N.eqb c' (Npos (XO (XO (XO
                                                  (XO (XO (XO XH)))))))
                                             then LNext (SSegment,
                                                    (l_emit T_CURRENT l1))
                                             else if N.eqb c' (Npos (XO (XI
                                                       (XI (XI (XO XH))))))
                                                  then (match l_backup l1 with
                                                        | Some l2 ->
                                                          LNext (SSegment, l2)
                                                        | None ->
                                                          LRaise (ESyntax,
                                                            l1.l_pos))
                                                  else if N.eqb c' (Npos (XI
                                                            (XO (XO (XO (XO
                                                            XH))))))
                                                       then LNext (SFilter0,
                                                              (emit2 l1 (Npos
                                                                (XI (XO (XI
                                                                (XI (XI
                                                                XH)))))) T_NE
                                                                T_NOT))
                                                       else if N.eqb c' (Npos
                                                                 (XI (XO (XI
                                                                 (XI (XI
                                                                 XH))))))
                                                            then if ceq
                                                                    (l_peek
                                                                    l1) (Npos
                                                                    (XI (XO
                                                                    (XI (XI
                                                                    (XI
                                                                    XH))))))
                                                                 then 
                                                                   LNext
                                                                    (SFilter0,
                                                                    (l_emit
                                                                    T_EQ
                                                                    (snd
                                                                    (l_next
                                                                    l1))))
                                                                 else 
                                                                   (match 
                                                                    l_backup
                                                                    l1 with
                                                                    | Some l2 ->
                                                                    l_error l2
                                                                    | None ->
                                                                    LRaise
                                                                    (ESyntax,
                                                                    l1.l_pos))
                                                            else if N.eqb c'
                                                                    (Npos (XO
                                                                    (XO (XI
                                                                    (XI (XI
                                                                    XH))))))
                                                                 then 
                                                                   LNext
                                                                    (SFilter0,
                                                                    (emit2 l1
                                                                    (Npos (XI
                                                                    (XO (XI
                                                                    (XI (XI
                                                                    XH))))))
                                                                    T_LE T_LT))
                                                                 else 
                                                                   if 
                                                                    N.eqb c'
                                                                    (Npos (XO
                                                                    (XI (XI
                                                                    (XI (XI
                                                                    XH))))))
                                                                   then 
                                                                    LNext
                                                                    (SFilter0,
                                                                    (emit2 l1
                                                                    (Npos (XI
                                                                    (XO (XI
                                                                    (XI (XI
                                                                    XH))))))
                                                                    T_GE T_GT))
                                                                   else 
                                                                    (match 
                                                                    l_backup
                                                                    l1 with
                                                                    | Some l2 ->
                                                                    let (
                                                                    b0, a0) =
                                                                    l_accept_match
                                                                    rE_FUNCTION_NAME
                                                                    l2
                                                                    in
                                                                    if 
                                                                    (&&) b0
                                                                    (ceq
                                                                    (l_peek
                                                                    a0) (Npos
                                                                    (XO (XO
                                                                    (XO (XI
                                                                    (XO
                                                                    XH)))))))
                                                                    then 
                                                                    let l3 =
                                                                    set_stacks
                                                                    a0
                                                                    a0.l_fdepth
                                                                    a0.l_ffd
                                                                    ((Zpos
                                                                    XH) :: a0.l_fcs)
                                                                    a0.l_bs
                                                                    in
                                                                    let l4 =
                                                                    l_emit
                                                                    T_FUNCTION
                                                                    l3
                                                                    in
                                                                    let l5 =
                                                                    push_bracket
                                                                    (Npos (XO
                                                                    (XO (XO
                                                                    (XI (XO
                                                                    XH))))))
                                                                    l4.l_pos
                                                                    l4
                                                                    in
                                                                    LNext
                                                                    (SFilter0,
                                                                    (l_ignore
                                                                    (snd
                                                                    (l_next
                                                                    l5))))
                                                                    else 
                                                                    let (
                                                                    b1, a1) =
                                                                    l_accept
                                                                    ((Npos
                                                                    (XO (XI
                                                                    (XI (XO
                                                                    (XO
                                                                    XH)))))) :: ((Npos
                                                                    (XO (XI
                                                                    (XI (XO
                                                                    (XO
                                                                    XH)))))) :: []))
                                                                    l2
                                                                    in
                                                                    if b1
                                                                    then 
                                                                    LNext
                                                                    (SFilter0,
                                                                    (l_emit
                                                                    T_AND a1))
                                                                    else 
                                                                    let (
                                                                    b2, a2) =
                                                                    l_accept
                                                                    ((Npos
                                                                    (XO (XO
                                                                    (XI (XI
                                                                    (XI (XI
                                                                    XH))))))) :: ((Npos
                                                                    (XO (XO
                                                                    (XI (XI
                                                                    (XI (XI
                                                                    XH))))))) :: []))
                                                                    l2
                                                                    in
                                                                    if b2
                                                                    then 
                                                                    LNext
                                                                    (SFilter0,
                                                                    (l_emit
                                                                    T_OR a2))
                                                                    else 
                                                                    let (
                                                                    b3, a3) =
                                                                    l_accept
                                                                    s_true l2
                                                                    in
                                                                    if b3
                                                                    then 
                                                                    LNext
                                                                    (SFilter0,
                                                                    (l_emit
                                                                    T_TRUE a3))
                                                                    else 
                                                                    let (
                                                                    b4, a4) =
                                                                    l_accept
                                                                    s_false l2
                                                                    in
                                                                    if b4
                                                                    then 
                                                                    LNext
                                                                    (SFilter0,
                                                                    (l_emit
                                                                    T_FALSE
                                                                    a4))
                                                                    else 
                                                                    let (
                                                                    b5, a5) =
                                                                    l_accept
                                                                    s_null l2
                                                                    in
                                                                    if b5
                                                                    then 
                                                                    LNext
                                                                    (SFilter0,
                                                                    (l_emit
                                                                    T_NULL a5))
                                                                    else 
                                                                    let (
                                                                    b6, a6) =
                                                                    l_accept_match
                                                                    rE_FLOAT
                                                                    l2
                                                                    in
                                                                    if b6
                                                                    then 
                                                                    LNext
                                                                    (SFilter0,
                                                                    (l_emit
                                                                    T_FLOAT
                                                                    a6))
                                                                    else 
                                                                    let (
                                                                    b7, a7) =
                                                                    l_accept_match
                                                                    rE_INT l2
                                                                    in
                                                                    if b7
                                                                    then 
                                                                    LNext
                                                                    (SFilter0,
                                                                    (l_emit
                                                                    T_INT a7))
                                                                    else 
                                                                    l_error l2
                                                                    | None ->
                                                                    LRaise
                                                                    (ESyntax,
                                                                    l1.l_pos))
        | None -> l_error l1)
     | None -> LRaise (ELexer, l.l_pos))
  | SString (q, inf) ->
    let l0 = l_ignore l in
    (match l_peek l0 with
     | Some _ -> LNext ((SStringBody (q, inf)), l0)
     | None ->
       let tt =
         if N.eqb q (Npos (XI (XI (XI (XO (XO XH))))))
         then T_SQ_STRING
         else T_DQ_STRING
       in
       LNext ((if inf then SFilter0 else SBracket),
       (l_ignore (snd (l_next (l_emit tt l0))))))
  | SStringBody (q, inf) ->
    let (c0, l1) = l_next l in
    (match c0 with
     | Some c' ->
       if N.eqb c' (Npos (XO (XO (XI (XI (XI (XO XH)))))))
       then (match l_peek l1 with
             | Some p ->
               if (||) (existsb (N.eqb p) eSCAPES) (N.eqb p q)
               then LNext ((SStringBody (q, inf)), (snd (l_next l1)))
               else l_error l1
             | None -> l_error l1)
       else if N.eqb c' q
            then (match l_backup l1 with
                  | Some l2 ->
                    let tt =
                      if N.eqb q (Npos (XI (XI (XI (XO (XO XH))))))
                      then T_SQ_STRING
                      else T_DQ_STRING
                    in
                    LNext ((if inf then SFilter0 else SBracket),
                    (l_ignore (snd (l_next (l_emit tt l2)))))
                  | None -> LRaise (ESyntax, l1.l_pos))
            else LNext ((SStringBody (q, inf)), l1)
     | None -> l_error l1)

(** val lex_run : nat -> lstate -> lexer -> lexer result **)

let rec lex_run fuel st l =
  match fuel with
  | O -> OutOfFuel
  | S f ->
    (match lex_step st l with
     | LNext (st', l') -> lex_run f st' l'
     | LStop l' -> Ok l'
     | LRaise (c0, off) -> Err (c0, (Some off))
     | LCrash x -> Crash x)

(** val lexer_init : str -> lexer **)

let lexer_init q =
  { l_rest = q; l_cur = []; l_start = Z0; l_pos = Z0; l_fdepth = Z0; l_ffd =
    []; l_fcs = []; l_bs = []; l_toks = [] }

(** val lex_fuel : str -> nat **)

let lex_fuel q =
  add (mul (S (S (S (S O)))) (length q)) (S (S (S (S (S (S (S (S (S (S (S (S
    (S (S (S (S O))))))))))))))))

(** val m_tokenize : str -> token list result **)

let m_tokenize q =
  bind (lex_run (lex_fuel q) SRoot (lexer_init q)) (fun l ->
    match l.l_toks with
    | [] ->
      (match l.l_bs with
       | [] -> Ok []
       | p :: _ -> let (_, idx) = p in Err (ESyntax, (Some idx)))
    | t :: _ ->
      if ttype_eqb t.ty T_ERROR
      then Err (ESyntax, (Some t.tidx))
      else (match l.l_bs with
            | [] -> Ok (rev l.l_toks)
            | p :: _ -> let (_, idx) = p in Err (ESyntax, (Some idx))))

(** val is_digit : n -> bool **)

let is_digit c0 =
  (&&) (N.leb (Npos (XO (XO (XO (XO (XI XH)))))) c0)
    (N.leb c0 (Npos (XI (XO (XO (XI (XI XH)))))))

(** val take_digits : n list -> n list * n list **)

let rec take_digits s = match s with
| [] -> ([], [])
| c0 :: s' ->
  if is_digit c0
  then let (d, r0) = take_digits s' in ((c0 :: d), r0)
  else ([], s)

(** val digits_val : n list -> z **)

let digits_val ds =
  fold_left (fun a d ->
    Z.add (Z.mul a (Zpos (XO (XI (XO XH)))))
      (Z.sub (Z.of_N d) (Zpos (XO (XO (XO (XO (XI XH)))))))) ds Z0

type decimal = { d_neg : bool; d_mant : z; d_exp10 : z; d_ndig : z }

(** val hd_is : n -> str -> bool **)

let hd_is c0 = function
| [] -> false
| d :: _ -> N.eqb d c0

(** val parse_decimal : str -> decimal option **)

let parse_decimal s =
  let neg = hd_is (Npos (XI (XO (XI (XI (XO XH)))))) s in
  let s1 = if neg then tl s else s in
  let (ip, s2) = take_digits s1 in
  (match ip with
   | [] -> None
   | _ :: _ ->
     let (fp, s3) =
       if hd_is (Npos (XO (XI (XI (XI (XO XH)))))) s2
       then take_digits (tl s2)
       else ([], s2)
     in
     (match s3 with
      | [] ->
        Some { d_neg = neg; d_mant = (digits_val (app ip fp)); d_exp10 =
          (Z.opp (zlen fp)); d_ndig = (zlen (app ip fp)) }
      | _ :: _ ->
        if (||) (hd_is (Npos (XI (XO (XI (XO (XO (XI XH))))))) s3)
             (hd_is (Npos (XI (XO (XI (XO (XO (XO XH))))))) s3)
        then let r0 = tl s3 in
             let eneg = hd_is (Npos (XI (XO (XI (XI (XO XH)))))) r0 in
             let r1 =
               if (||) eneg (hd_is (Npos (XI (XI (XO (XI (XO XH)))))) r0)
               then tl r0
               else r0
             in
             let (ed, r2) = take_digits r1 in
             (match ed with
              | [] -> None
              | _ :: _ ->
                (match r2 with
                 | [] ->
                   let ev = digits_val ed in
                   Some { d_neg = neg; d_mant = (digits_val (app ip fp));
                   d_exp10 =
                   (Z.sub (if eneg then Z.opp ev else ev) (zlen fp));
                   d_ndig = (zlen (app ip fp)) }
                 | _ :: _ -> None))
        else None))

(** val strip_twos : nat -> z -> z -> z * z **)

let rec strip_twos fuel m e =
  match fuel with
  | O -> (m, e)
  | S f ->
    if Z.eqb m Z0
    then (Z0, Z0)
    else if Z.even m
         then strip_twos f (Z.div m (Zpos (XO XH))) (Z.add e (Zpos XH))
         else (m, e)

(** val round_ratio : z -> z -> (z * z) option **)

let round_ratio num0 den =
  let l = Z.sub (Z.log2 num0) (Z.log2 den) in
  let quo = fun e ->
    if Z.leb Z0 e
    then Z.div num0 (Z.mul den (Z.pow (Zpos (XO XH)) e))
    else Z.div (Z.mul num0 (Z.pow (Zpos (XO XH)) (Z.opp e))) den
  in
  let e0 = Z.sub l (Zpos (XO (XO (XI (XO (XI XH)))))) in
  let e1 =
    if Z.ltb (quo e0)
         (Z.pow (Zpos (XO XH)) (Zpos (XO (XO (XI (XO (XI XH)))))))
    then Z.sub e0 (Zpos XH)
    else if Z.leb (Z.pow (Zpos (XO XH)) (Zpos (XI (XO (XI (XO (XI XH)))))))
              (quo e0)
         then Z.add e0 (Zpos XH)
         else e0
  in
  let e = Z.max e1 (Zneg (XO (XI (XO (XO (XI (XI (XO (XO (XO (XO XH)))))))))))
  in
  if Z.leb Z0 e
  then let p = ((Z.div num0 (Z.mul den (Z.pow (Zpos (XO XH)) e))),
         (Z.modulo num0 (Z.mul den (Z.pow (Zpos (XO XH)) e))))
       in
       let d = Z.mul den (Z.pow (Zpos (XO XH)) e) in
       let (q, r0) = p in
       let q' =
         if Z.ltb d (Z.mul (Zpos (XO XH)) r0)
         then Z.add q (Zpos XH)
         else if (&&) (Z.eqb d (Z.mul (Zpos (XO XH)) r0)) (Z.odd q)
              then Z.add q (Zpos XH)
              else q
       in
       if Z.eqb q' Z0
       then Some (Z0, Z0)
       else if Z.leb (Zpos (XO (XO (XO (XO (XO (XO (XO (XO (XO (XO
                 XH))))))))))) (Z.add (Z.log2 q') e)
            then None
            else Some
                   (strip_twos (S (S (S (S (S (S (S (S (S (S (S (S (S (S (S
                     (S (S (S (S (S (S (S (S (S (S (S (S (S (S (S (S (S (S (S
                     (S (S (S (S (S (S (S (S (S (S (S (S (S (S (S (S (S (S (S
                     (S (S (S (S (S (S (S (S (S (S (S
                     O))))))))))))))))))))))))))))))))))))))))))))))))))))))))))))))))
                     q' e)
  else let p = ((Z.div (Z.mul num0 (Z.pow (Zpos (XO XH)) (Z.opp e))) den),
         (Z.modulo (Z.mul num0 (Z.pow (Zpos (XO XH)) (Z.opp e))) den))
       in
       let (q, r0) = p in
       let q' =
         if Z.ltb den (Z.mul (Zpos (XO XH)) r0)
         then Z.add q (Zpos XH)
         else if (&&) (Z.eqb den (Z.mul (Zpos (XO XH)) r0)) (Z.odd q)
              then Z.add q (Zpos XH)
              else q
       in
       if Z.eqb q' Z0
       then Some (Z0, Z0)
       else if Z.leb (Zpos (XO (XO (XO (XO (XO (XO (XO (XO (XO (XO
                 XH))))))))))) (Z.add (Z.log2 q') e)
            then None
            else Some
                   (strip_twos (S (S (S (S (S (S (S (S (S (S (S (S (S (S (S
                     (S (S (S (S (S (S (S (S (S (S (S (S (S (S (S (S (S (S (S
                     (S (S (S (S (S (S (S (S (S (S (S (S (S (S (S (S (S (S (S
                     (S (S (S (S (S (S (S (S (S (S (S
                     O))))))))))))))))))))))))))))))))))))))))))))))))))))))))))))))))
                     q' e)

(** val float_of_decimal : decimal -> num **)

let float_of_decimal d =
  if Z.eqb d.d_mant Z0
  then if d.d_neg then NNegZero else NFlt (Z0, Z0)
  else if Z.ltb (Zpos (XO (XO (XO (XO (XI (XO (XO (XI XH)))))))))
            (Z.add d.d_exp10 d.d_ndig)
       then NInf d.d_neg
       else if Z.ltb (Z.add d.d_exp10 d.d_ndig) (Zneg (XO (XO (XO (XO (XI (XO
                 (XO (XI XH)))))))))
            then if d.d_neg then NNegZero else NFlt (Z0, Z0)
            else let r0 =
                   if Z.leb Z0 d.d_exp10
                   then round_ratio
                          (Z.mul d.d_mant
                            (Z.pow (Zpos (XO (XI (XO XH)))) d.d_exp10)) (Zpos
                          XH)
                   else round_ratio d.d_mant
                          (Z.pow (Zpos (XO (XI (XO XH)))) (Z.opp d.d_exp10))
                 in
                 (match r0 with
                  | Some p ->
                    let (m, e) = p in
                    (match m with
                     | Z0 -> if d.d_neg then NNegZero else NFlt (Z0, Z0)
                     | _ -> NFlt ((if d.d_neg then Z.opp m else m), e))
                  | None -> NInf d.d_neg)

(** val py_float : str -> num option **)

let py_float s =
  match parse_decimal s with
  | Some d -> Some (float_of_decimal d)
  | None -> None

(** val py_int_of_float : num -> z option **)

let py_int_of_float = function
| NInt z0 -> Some z0
| NFlt (m, e) ->
  Some
    (if Z.leb Z0 e
     then Z.mul m (Z.pow (Zpos (XO XH)) e)
     else Z.quot m (Z.pow (Zpos (XO XH)) (Z.opp e)))
| NNegZero -> Some Z0
| NInf _ -> None

type 'a pres =
| POk of 'a * stream
| PErr of jperr * z
| PCrash of pyexn * stream
| PFuel

(** val pbind : 'a1 pres -> ('a1 -> stream -> 'a2 pres) -> 'a2 pres **)

let pbind r0 f =
  match r0 with
  | POk (a, s) -> f a s
  | PErr (c0, o) -> PErr (c0, o)
  | PCrash (x, s) -> PCrash (x, s)
  | PFuel -> PFuel

(** val cty : stream -> ttype **)

let cty s =
  s.cur.ty

(** val is_ty : ttype -> stream -> bool **)

let is_ty t s =
  ttype_eqb (cty s) t

(** val peek_ty : stream -> ttype **)

let peek_ty s =
  (fst (s_peek s)).ty

(** val err_cur : jperr -> stream -> 'a1 pres **)

let err_cur c0 s =
  PErr (c0, s.cur.tidx)

(** val err_peek : jperr -> stream -> 'a1 pres **)

let err_peek c0 s =
  PErr (c0, (fst (s_peek s)).tidx)

(** val adv : stream -> stream **)

let adv s =
  snd (s_next s)

(** val after_peek : stream -> stream **)

let after_peek s =
  snd (s_peek s)

(** val pRECEDENCE_LOWEST : z **)

let pRECEDENCE_LOWEST =
  Zpos XH

(** val pRECEDENCE_PREFIX : z **)

let pRECEDENCE_PREFIX =
  Zpos (XI (XI XH))

(** val precedence_of : ttype -> z **)

let precedence_of = function
| T_AND -> Zpos (XO (XO XH))
| T_EQ -> Zpos (XI (XO XH))
| T_GE -> Zpos (XI (XO XH))
| T_GT -> Zpos (XI (XO XH))
| T_LE -> Zpos (XI (XO XH))
| T_LT -> Zpos (XI (XO XH))
| T_NE -> Zpos (XI (XO XH))
| T_NOT -> Zpos (XI (XI XH))
| T_OR -> Zpos (XI XH)
| _ -> Zpos XH

type binop =
| BAnd
| BOr
| BCmp of cmpop

(** val binary_operator : ttype -> binop option **)

let binary_operator = function
| T_AND -> Some BAnd
| T_EQ -> Some (BCmp OEq)
| T_GE -> Some (BCmp OGe)
| T_GT -> Some (BCmp OGt)
| T_LE -> Some (BCmp OLe)
| T_LT -> Some (BCmp OLt)
| T_NE -> Some (BCmp ONe)
| T_OR -> Some BOr
| _ -> None

(** val is_comparison_tok : ttype -> bool **)

let is_comparison_tok t =
  match binary_operator t with
  | Some b -> (match b with
               | BCmp _ -> true
               | _ -> false)
  | None -> false

(** val in_token_map : ttype -> bool **)

let in_token_map = function
| T_ROOT -> true
| T_CURRENT -> true
| T_DQ_STRING -> true
| T_FALSE -> true
| T_FLOAT -> true
| T_FUNCTION -> true
| T_INT -> true
| T_LPAREN -> true
| T_NOT -> true
| T_NULL -> true
| T_SQ_STRING -> true
| T_TRUE -> true
| _ -> false

(** val in_function_argument_map : ttype -> bool **)

let in_function_argument_map =
  in_token_map

(** val is_literal : expr -> bool **)

let is_literal = function
| ELit _ -> true
| _ -> false

(** val is_filter_query : expr -> bool **)

let is_filter_query = function
| ERel _ -> true
| EAbs _ -> true
| _ -> false

(** val is_compound : expr -> bool **)

let is_compound = function
| ELit _ -> false
| ERel _ -> false
| EAbs _ -> false
| ECall (_, _) -> false
| _ -> true

(** val m_singular : seg list -> bool **)

let m_singular q =
  forallb (fun sg ->
    match sg with
    | Child ss ->
      (match ss with
       | [] -> false
       | s :: l ->
         (match s with
          | SName _ -> (match l with
                        | [] -> true
                        | _ :: _ -> false)
          | SIndex _ -> (match l with
                         | [] -> true
                         | _ :: _ -> false)
          | _ -> false))
    | Desc _ -> false) q

(** val query_of : expr -> seg list **)

let query_of = function
| ERel q -> q
| EAbs q -> q
| _ -> []

(** val function_return_type : registry -> expr -> ty3 option **)

let function_return_type rg = function
| ECall (f, _) ->
  (match find_assoc f rg with
   | Some d -> Some d.f_ret
   | None -> None)
| _ -> None

(** val opt_ty_is : ty3 option -> ty3 -> bool **)

let opt_ty_is o t =
  match o with
  | Some t' -> ty3_eqb t t'
  | None -> false

(** val replace_dq : str -> str **)

let rec replace_dq = function
| [] -> []
| c0 :: s' ->
  if N.eqb c0 (Npos (XO (XI (XO (XO (XO XH))))))
  then (Npos (XO (XO (XI (XI (XI (XO XH))))))) :: ((Npos (XO (XI (XO (XO (XO
         XH)))))) :: (replace_dq s'))
  else c0 :: (replace_dq s')

(** val replace_esc_sq : str -> str **)

let rec replace_esc_sq = function
| [] -> []
| c0 :: s' ->
  (match s' with
   | [] -> c0 :: []
   | d :: s'' ->
     if (&&) (N.eqb c0 (Npos (XO (XO (XI (XI (XI (XO XH))))))))
          (N.eqb d (Npos (XI (XI (XI (XO (XO XH)))))))
     then (Npos (XI (XI (XI (XO (XO XH)))))) :: (replace_esc_sq s'')
     else c0 :: (replace_esc_sq s'))

(** val hex_val : n -> z option **)

let hex_val c0 =
  if (&&) (N.leb (Npos (XO (XO (XO (XO (XI XH)))))) c0)
       (N.leb c0 (Npos (XI (XO (XO (XI (XI XH)))))))
  then Some (Z.sub (Z.of_N c0) (Zpos (XO (XO (XO (XO (XI XH)))))))
  else if (&&) (N.leb (Npos (XI (XO (XO (XO (XO (XO XH))))))) c0)
            (N.leb c0 (Npos (XO (XI (XI (XO (XO (XO XH))))))))
       then Some
              (Z.add
                (Z.sub (Z.of_N c0) (Zpos (XI (XO (XO (XO (XO (XO XH))))))))
                (Zpos (XO (XI (XO XH)))))
       else if (&&) (N.leb (Npos (XI (XO (XO (XO (XO (XI XH))))))) c0)
                 (N.leb c0 (Npos (XO (XI (XI (XO (XO (XI XH))))))))
            then Some
                   (Z.add
                     (Z.sub (Z.of_N c0) (Zpos (XI (XO (XO (XO (XO (XI
                       XH)))))))) (Zpos (XO (XI (XO XH)))))
            else None

(** val parse_hex4 : str -> z -> z option **)

let parse_hex4 v i =
  match znth v i with
  | Some a ->
    (match znth v (Z.add i (Zpos XH)) with
     | Some b ->
       (match znth v (Z.add i (Zpos (XO XH))) with
        | Some c0 ->
          (match znth v (Z.add i (Zpos (XI XH))) with
           | Some d ->
             (match hex_val a with
              | Some a' ->
                (match hex_val b with
                 | Some b' ->
                   (match hex_val c0 with
                    | Some c' ->
                      (match hex_val d with
                       | Some d' ->
                         Some
                           (Z.add
                             (Z.mul
                               (Z.add
                                 (Z.mul
                                   (Z.add
                                     (Z.mul a' (Zpos (XO (XO (XO (XO XH))))))
                                     b') (Zpos (XO (XO (XO (XO XH)))))) c')
                               (Zpos (XO (XO (XO (XO XH)))))) d')
                       | None -> None)
                    | None -> None)
                 | None -> None)
              | None -> None)
           | None -> None)
        | None -> None)
     | None -> None)
  | None -> None

(** val is_high_surrogate : z -> bool **)

let is_high_surrogate c0 =
  (&&)
    (Z.leb (Zpos (XO (XO (XO (XO (XO (XO (XO (XO (XO (XO (XO (XI (XI (XO (XI
      XH)))))))))))))))) c0)
    (Z.leb c0 (Zpos (XI (XI (XI (XI (XI (XI (XI (XI (XI (XI (XO (XI (XI (XO
      (XI XH)))))))))))))))))

(** val is_low_surrogate : z -> bool **)

let is_low_surrogate c0 =
  (&&)
    (Z.leb (Zpos (XO (XO (XO (XO (XO (XO (XO (XO (XO (XO (XI (XI (XI (XO (XI
      XH)))))))))))))))) c0)
    (Z.leb c0 (Zpos (XI (XI (XI (XI (XI (XI (XI (XI (XI (XI (XI (XI (XI (XO
      (XI XH)))))))))))))))))

type dres =
| DOk of z * z
| DSyntax
| DIndexError

(** val ceq_z : n option -> n -> bool **)

let ceq_z o c0 =
  match o with
  | Some d -> N.eqb d c0
  | None -> false

(** val decode_hex_char : str -> z -> dres **)

let decode_hex_char v index =
  let length0 = zlen v in
  if Z.leb length0 (Z.add index (Zpos (XO (XO XH))))
  then DSyntax
  else let index0 = Z.add index (Zpos XH) in
       (match parse_hex4 v index0 with
        | Some cp ->
          if is_low_surrogate cp
          then DSyntax
          else if is_high_surrogate cp
               then if (&&)
                         ((&&)
                           (Z.ltb (Z.add index0 (Zpos (XI (XO (XO XH)))))
                             length0)
                           (ceq_z (znth v (Z.add index0 (Zpos (XO (XO XH)))))
                             (Npos (XO (XO (XI (XI (XI (XO XH)))))))))
                         (ceq_z (znth v (Z.add index0 (Zpos (XI (XO XH)))))
                           (Npos (XI (XO (XI (XO (XI (XI XH))))))))
                    then (match parse_hex4 v
                                  (Z.add index0 (Zpos (XO (XI XH)))) with
                          | Some low ->
                            if is_low_surrogate low
                            then DOk
                                   ((Z.add (Zpos (XO (XO (XO (XO (XO (XO (XO
                                      (XO (XO (XO (XO (XO (XO (XO (XO (XO
                                      XH)))))))))))))))))
                                      (Z.coq_lor
                                        (Z.shiftl
                                          (Z.coq_land cp (Zpos (XI (XI (XI
                                            (XI (XI (XI (XI (XI (XI
                                            XH))))))))))) (Zpos (XO (XI (XO
                                          XH)))))
                                        (Z.coq_land low (Zpos (XI (XI (XI (XI
                                          (XI (XI (XI (XI (XI XH))))))))))))),
                                   (Z.add index0 (Zpos (XI (XO (XO XH))))))
                            else DSyntax
                          | None -> DSyntax)
                    else DSyntax
               else DOk (cp, (Z.add index0 (Zpos (XI XH))))
        | None -> DSyntax)

(** val decode_escape : str -> z -> dres **)

let decode_escape v index =
  match znth v index with
  | Some ch ->
    if N.eqb ch (Npos (XO (XI (XO (XO (XO XH))))))
    then DOk ((Zpos (XO (XI (XO (XO (XO XH)))))), index)
    else if N.eqb ch (Npos (XO (XO (XI (XI (XI (XO XH)))))))
         then DOk ((Zpos (XO (XO (XI (XI (XI (XO XH))))))), index)
         else if N.eqb ch (Npos (XI (XI (XI (XI (XO XH))))))
              then DOk ((Zpos (XI (XI (XI (XI (XO XH)))))), index)
              else if N.eqb ch (Npos (XO (XI (XO (XO (XO (XI XH)))))))
                   then DOk ((Zpos (XO (XO (XO XH)))), index)
                   else if N.eqb ch (Npos (XO (XI (XI (XO (XO (XI XH)))))))
                        then DOk ((Zpos (XO (XO (XI XH)))), index)
                        else if N.eqb ch (Npos (XO (XI (XI (XI (XO (XI
                                  XH)))))))
                             then DOk ((Zpos (XO (XI (XO XH)))), index)
                             else if N.eqb ch (Npos (XO (XI (XO (XO (XI (XI
                                       XH)))))))
                                  then DOk ((Zpos (XI (XO (XI XH)))), index)
                                  else if N.eqb ch (Npos (XO (XO (XI (XO (XI
                                            (XI XH)))))))
                                       then DOk ((Zpos (XI (XO (XO XH)))),
                                              index)
                                       else if N.eqb ch (Npos (XI (XO (XI (XO
                                                 (XI (XI XH)))))))
                                            then decode_hex_char v index
                                            else DSyntax
  | None -> DIndexError

(** val unescape_loop : nat -> str -> z -> n list -> str option option **)

let rec unescape_loop fuel v index acc =
  match fuel with
  | O -> None
  | S f ->
    if Z.leb (zlen v) index
    then Some (Some (rev acc))
    else (match znth v index with
          | Some ch ->
            if N.eqb ch (Npos (XO (XO (XI (XI (XI (XO XH)))))))
            then (match decode_escape v (Z.add index (Zpos XH)) with
                  | DOk (cp, i') ->
                    unescape_loop f v (Z.add i' (Zpos XH))
                      ((Z.to_N cp) :: acc)
                  | DSyntax -> Some None
                  | DIndexError -> None)
            else if N.leb ch (Npos (XI (XI (XI (XI XH)))))
                 then Some None
                 else unescape_loop f v (Z.add index (Zpos XH)) (ch :: acc)
          | None -> None)

(** val decode_string_literal : token -> str result **)

let decode_string_literal t =
  let v =
    if ttype_eqb t.ty T_SQ_STRING
    then replace_esc_sq (replace_dq t.tval)
    else t.tval
  in
  (match unescape_loop (S (length v)) v Z0 [] with
   | Some o ->
     (match o with
      | Some s -> Ok s
      | None -> Err (ESyntax, (Some t.tidx)))
   | None -> Crash XIndexError)

(** val starts_with : str -> str -> bool **)

let rec starts_with p s =
  match p with
  | [] -> true
  | c0 :: p' ->
    (match s with
     | [] -> false
     | d :: s' -> (&&) (N.eqb c0 d) (starts_with p' s'))

(** val int_of_index : str -> z **)

let int_of_index v = match v with
| [] -> digits_val v
| n0 :: r0 ->
  (match n0 with
   | N0 -> digits_val v
   | Npos p ->
     (match p with
      | XI p0 ->
        (match p0 with
         | XO p1 ->
           (match p1 with
            | XI p2 ->
              (match p2 with
               | XI p3 ->
                 (match p3 with
                  | XO p4 ->
                    (match p4 with
                     | XH -> Z.opp (digits_val r0)
                     | _ -> digits_val v)
                  | _ -> digits_val v)
               | _ -> digits_val v)
            | _ -> digits_val v)
         | _ -> digits_val v)
      | _ -> digits_val v))

(** val lstrip_minus : str -> str **)

let rec lstrip_minus s = match s with
| [] -> s
| n0 :: r0 ->
  (match n0 with
   | N0 -> s
   | Npos p ->
     (match p with
      | XI p0 ->
        (match p0 with
         | XO p1 ->
           (match p1 with
            | XI p2 ->
              (match p2 with
               | XI p3 ->
                 (match p3 with
                  | XO p4 -> (match p4 with
                              | XH -> lstrip_minus r0
                              | _ -> s)
                  | _ -> s)
               | _ -> s)
            | _ -> s)
         | _ -> s)
      | _ -> s))

(** val take_until : (n -> bool) -> str -> str **)

let rec take_until stop = function
| [] -> []
| c0 :: r0 -> if stop c0 then [] else c0 :: (take_until stop r0)

(** val has_leading_zero : str -> bool **)

let has_leading_zero v =
  let d =
    take_until (fun c0 -> N.eqb c0 (Npos (XO (XI (XI (XI (XO XH)))))))
      (take_until (fun c0 ->
        (||) (N.eqb c0 (Npos (XI (XO (XI (XO (XO (XI XH))))))))
          (N.eqb c0 (Npos (XI (XO (XI (XO (XO (XO XH)))))))))
        (lstrip_minus v))
  in
  (&&) (Z.ltb (Zpos XH) (zlen d))
    (starts_with ((Npos (XO (XO (XO (XO (XI XH)))))) :: []) d)

(** val in_range : envcfg -> z -> bool **)

let in_range cfg i =
  (&&) (Z.leb cfg.min_idx i) (Z.leb i cfg.max_idx)

(** val p_literal : stream -> (expr * z) pres **)

let p_literal s =
  let t = s.cur in
  let ok = fun v -> POk (((ELit v), t.tidx), s) in
  (match t.ty with
   | T_DQ_STRING ->
     (match decode_string_literal t with
      | Ok str0 -> ok (JStr str0)
      | Err (c0, _) -> PErr (c0, t.tidx)
      | Crash x -> PCrash (x, s)
      | OutOfFuel -> PFuel)
   | T_FALSE -> ok (JBool false)
   | T_FLOAT ->
     if has_leading_zero t.tval
     then err_cur ESyntax s
     else (match py_float t.tval with
           | Some x -> ok (JNum x)
           | None -> err_cur ESyntax s)
   | T_INT ->
     if has_leading_zero t.tval
     then err_cur ESyntax s
     else (match py_float t.tval with
           | Some x ->
             (match py_int_of_float x with
              | Some z0 -> ok (JNum (NInt z0))
              | None -> ok (JNum x))
           | None -> err_cur ESyntax s)
   | T_NULL -> ok JNull
   | T_SQ_STRING ->
     (match decode_string_literal t with
      | Ok str0 -> ok (JStr str0)
      | Err (c0, _) -> PErr (c0, t.tidx)
      | Crash x -> PCrash (x, s)
      | OutOfFuel -> PFuel)
   | T_TRUE -> ok (JBool true)
   | _ -> PCrash (XKeyError, s))

(** val maybe_index : stream -> bool pres **)

let maybe_index s =
  if is_ty T_INDEX s
  then let v = s.cur.tval in
       if (&&) (Z.ltb (Zpos XH) (zlen v))
            ((||) (starts_with ((Npos (XO (XO (XO (XO (XI XH)))))) :: []) v)
              (starts_with ((Npos (XI (XO (XI (XI (XO XH)))))) :: ((Npos (XO
                (XO (XO (XO (XI XH)))))) :: [])) v))
       then err_cur ESyntax s
       else POk (true, s)
  else POk (false, s)

(** val p_slice : envcfg -> stream -> sel pres **)

let p_slice cfg s0 =
  let tok = s0.cur in
  pbind (maybe_index s0) (fun b1 s ->
    if b1
    then let start = Some (int_of_index s.cur.tval) in
         let s1 = adv s in
         if negb (is_ty T_COLON s1)
         then err_cur ESyntax s1
         else let s2 = adv s1 in
              pbind (maybe_index s2) (fun b2 s3 ->
                let (p, s4) =
                  if b2
                  then let v = int_of_index s3.cur.tval in
                       let s4 = adv s3 in
                       if is_ty T_COLON s4
                       then (((Some v), true), (adv s4))
                       else (((Some v), false), s4)
                  else if is_ty T_COLON s3
                       then ((None, true), (adv s3))
                       else ((None, false), s3)
                in
                let (stop, second) = p in
                pbind (if second then maybe_index s4 else POk (false, s4))
                  (fun b3 s5 ->
                  if b3
                  then let step = Some (int_of_index s5.cur.tval) in
                       let s6 = adv s5 in
                       let s7 = s_push s6 s6.cur in
                       let okr = fun o ->
                         match o with
                         | Some i -> in_range cfg i
                         | None -> true
                       in
                       if (&&) ((&&) (okr start) (okr stop)) (okr step)
                       then POk ((SSlice (start, stop, step)), s7)
                       else PErr (EIndex, tok.tidx)
                  else let step = None in
                       let s6 = s_push s5 s5.cur in
                       let okr = fun o ->
                         match o with
                         | Some i -> in_range cfg i
                         | None -> true
                       in
                       if (&&) ((&&) (okr start) (okr stop)) (okr step)
                       then POk ((SSlice (start, stop, step)), s6)
                       else PErr (EIndex, tok.tidx)))
    else let start = None in
         if negb (is_ty T_COLON s)
         then err_cur ESyntax s
         else let s1 = adv s in
              pbind (maybe_index s1) (fun b2 s2 ->
                let (p, s3) =
                  if b2
                  then let v = int_of_index s2.cur.tval in
                       let s3 = adv s2 in
                       if is_ty T_COLON s3
                       then (((Some v), true), (adv s3))
                       else (((Some v), false), s3)
                  else if is_ty T_COLON s2
                       then ((None, true), (adv s2))
                       else ((None, false), s2)
                in
                let (stop, second) = p in
                pbind (if second then maybe_index s3 else POk (false, s3))
                  (fun b3 s4 ->
                  if b3
                  then let step = Some (int_of_index s4.cur.tval) in
                       let s5 = adv s4 in
                       let s6 = s_push s5 s5.cur in
                       let okr = fun o ->
                         match o with
                         | Some i -> in_range cfg i
                         | None -> true
                       in
                       if (&&) ((&&) (okr start) (okr stop)) (okr step)
                       then POk ((SSlice (start, stop, step)), s6)
                       else PErr (EIndex, tok.tidx)
                  else let step = None in
                       let s5 = s_push s4 s4.cur in
                       let okr = fun o ->
                         match o with
                         | Some i -> in_range cfg i
                         | None -> true
                       in
                       if (&&) ((&&) (okr start) (okr stop)) (okr step)
                       then POk ((SSlice (start, stop, step)), s5)
                       else PErr (EIndex, tok.tidx))))

(** val value_function : envcfg -> expr -> bool **)

let value_function cfg e =
  opt_ty_is (function_return_type cfg.reg e) TValue

(** val non_comparable : envcfg -> expr -> jperr option **)

let non_comparable cfg e =
  if is_compound e
  then Some ESyntax
  else if (&&) (is_filter_query e) (negb (m_singular (query_of e)))
       then Some EType
       else (match e with
             | ECall (_, _) ->
               (match function_return_type cfg.reg e with
                | Some t -> (match t with
                             | TValue -> None
                             | _ -> Some EType)
                | None -> None)
             | _ -> None)

(** val check_args : envcfg -> ty3 list -> expr list -> bool **)

let rec check_args cfg tys args =
  match tys with
  | [] -> true
  | t :: tys' ->
    (match args with
     | [] -> false
     | a :: args' ->
       (&&)
         (match t with
          | TValue ->
            (||)
              ((||) (is_literal a)
                ((&&) (is_filter_query a) (m_singular (query_of a))))
              (opt_ty_is (function_return_type cfg.reg a) TValue)
          | TLogical ->
            (||)
              ((||) ((||) (is_filter_query a) (is_compound a))
                (opt_ty_is (function_return_type cfg.reg a) TLogical))
              (opt_ty_is (function_return_type cfg.reg a) TNodes)
          | TNodes ->
            (||) (is_filter_query a)
              (opt_ty_is (function_return_type cfg.reg a) TNodes))
         (check_args cfg tys' args'))

(** val p_query : envcfg -> nat -> bool -> stream -> seg list pres **)

let p_query cfg =
  let rec p_query0 fuel in_filter s =
    match fuel with
    | O -> PFuel
    | S f ->
      if is_ty T_DOUBLE_DOT s
      then pbind (p_selectors f (adv s)) (fun ss s0 ->
             pbind (p_query0 f in_filter (adv s0)) (fun q s1 -> POk (((Desc
               ss) :: q), s1)))
      else if (||) ((||) (is_ty T_LBRACKET s) (is_ty T_PROPERTY s))
                (is_ty T_WILD s)
           then pbind (p_selectors f s) (fun ss s0 ->
                  pbind (p_query0 f in_filter (adv s0)) (fun q s1 -> POk
                    (((Child ss) :: q), s1)))
           else POk ([], (if in_filter then s_push s s.cur else s))
  and p_selectors fuel s =
    match fuel with
    | O -> PFuel
    | S f ->
      (match cty s with
       | T_LBRACKET ->
         let tok = s.cur in
         pbind (p_bracket_loop f (adv s)) (fun ss s0 ->
           match ss with
           | [] -> PErr (ESyntax, tok.tidx)
           | _ :: _ -> POk (ss, s0))
       | T_PROPERTY -> POk (((SName s.cur.tval) :: []), s)
       | T_WILD -> POk ((SWild :: []), s)
       | _ -> POk ([], s))
  and p_bracket_loop fuel s =
    match fuel with
    | O -> PFuel
    | S f ->
      if is_ty T_RBRACKET s
      then POk ([], s)
      else pbind
             (match cty s with
              | T_COLON -> p_slice cfg s
              | T_FILTER -> p_filter_selector f s
              | T_INDEX ->
                if ttype_eqb (peek_ty s) T_COLON
                then p_slice cfg (after_peek s)
                else let s0 = after_peek s in
                     let v = s0.cur.tval in
                     if (||)
                          ((&&) (Z.ltb (Zpos XH) (zlen v))
                            (starts_with ((Npos (XO (XO (XO (XO (XI
                              XH)))))) :: []) v))
                          (starts_with ((Npos (XI (XO (XI (XI (XO
                            XH)))))) :: ((Npos (XO (XO (XO (XO (XI
                            XH)))))) :: [])) v)
                     then err_cur ESyntax s0
                     else if in_range cfg (int_of_index v)
                          then POk ((SIndex (int_of_index v)), s0)
                          else err_cur EIndex s0
              | T_WILD -> POk (SWild, s)
              | T_DQ_STRING ->
                (match decode_string_literal s.cur with
                 | Ok nm -> POk ((SName nm), s)
                 | Err (c0, _) -> err_cur c0 s
                 | Crash x -> PCrash (x, s)
                 | OutOfFuel -> PFuel)
              | T_SQ_STRING ->
                (match decode_string_literal s.cur with
                 | Ok nm -> POk ((SName nm), s)
                 | Err (c0, _) -> err_cur c0 s
                 | Crash x -> PCrash (x, s)
                 | OutOfFuel -> PFuel)
              | _ -> err_cur ESyntax s) (fun x s0 ->
             if ttype_eqb (peek_ty s0) T_EOF
             then PErr (ESyntax, (after_peek s0).cur.tidx)
             else let s1 = after_peek s0 in
                  pbind
                    (if negb (ttype_eqb (peek_ty s1) T_RBRACKET)
                     then if negb (ttype_eqb (peek_ty s1) T_COMMA)
                          then err_peek ESyntax s1
                          else let s2 = adv (after_peek (after_peek s1)) in
                               if ttype_eqb (peek_ty s2) T_RBRACKET
                               then err_peek ESyntax s2
                               else POk ((), (after_peek s2))
                     else POk ((), (after_peek s1))) (fun _ s2 ->
                    pbind (p_bracket_loop f (adv s2)) (fun xs s3 -> POk
                      ((x :: xs), s3))))
  and p_filter_selector fuel s =
    match fuel with
    | O -> PFuel
    | S f ->
      let tok = s.cur in
      pbind (p_fexpr f pRECEDENCE_LOWEST (adv s)) (fun et s0 ->
        let (e, etok) = et in
        if value_function cfg e
        then PErr (EType, tok.tidx)
        else if is_literal e
             then PErr (ESyntax, etok)
             else POk ((SFilter e), s0))
  and p_fexpr fuel prec s =
    match fuel with
    | O -> PFuel
    | S f ->
      if negb (in_token_map (cty s))
      then err_cur ESyntax s
      else (match p_primary f s with
            | POk (lhs, s0) -> p_fexpr_loop f prec lhs s0
            | PErr (c0, off) -> PErr (c0, off)
            | PCrash (x, s') ->
              (match x with
               | XKeyError -> err_cur ESyntax s'
               | x0 -> PCrash (x0, s'))
            | PFuel -> PFuel)
  and p_fexpr_loop fuel prec lhs s =
    match fuel with
    | O -> PFuel
    | S f ->
      let pk = peek_ty s in
      let s0 = after_peek s in
      if (||) ((||) (ttype_eqb pk T_EOF) (ttype_eqb pk T_RBRACKET))
           (Z.ltb (precedence_of pk) prec)
      then POk (lhs, s0)
      else (match binary_operator pk with
            | Some _ ->
              pbind (p_infix f lhs (adv s0)) (fun lhs' s1 ->
                p_fexpr_loop f prec lhs' s1)
            | None -> POk (lhs, s0))
  and p_primary fuel s =
    match fuel with
    | O -> PFuel
    | S f ->
      (match cty s with
       | T_ROOT ->
         let root = s.cur in
         pbind (p_query0 f true (adv s)) (fun q s0 -> POk (((EAbs q),
           root.tidx), s0))
       | T_CURRENT ->
         let tok = s.cur in
         pbind (p_query0 f true (adv s)) (fun q s0 -> POk (((ERel q),
           tok.tidx), s0))
       | T_FUNCTION -> p_function f s
       | T_LPAREN -> p_grouped f s
       | T_NOT -> p_prefix f s
       | _ -> p_literal s)
  and p_infix fuel lhs s =
    match fuel with
    | O -> PFuel
    | S f ->
      let tok = s.cur in
      let s0 = adv s in
      let right_is_grouped = is_ty T_LPAREN s0 in
      pbind (p_fexpr f (precedence_of tok.ty) s0) (fun rhs s1 ->
        match binary_operator tok.ty with
        | Some b ->
          (match b with
           | BCmp o ->
             if right_is_grouped
             then PErr (ESyntax, (snd rhs))
             else (match non_comparable cfg (fst lhs) with
                   | Some c0 -> PErr (c0, tok.tidx)
                   | None ->
                     (match non_comparable cfg (fst rhs) with
                      | Some c0 -> PErr (c0, tok.tidx)
                      | None ->
                        POk (((ECmp (o, (fst lhs), (fst rhs))), tok.tidx), s1)))
           | _ ->
             if is_literal (fst lhs)
             then PErr (ESyntax, (snd lhs))
             else if is_literal (fst rhs)
                  then PErr (ESyntax, (snd rhs))
                  else if value_function cfg (fst lhs)
                       then PErr (EType, (snd lhs))
                       else if value_function cfg (fst rhs)
                            then PErr (EType, (snd rhs))
                            else POk
                                   (((match b with
                                      | BAnd -> EAnd ((fst lhs), (fst rhs))
                                      | _ -> EOr ((fst lhs), (fst rhs))),
                                   tok.tidx), s1))
        | None -> PCrash (XKeyError, s1))
  and p_grouped fuel s =
    match fuel with
    | O -> PFuel
    | S f ->
      pbind (p_fexpr f pRECEDENCE_LOWEST (adv s)) (fun e s0 ->
        pbind (p_grouped_loop f e (adv s0)) (fun e0 s1 ->
          if negb (is_ty T_RPAREN s1)
          then err_cur ESyntax s1
          else if is_comparison_tok (peek_ty s1)
               then err_peek ESyntax s1
               else POk (e0, (after_peek s1))))
  and p_grouped_loop fuel e s =
    match fuel with
    | O -> PFuel
    | S f ->
      if is_ty T_RPAREN s
      then POk (e, s)
      else if is_ty T_EOF s
           then err_cur ESyntax s
           else pbind (p_infix f e s) (fun e' s0 -> p_grouped_loop f e' s0)
  and p_prefix fuel s =
    match fuel with
    | O -> PFuel
    | S f ->
      let tok = s.cur in
      let s0 = adv s in
      (match cty s0 with
       | T_ROOT ->
         pbind (p_fexpr f pRECEDENCE_PREFIX s0) (fun rhs s1 ->
           if value_function cfg (fst rhs)
           then PErr (EType, (snd rhs))
           else POk (((ENot (fst rhs)), tok.tidx), s1))
       | T_CURRENT ->
         pbind (p_fexpr f pRECEDENCE_PREFIX s0) (fun rhs s1 ->
           if value_function cfg (fst rhs)
           then PErr (EType, (snd rhs))
           else POk (((ENot (fst rhs)), tok.tidx), s1))
       | T_FUNCTION ->
         pbind (p_fexpr f pRECEDENCE_PREFIX s0) (fun rhs s1 ->
           if value_function cfg (fst rhs)
           then PErr (EType, (snd rhs))
           else POk (((ENot (fst rhs)), tok.tidx), s1))
       | T_LPAREN ->
         pbind (p_fexpr f pRECEDENCE_PREFIX s0) (fun rhs s1 ->
           if value_function cfg (fst rhs)
           then PErr (EType, (snd rhs))
           else POk (((ENot (fst rhs)), tok.tidx), s1))
       | _ -> err_cur ESyntax s0)
  and p_function fuel s =
    match fuel with
    | O -> PFuel
    | S f ->
      let tok = s.cur in
      pbind (p_args_loop f (adv s)) (fun args s0 ->
        match find_assoc tok.tval cfg.reg with
        | Some d ->
          if negb (Nat.eqb (length args) (length d.f_args))
          then PErr (EType, tok.tidx)
          else if check_args cfg d.f_args args
               then POk (((ECall (tok.tval, args)), tok.tidx), s0)
               else PErr (EType, tok.tidx)
        | None -> PErr (EName, tok.tidx))
  and p_args_loop fuel s =
    match fuel with
    | O -> PFuel
    | S f ->
      if is_ty T_RPAREN s
      then POk ([], s)
      else if negb (in_function_argument_map (cty s))
           then err_cur ESyntax s
           else pbind (p_primary f s) (fun e s0 ->
                  pbind (p_arg_infix_loop f e s0) (fun e0 s1 ->
                    pbind
                      (if negb (ttype_eqb (peek_ty s1) T_RPAREN)
                       then if negb (ttype_eqb (peek_ty s1) T_COMMA)
                            then err_peek ESyntax s1
                            else let s2 = adv (after_peek (after_peek s1)) in
                                 if ttype_eqb (peek_ty s2) T_RPAREN
                                 then err_peek ESyntax s2
                                 else POk ((), (after_peek s2))
                       else POk ((), (after_peek s1))) (fun _ s2 ->
                      pbind (p_args_loop f (adv s2)) (fun es s3 -> POk
                        (((fst e0) :: es), s3)))))
  and p_arg_infix_loop fuel e s =
    match fuel with
    | O -> PFuel
    | S f ->
      (match binary_operator (peek_ty s) with
       | Some _ ->
         pbind (p_infix f e (adv (after_peek s))) (fun e' s0 ->
           p_arg_infix_loop f e' s0)
       | None -> POk (e, (after_peek s)))
  in p_query0

(** val parse_fuel : token list -> nat **)

let parse_fuel toks =
  add (mul (S (S (S (S (S (S O)))))) (length toks)) (S (S (S (S (S (S (S (S
    (S (S (S (S (S (S (S (S O))))))))))))))))

(** val p_parse : envcfg -> token list -> query pres **)

let p_parse cfg toks =
  let s = stream_init toks in
  if negb (is_ty T_ROOT s)
  then err_cur ESyntax s
  else pbind (p_query cfg (parse_fuel toks) false (adv s)) (fun q s0 ->
         if negb (is_ty T_EOF s0) then err_cur ESyntax s0 else POk (q, s0))

(** val m_compile : envcfg -> str -> query result **)

let m_compile cfg text =
  bind (m_tokenize text) (fun toks ->
    match p_parse cfg toks with
    | POk (q, _) -> Ok q
    | PErr (c0, off) -> Err (c0, (Some off))
    | PCrash (x, _) -> Crash x
    | PFuel -> OutOfFuel)

(** val m_env_find : envcfg -> str -> json -> node list result **)

let m_env_find cfg text v =
  bind (m_compile cfg text) (fun q -> m_find cfg q v)

type gexp =
| GEps
| GRange of n * n
| GSeq of gexp * gexp
| GAlt of gexp * gexp
| GStar of gexp
| GRef of nat

type grammar = nat -> gexp

(** val str_eq_dec : str -> str -> bool **)

let str_eq_dec =
  list_eq_dec N.eq_dec

(** val recog : grammar -> nat -> gexp -> str -> str list **)

let rec recog g fuel e s =
  match fuel with
  | O -> []
  | S f ->
    (match e with
     | GEps -> s :: []
     | GRange (lo, hi) ->
       (match s with
        | [] -> []
        | c0 :: r0 ->
          if (&&) (N.leb lo c0) (N.leb c0 hi) then r0 :: [] else [])
     | GSeq (a, b) ->
       nodup str_eq_dec (flat_map (fun r0 -> recog g f b r0) (recog g f a s))
     | GAlt (a, b) -> nodup str_eq_dec (app (recog g f a s) (recog g f b s))
     | GStar a ->
       nodup str_eq_dec
         (s :: (flat_map (fun r0 ->
                 if Nat.ltb (length r0) (length s)
                 then recog g f (GStar a) r0
                 else []) (recog g f a s)))
     | GRef n0 -> recog g f (g n0) s)

(** val accepts : grammar -> nat -> gexp -> str -> bool **)

let accepts g fuel e s =
  existsb (fun r0 -> match r0 with
                     | [] -> true
                     | _ :: _ -> false) (recog g fuel e s)

(** val gChar : n -> gexp **)

let gChar c0 =
  GRange (c0, c0)

(** val gLit : n list -> gexp **)

let rec gLit = function
| [] -> GEps
| c0 :: s' ->
  (match s' with
   | [] -> gChar c0
   | _ :: _ -> GSeq ((gChar c0), (gLit s')))

(** val gOpt : gexp -> gexp **)

let gOpt a =
  GAlt (a, GEps)

(** val gPlus : gexp -> gexp **)

let gPlus a =
  GSeq (a, (GStar a))

(** val gAlts : gexp list -> gexp **)

let rec gAlts = function
| [] -> GRange ((Npos XH), N0)
| a :: l' -> (match l' with
              | [] -> a
              | _ :: _ -> GAlt (a, (gAlts l')))

(** val gSeqs : gexp list -> gexp **)

let rec gSeqs = function
| [] -> GEps
| a :: l' -> (match l' with
              | [] -> a
              | _ :: _ -> GSeq (a, (gSeqs l')))

(** val gCi : n -> gexp **)

let gCi lower =
  GAlt ((gChar lower),
    (gChar (N.sub lower (Npos (XO (XO (XO (XO (XO XH)))))))))

type rule =
| R_jsonpath_query
| R_segments
| R_B
| R_S
| R_selector
| R_string_literal
| R_double_quoted
| R_single_quoted
| R_unescaped
| R_escapable
| R_hexchar
| R_non_surrogate
| R_high_surrogate
| R_low_surrogate
| R_HEXDIG
| R_int
| R_DIGIT1
| R_slice_selector
| R_filter_selector
| R_logical_or_expr
| R_logical_and_expr
| R_basic_expr
| R_paren_expr
| R_test_expr
| R_filter_query
| R_rel_query
| R_comparison_expr
| R_literal
| R_comparable
| R_comparison_op
| R_singular_query
| R_singular_query_segments
| R_name_segment
| R_index_segment
| R_number
| R_frac
| R_exp
| R_function_name
| R_function_expr
| R_function_argument
| R_segment
| R_child_segment
| R_bracketed_selection
| R_member_name_shorthand
| R_name_first
| R_name_char
| R_DIGIT
| R_ALPHA
| R_descendant_segment

(** val rule_id : rule -> nat **)

let rule_id = function
| R_jsonpath_query -> O
| R_segments -> S O
| R_B -> S (S O)
| R_S -> S (S (S O))
| R_selector -> S (S (S (S O)))
| R_string_literal -> S (S (S (S (S O))))
| R_double_quoted -> S (S (S (S (S (S O)))))
| R_single_quoted -> S (S (S (S (S (S (S O))))))
| R_unescaped -> S (S (S (S (S (S (S (S O)))))))
| R_escapable -> S (S (S (S (S (S (S (S (S O))))))))
| R_hexchar -> S (S (S (S (S (S (S (S (S (S O)))))))))
| R_non_surrogate -> S (S (S (S (S (S (S (S (S (S (S O))))))))))
| R_high_surrogate -> S (S (S (S (S (S (S (S (S (S (S (S O)))))))))))
| R_low_surrogate -> S (S (S (S (S (S (S (S (S (S (S (S (S O))))))))))))
| R_HEXDIG -> S (S (S (S (S (S (S (S (S (S (S (S (S (S O)))))))))))))
| R_int -> S (S (S (S (S (S (S (S (S (S (S (S (S (S (S O))))))))))))))
| R_DIGIT1 -> S (S (S (S (S (S (S (S (S (S (S (S (S (S (S (S O)))))))))))))))
| R_slice_selector ->
  S (S (S (S (S (S (S (S (S (S (S (S (S (S (S (S (S O))))))))))))))))
| R_filter_selector ->
  S (S (S (S (S (S (S (S (S (S (S (S (S (S (S (S (S (S O)))))))))))))))))
| R_logical_or_expr ->
  S (S (S (S (S (S (S (S (S (S (S (S (S (S (S (S (S (S (S O))))))))))))))))))
| R_logical_and_expr ->
  S (S (S (S (S (S (S (S (S (S (S (S (S (S (S (S (S (S (S (S
    O)))))))))))))))))))
| R_basic_expr ->
  S (S (S (S (S (S (S (S (S (S (S (S (S (S (S (S (S (S (S (S (S
    O))))))))))))))))))))
| R_paren_expr ->
  S (S (S (S (S (S (S (S (S (S (S (S (S (S (S (S (S (S (S (S (S (S
    O)))))))))))))))))))))
| R_test_expr ->
  S (S (S (S (S (S (S (S (S (S (S (S (S (S (S (S (S (S (S (S (S (S (S
    O))))))))))))))))))))))
| R_filter_query ->
  S (S (S (S (S (S (S (S (S (S (S (S (S (S (S (S (S (S (S (S (S (S (S (S
    O)))))))))))))))))))))))
| R_rel_query ->
  S (S (S (S (S (S (S (S (S (S (S (S (S (S (S (S (S (S (S (S (S (S (S (S (S
    O))))))))))))))))))))))))
| R_comparison_expr ->
  S (S (S (S (S (S (S (S (S (S (S (S (S (S (S (S (S (S (S (S (S (S (S (S (S
    (S O)))))))))))))))))))))))))
| R_literal ->
  S (S (S (S (S (S (S (S (S (S (S (S (S (S (S (S (S (S (S (S (S (S (S (S (S
    (S (S O))))))))))))))))))))))))))
| R_comparable ->
  S (S (S (S (S (S (S (S (S (S (S (S (S (S (S (S (S (S (S (S (S (S (S (S (S
    (S (S (S O)))))))))))))))))))))))))))
| R_comparison_op ->
  S (S (S (S (S (S (S (S (S (S (S (S (S (S (S (S (S (S (S (S (S (S (S (S (S
    (S (S (S (S O))))))))))))))))))))))))))))
| R_singular_query ->
  S (S (S (S (S (S (S (S (S (S (S (S (S (S (S (S (S (S (S (S (S (S (S (S (S
    (S (S (S (S (S O)))))))))))))))))))))))))))))
| R_singular_query_segments ->
  S (S (S (S (S (S (S (S (S (S (S (S (S (S (S (S (S (S (S (S (S (S (S (S (S
    (S (S (S (S (S (S O))))))))))))))))))))))))))))))
| R_name_segment ->
  S (S (S (S (S (S (S (S (S (S (S (S (S (S (S (S (S (S (S (S (S (S (S (S (S
    (S (S (S (S (S (S (S O)))))))))))))))))))))))))))))))
| R_index_segment ->
  S (S (S (S (S (S (S (S (S (S (S (S (S (S (S (S (S (S (S (S (S (S (S (S (S
    (S (S (S (S (S (S (S (S O))))))))))))))))))))))))))))))))
| R_number ->
  S (S (S (S (S (S (S (S (S (S (S (S (S (S (S (S (S (S (S (S (S (S (S (S (S
    (S (S (S (S (S (S (S (S (S O)))))))))))))))))))))))))))))))))
| R_frac ->
  S (S (S (S (S (S (S (S (S (S (S (S (S (S (S (S (S (S (S (S (S (S (S (S (S
    (S (S (S (S (S (S (S (S (S (S O))))))))))))))))))))))))))))))))))
| R_exp ->
  S (S (S (S (S (S (S (S (S (S (S (S (S (S (S (S (S (S (S (S (S (S (S (S (S
    (S (S (S (S (S (S (S (S (S (S (S O)))))))))))))))))))))))))))))))))))
| R_function_name ->
  S (S (S (S (S (S (S (S (S (S (S (S (S (S (S (S (S (S (S (S (S (S (S (S (S
    (S (S (S (S (S (S (S (S (S (S (S (S O))))))))))))))))))))))))))))))))))))
| R_function_expr ->
  S (S (S (S (S (S (S (S (S (S (S (S (S (S (S (S (S (S (S (S (S (S (S (S (S
    (S (S (S (S (S (S (S (S (S (S (S (S (S
    O)))))))))))))))))))))))))))))))))))))
| R_function_argument ->
  S (S (S (S (S (S (S (S (S (S (S (S (S (S (S (S (S (S (S (S (S (S (S (S (S
    (S (S (S (S (S (S (S (S (S (S (S (S (S (S
    O))))))))))))))))))))))))))))))))))))))
| R_segment ->
  S (S (S (S (S (S (S (S (S (S (S (S (S (S (S (S (S (S (S (S (S (S (S (S (S
    (S (S (S (S (S (S (S (S (S (S (S (S (S (S (S
    O)))))))))))))))))))))))))))))))))))))))
| R_child_segment ->
  S (S (S (S (S (S (S (S (S (S (S (S (S (S (S (S (S (S (S (S (S (S (S (S (S
    (S (S (S (S (S (S (S (S (S (S (S (S (S (S (S (S
    O))))))))))))))))))))))))))))))))))))))))
| R_bracketed_selection ->
  S (S (S (S (S (S (S (S (S (S (S (S (S (S (S (S (S (S (S (S (S (S (S (S (S
    (S (S (S (S (S (S (S (S (S (S (S (S (S (S (S (S (S
    O)))))))))))))))))))))))))))))))))))))))))
| R_member_name_shorthand ->
  S (S (S (S (S (S (S (S (S (S (S (S (S (S (S (S (S (S (S (S (S (S (S (S (S
    (S (S (S (S (S (S (S (S (S (S (S (S (S (S (S (S (S (S
    O))))))))))))))))))))))))))))))))))))))))))
| R_name_first ->
  S (S (S (S (S (S (S (S (S (S (S (S (S (S (S (S (S (S (S (S (S (S (S (S (S
    (S (S (S (S (S (S (S (S (S (S (S (S (S (S (S (S (S (S (S
    O)))))))))))))))))))))))))))))))))))))))))))
| R_name_char ->
  S (S (S (S (S (S (S (S (S (S (S (S (S (S (S (S (S (S (S (S (S (S (S (S (S
    (S (S (S (S (S (S (S (S (S (S (S (S (S (S (S (S (S (S (S (S
    O))))))))))))))))))))))))))))))))))))))))))))
| R_DIGIT ->
  S (S (S (S (S (S (S (S (S (S (S (S (S (S (S (S (S (S (S (S (S (S (S (S (S
    (S (S (S (S (S (S (S (S (S (S (S (S (S (S (S (S (S (S (S (S (S
    O)))))))))))))))))))))))))))))))))))))))))))))
| R_ALPHA ->
  S (S (S (S (S (S (S (S (S (S (S (S (S (S (S (S (S (S (S (S (S (S (S (S (S
    (S (S (S (S (S (S (S (S (S (S (S (S (S (S (S (S (S (S (S (S (S (S
    O))))))))))))))))))))))))))))))))))))))))))))))
| R_descendant_segment ->
  S (S (S (S (S (S (S (S (S (S (S (S (S (S (S (S (S (S (S (S (S (S (S (S (S
    (S (S (S (S (S (S (S (S (S (S (S (S (S (S (S (S (S (S (S (S (S (S (S
    O)))))))))))))))))))))))))))))))))))))))))))))))

(** val r : rule -> gexp **)

let r r0 =
  GRef (rule_id r0)

(** val c : n -> gexp **)

let c =
  gChar

(** val s_ : gexp **)

let s_ =
  r R_S

(** val rule_body : rule -> gexp **)

let rule_body = function
| R_jsonpath_query ->
  GSeq ((c (Npos (XO (XO (XI (XO (XO XH))))))), (r R_segments))
| R_segments -> GStar (GSeq (s_, (r R_segment)))
| R_B ->
  gAlts
    ((c (Npos (XO (XO (XO (XO (XO XH))))))) :: ((c (Npos (XI (XO (XO XH))))) :: (
    (c (Npos (XO (XI (XO XH))))) :: ((c (Npos (XI (XO (XI XH))))) :: []))))
| R_S -> GStar (r R_B)
| R_selector ->
  gAlts
    ((r R_string_literal) :: ((c (Npos (XO (XI (XO (XI (XO XH))))))) :: (
    (r R_slice_selector) :: ((r R_int) :: ((r R_filter_selector) :: [])))))
| R_string_literal ->
  GAlt
    ((gSeqs ((c (Npos (XO (XI (XO (XO (XO XH))))))) :: ((GStar
       (r R_double_quoted)) :: ((c (Npos (XO (XI (XO (XO (XO XH))))))) :: [])))),
    (gSeqs ((c (Npos (XI (XI (XI (XO (XO XH))))))) :: ((GStar
      (r R_single_quoted)) :: ((c (Npos (XI (XI (XI (XO (XO XH))))))) :: [])))))
| R_double_quoted ->
  gAlts ((r R_unescaped) :: ((c (Npos (XI (XI (XI (XO (XO XH))))))) :: ((GSeq
    ((c (Npos (XO (XO (XI (XI (XI (XO XH)))))))),
    (c (Npos (XO (XI (XO (XO (XO XH))))))))) :: ((GSeq
    ((c (Npos (XO (XO (XI (XI (XI (XO XH)))))))), (r R_escapable))) :: []))))
| R_single_quoted ->
  gAlts ((r R_unescaped) :: ((c (Npos (XO (XI (XO (XO (XO XH))))))) :: ((GSeq
    ((c (Npos (XO (XO (XI (XI (XI (XO XH)))))))),
    (c (Npos (XI (XI (XI (XO (XO XH))))))))) :: ((GSeq
    ((c (Npos (XO (XO (XI (XI (XI (XO XH)))))))), (r R_escapable))) :: []))))
| R_unescaped ->
  gAlts ((GRange ((Npos (XO (XO (XO (XO (XO XH)))))), (Npos (XI (XO (XO (XO
    (XO XH)))))))) :: ((GRange ((Npos (XI (XI (XO (XO (XO XH)))))), (Npos (XO
    (XI (XI (XO (XO XH)))))))) :: ((GRange ((Npos (XO (XO (XO (XI (XO
    XH)))))), (Npos (XI (XI (XO (XI (XI (XO XH))))))))) :: ((GRange ((Npos
    (XI (XO (XI (XI (XI (XO XH))))))), (Npos (XI (XI (XI (XI (XI (XI (XI (XI
    (XI (XI (XI (XO (XI (XO (XI XH)))))))))))))))))) :: ((GRange ((Npos (XO
    (XO (XO (XO (XO (XO (XO (XO (XO (XO (XO (XO (XO (XI (XI
    XH)))))))))))))))), (Npos (XI (XI (XI (XI (XI (XI (XI (XI (XI (XI (XI (XI
    (XI (XI (XI (XI (XO (XO (XO (XO XH))))))))))))))))))))))) :: [])))))
| R_escapable ->
  gAlts
    ((c (Npos (XO (XI (XO (XO (XO (XI XH)))))))) :: ((c (Npos (XO (XI (XI (XO
                                                       (XO (XI XH)))))))) :: (
    (c (Npos (XO (XI (XI (XI (XO (XI XH)))))))) :: ((c (Npos (XO (XI (XO (XO
                                                      (XI (XI XH)))))))) :: (
    (c (Npos (XO (XO (XI (XO (XI (XI XH)))))))) :: ((c (Npos (XI (XI (XI (XI
                                                      (XO XH))))))) :: (
    (c (Npos (XO (XO (XI (XI (XI (XO XH)))))))) :: ((GSeq
    ((c (Npos (XI (XO (XI (XO (XI (XI XH)))))))),
    (r R_hexchar))) :: []))))))))
| R_hexchar ->
  GAlt ((r R_non_surrogate),
    (gSeqs
      ((r R_high_surrogate) :: ((c (Npos (XO (XO (XI (XI (XI (XO XH)))))))) :: (
      (c (Npos (XI (XO (XI (XO (XI (XI XH)))))))) :: ((r R_low_surrogate) :: []))))))
| R_non_surrogate ->
  GAlt
    ((gSeqs
       ((gAlts
          ((r R_DIGIT) :: ((gCi (Npos (XI (XO (XO (XO (XO (XI XH)))))))) :: (
          (gCi (Npos (XO (XI (XO (XO (XO (XI XH)))))))) :: ((gCi (Npos (XI
                                                              (XI (XO (XO (XO
                                                              (XI XH)))))))) :: (
          (gCi (Npos (XI (XO (XI (XO (XO (XI XH)))))))) :: ((gCi (Npos (XO
                                                              (XI (XI (XO (XO
                                                              (XI XH)))))))) :: []))))))) :: (
       (r R_HEXDIG) :: ((r R_HEXDIG) :: ((r R_HEXDIG) :: []))))),
    (gSeqs ((gCi (Npos (XO (XO (XI (XO (XO (XI XH)))))))) :: ((GRange ((Npos
      (XO (XO (XO (XO (XI XH)))))), (Npos (XI (XI (XI (XO (XI
      XH)))))))) :: ((r R_HEXDIG) :: ((r R_HEXDIG) :: []))))))
| R_high_surrogate ->
  gSeqs
    ((gCi (Npos (XO (XO (XI (XO (XO (XI XH)))))))) :: ((gAlts
                                                         ((c (Npos (XO (XO
                                                            (XO (XI (XI
                                                            XH))))))) :: (
                                                         (c (Npos (XI (XO (XO
                                                           (XI (XI XH))))))) :: (
                                                         (gCi (Npos (XI (XO
                                                           (XO (XO (XO (XI
                                                           XH)))))))) :: (
                                                         (gCi (Npos (XO (XI
                                                           (XO (XO (XO (XI
                                                           XH)))))))) :: []))))) :: (
    (r R_HEXDIG) :: ((r R_HEXDIG) :: []))))
| R_low_surrogate ->
  gSeqs
    ((gCi (Npos (XO (XO (XI (XO (XO (XI XH)))))))) :: ((gAlts
                                                         ((gCi (Npos (XI (XI
                                                            (XO (XO (XO (XI
                                                            XH)))))))) :: (
                                                         (gCi (Npos (XO (XO
                                                           (XI (XO (XO (XI
                                                           XH)))))))) :: (
                                                         (gCi (Npos (XI (XO
                                                           (XI (XO (XO (XI
                                                           XH)))))))) :: (
                                                         (gCi (Npos (XO (XI
                                                           (XI (XO (XO (XI
                                                           XH)))))))) :: []))))) :: (
    (r R_HEXDIG) :: ((r R_HEXDIG) :: []))))
| R_HEXDIG ->
  gAlts
    ((r R_DIGIT) :: ((gCi (Npos (XI (XO (XO (XO (XO (XI XH)))))))) :: (
    (gCi (Npos (XO (XI (XO (XO (XO (XI XH)))))))) :: ((gCi (Npos (XI (XI (XO
                                                        (XO (XO (XI XH)))))))) :: (
    (gCi (Npos (XO (XO (XI (XO (XO (XI XH)))))))) :: ((gCi (Npos (XI (XO (XI
                                                        (XO (XO (XI XH)))))))) :: (
    (gCi (Npos (XO (XI (XI (XO (XO (XI XH)))))))) :: [])))))))
| R_int ->
  GAlt ((c (Npos (XO (XO (XO (XO (XI XH))))))),
    (gSeqs
      ((gOpt (c (Npos (XI (XO (XI (XI (XO XH)))))))) :: ((r R_DIGIT1) :: ((GStar
      (r R_DIGIT)) :: [])))))
| R_DIGIT1 ->
  GRange ((Npos (XI (XO (XO (XO (XI XH)))))), (Npos (XI (XO (XO (XI (XI
    XH)))))))
| R_slice_selector ->
  gSeqs
    ((gOpt (GSeq ((r R_int), s_))) :: ((c (Npos (XO (XI (XO (XI (XI XH))))))) :: (s_ :: (
    (gOpt (GSeq ((r R_int), s_))) :: ((gOpt (GSeq
                                        ((c (Npos (XO (XI (XO (XI (XI
                                           XH))))))),
                                        (gOpt (GSeq (s_, (r R_int))))))) :: [])))))
| R_filter_selector ->
  gSeqs
    ((c (Npos (XI (XI (XI (XI (XI XH))))))) :: (s_ :: ((r R_logical_or_expr) :: [])))
| R_logical_or_expr ->
  GSeq ((r R_logical_and_expr), (GStar
    (gSeqs
      (s_ :: ((c (Npos (XO (XO (XI (XI (XI (XI XH)))))))) :: ((c (Npos (XO
                                                                (XO (XI (XI
                                                                (XI (XI
                                                                XH)))))))) :: (s_ :: (
      (r R_logical_and_expr) :: []))))))))
| R_logical_and_expr ->
  GSeq ((r R_basic_expr), (GStar
    (gSeqs
      (s_ :: ((c (Npos (XO (XI (XI (XO (XO XH))))))) :: ((c (Npos (XO (XI (XI
                                                           (XO (XO XH))))))) :: (s_ :: (
      (r R_basic_expr) :: []))))))))
| R_basic_expr ->
  gAlts
    ((r R_paren_expr) :: ((r R_comparison_expr) :: ((r R_test_expr) :: [])))
| R_paren_expr ->
  gSeqs
    ((gOpt (GSeq ((c (Npos (XI (XO (XO (XO (XO XH))))))), s_))) :: ((c (Npos
                                                                    (XO (XO
                                                                    (XO (XI
                                                                    (XO
                                                                    XH))))))) :: (s_ :: (
    (r R_logical_or_expr) :: (s_ :: ((c (Npos (XI (XO (XO (XI (XO XH))))))) :: []))))))
| R_test_expr ->
  GSeq ((gOpt (GSeq ((c (Npos (XI (XO (XO (XO (XO XH))))))), s_))), (GAlt
    ((r R_filter_query), (r R_function_expr))))
| R_filter_query -> GAlt ((r R_rel_query), (r R_jsonpath_query))
| R_rel_query ->
  GSeq ((c (Npos (XO (XO (XO (XO (XO (XO XH)))))))), (r R_segments))
| R_comparison_expr ->
  gSeqs
    ((r R_comparable) :: (s_ :: ((r R_comparison_op) :: (s_ :: ((r
                                                                  R_comparable) :: [])))))
| R_literal ->
  gAlts
    ((r R_number) :: ((r R_string_literal) :: ((gLit ((Npos (XO (XO (XI (XO
                                                 (XI (XI XH))))))) :: ((Npos
                                                 (XO (XI (XO (XO (XI (XI
                                                 XH))))))) :: ((Npos (XI (XO
                                                 (XI (XO (XI (XI
                                                 XH))))))) :: ((Npos (XI (XO
                                                 (XI (XO (XO (XI
                                                 XH))))))) :: []))))) :: (
    (gLit ((Npos (XO (XI (XI (XO (XO (XI XH))))))) :: ((Npos (XI (XO (XO (XO
      (XO (XI XH))))))) :: ((Npos (XO (XO (XI (XI (XO (XI XH))))))) :: ((Npos
      (XI (XI (XO (XO (XI (XI XH))))))) :: ((Npos (XI (XO (XI (XO (XO (XI
      XH))))))) :: [])))))) :: ((gLit ((Npos (XO (XI (XI (XI (XO (XI
                                  XH))))))) :: ((Npos (XI (XO (XI (XO (XI (XI
                                  XH))))))) :: ((Npos (XO (XO (XI (XI (XO (XI
                                  XH))))))) :: ((Npos (XO (XO (XI (XI (XO (XI
                                  XH))))))) :: []))))) :: [])))))
| R_comparable ->
  gAlts
    ((r R_literal) :: ((r R_singular_query) :: ((r R_function_expr) :: [])))
| R_comparison_op ->
  gAlts
    ((gLit ((Npos (XI (XO (XI (XI (XI XH)))))) :: ((Npos (XI (XO (XI (XI (XI
       XH)))))) :: []))) :: ((gLit ((Npos (XI (XO (XO (XO (XO
                               XH)))))) :: ((Npos (XI (XO (XI (XI (XI
                               XH)))))) :: []))) :: ((gLit ((Npos (XO (XO (XI
                                                       (XI (XI
                                                       XH)))))) :: ((Npos (XI
                                                       (XO (XI (XI (XI
                                                       XH)))))) :: []))) :: (
    (gLit ((Npos (XO (XI (XI (XI (XI XH)))))) :: ((Npos (XI (XO (XI (XI (XI
      XH)))))) :: []))) :: ((c (Npos (XO (XO (XI (XI (XI XH))))))) :: (
    (c (Npos (XO (XI (XI (XI (XI XH))))))) :: []))))))
| R_singular_query ->
  GSeq ((GAlt ((c (Npos (XO (XO (XO (XO (XO (XO XH)))))))),
    (c (Npos (XO (XO (XI (XO (XO XH))))))))), (r R_singular_query_segments))
| R_singular_query_segments ->
  GStar (GSeq (s_, (GAlt ((r R_name_segment), (r R_index_segment)))))
| R_name_segment ->
  GAlt
    ((gSeqs
       ((c (Npos (XI (XI (XO (XI (XI (XO XH)))))))) :: (s_ :: ((r
                                                                 R_string_literal) :: (s_ :: (
       (c (Npos (XI (XO (XI (XI (XI (XO XH)))))))) :: [])))))), (GSeq
    ((c (Npos (XO (XI (XI (XI (XO XH))))))), (r R_member_name_shorthand))))
| R_index_segment ->
  gSeqs
    ((c (Npos (XI (XI (XO (XI (XI (XO XH)))))))) :: (s_ :: ((r R_int) :: (s_ :: (
    (c (Npos (XI (XO (XI (XI (XI (XO XH)))))))) :: [])))))
| R_number ->
  gSeqs ((GAlt ((r R_int),
    (gLit ((Npos (XI (XO (XI (XI (XO XH)))))) :: ((Npos (XO (XO (XO (XO (XI
      XH)))))) :: []))))) :: ((gOpt (r R_frac)) :: ((gOpt (r R_exp)) :: [])))
| R_frac -> GSeq ((c (Npos (XO (XI (XI (XI (XO XH))))))), (gPlus (r R_DIGIT)))
| R_exp ->
  gSeqs
    ((gCi (Npos (XI (XO (XI (XO (XO (XI XH)))))))) :: ((gOpt (GAlt
                                                         ((c (Npos (XI (XO
                                                            (XI (XI (XO
                                                            XH))))))),
                                                         (c (Npos (XI (XI (XO
                                                           (XI (XO XH)))))))))) :: (
    (gPlus (r R_DIGIT)) :: [])))
| R_function_name ->
  GSeq ((GRange ((Npos (XI (XO (XO (XO (XO (XI XH))))))), (Npos (XO (XI (XO
    (XI (XI (XI XH))))))))), (GStar
    (gAlts ((GRange ((Npos (XI (XO (XO (XO (XO (XI XH))))))), (Npos (XO (XI
      (XO (XI (XI (XI
      XH))))))))) :: ((c (Npos (XI (XI (XI (XI (XI (XO XH)))))))) :: (
      (r R_DIGIT) :: []))))))
| R_function_expr ->
  gSeqs
    ((r R_function_name) :: ((c (Npos (XO (XO (XO (XI (XO XH))))))) :: (s_ :: (
    (gOpt (GSeq ((r R_function_argument), (GStar
      (gSeqs
        (s_ :: ((c (Npos (XO (XO (XI (XI (XO XH))))))) :: (s_ :: ((r
                                                                    R_function_argument) :: []))))))))) :: (s_ :: (
    (c (Npos (XI (XO (XO (XI (XO XH))))))) :: []))))))
| R_function_argument ->
  gAlts
    ((r R_literal) :: ((r R_filter_query) :: ((r R_logical_or_expr) :: (
    (r R_function_expr) :: []))))
| R_segment -> GAlt ((r R_child_segment), (r R_descendant_segment))
| R_child_segment ->
  GAlt ((r R_bracketed_selection), (GSeq
    ((c (Npos (XO (XI (XI (XI (XO XH))))))), (GAlt
    ((c (Npos (XO (XI (XO (XI (XO XH))))))), (r R_member_name_shorthand))))))
| R_bracketed_selection ->
  gSeqs
    ((c (Npos (XI (XI (XO (XI (XI (XO XH)))))))) :: (s_ :: ((r R_selector) :: ((GStar
    (gSeqs
      (s_ :: ((c (Npos (XO (XO (XI (XI (XO XH))))))) :: (s_ :: ((r R_selector) :: [])))))) :: (s_ :: (
    (c (Npos (XI (XO (XI (XI (XI (XO XH)))))))) :: []))))))
| R_member_name_shorthand -> GSeq ((r R_name_first), (GStar (r R_name_char)))
| R_name_first ->
  gAlts
    ((r R_ALPHA) :: ((c (Npos (XI (XI (XI (XI (XI (XO XH)))))))) :: ((GRange
    ((Npos (XO (XO (XO (XO (XO (XO (XO XH)))))))), (Npos (XI (XI (XI (XI (XI
    (XI (XI (XI (XI (XI (XI (XO (XI (XO (XI XH)))))))))))))))))) :: ((GRange
    ((Npos (XO (XO (XO (XO (XO (XO (XO (XO (XO (XO (XO (XO (XO (XI (XI
    XH)))))))))))))))), (Npos (XI (XI (XI (XI (XI (XI (XI (XI (XI (XI (XI (XI
    (XI (XI (XI (XI (XO (XO (XO (XO XH))))))))))))))))))))))) :: []))))
| R_name_char -> GAlt ((r R_name_first), (r R_DIGIT))
| R_DIGIT ->
  GRange ((Npos (XO (XO (XO (XO (XI XH)))))), (Npos (XI (XO (XO (XI (XI
    XH)))))))
| R_ALPHA ->
  GAlt ((GRange ((Npos (XI (XO (XO (XO (XO (XO XH))))))), (Npos (XO (XI (XO
    (XI (XI (XO XH))))))))), (GRange ((Npos (XI (XO (XO (XO (XO (XI
    XH))))))), (Npos (XO (XI (XO (XI (XI (XI XH))))))))))
| R_descendant_segment ->
  gSeqs
    ((c (Npos (XO (XI (XI (XI (XO XH))))))) :: ((c (Npos (XO (XI (XI (XI (XO
                                                  XH))))))) :: ((gAlts
                                                                  ((r
                                                                    R_bracketed_selection) :: (
                                                                  (c (Npos
                                                                    (XO (XI
                                                                    (XO (XI
                                                                    (XO
                                                                    XH))))))) :: (
                                                                  (r
                                                                    R_member_name_shorthand) :: [])))) :: [])))

(** val all_rules : rule list **)

let all_rules =
  R_jsonpath_query :: (R_segments :: (R_B :: (R_S :: (R_selector :: (R_string_literal :: (R_double_quoted :: (R_single_quoted :: (R_unescaped :: (R_escapable :: (R_hexchar :: (R_non_surrogate :: (R_high_surrogate :: (R_low_surrogate :: (R_HEXDIG :: (R_int :: (R_DIGIT1 :: (R_slice_selector :: (R_filter_selector :: (R_logical_or_expr :: (R_logical_and_expr :: (R_basic_expr :: (R_paren_expr :: (R_test_expr :: (R_filter_query :: (R_rel_query :: (R_comparison_expr :: (R_literal :: (R_comparable :: (R_comparison_op :: (R_singular_query :: (R_singular_query_segments :: (R_name_segment :: (R_index_segment :: (R_number :: (R_frac :: (R_exp :: (R_function_name :: (R_function_expr :: (R_function_argument :: (R_segment :: (R_child_segment :: (R_bracketed_selection :: (R_member_name_shorthand :: (R_name_first :: (R_name_char :: (R_DIGIT :: (R_ALPHA :: (R_descendant_segment :: []))))))))))))))))))))))))))))))))))))))))))))))))

(** val rfc_grammar : grammar **)

let rfc_grammar n0 =
  match nth_error all_rules n0 with
  | Some r0 -> rule_body r0
  | None -> GRange ((Npos XH), N0)

(** val rfc_fuel : str -> nat **)

let rfc_fuel s =
  add
    (mul (S (S (S (S (S (S (S (S (S (S (S (S (S (S (S (S (S (S (S (S (S (S (S
      (S (S (S (S (S (S (S (S (S (S (S (S (S (S (S (S (S
      O)))))))))))))))))))))))))))))))))))))))) (length s)) (S (S (S (S (S (S
    (S (S (S (S (S (S (S (S (S (S (S (S (S (S (S (S (S (S (S (S (S (S (S (S
    (S (S (S (S (S (S (S (S (S (S (S (S (S (S (S (S (S (S (S (S (S (S (S (S
    (S (S (S (S (S (S (S (S (S (S (S (S (S (S (S (S (S (S (S (S (S (S (S (S
    (S (S (S (S (S (S (S (S (S (S (S (S (S (S (S (S (S (S (S (S (S (S (S (S
    (S (S (S (S (S (S (S (S (S (S (S (S (S (S (S (S (S (S (S (S (S (S (S (S
    (S (S (S (S (S (S (S (S (S (S (S (S (S (S (S (S (S (S (S (S (S (S (S (S
    (S (S (S (S (S (S (S (S (S (S (S (S (S (S (S (S (S (S (S (S (S (S (S (S
    (S (S (S (S (S (S (S (S (S (S (S (S (S (S (S (S (S (S (S (S (S (S (S (S
    (S (S
    O))))))))))))))))))))))))))))))))))))))))))))))))))))))))))))))))))))))))))))))))))))))))))))))))))))))))))))))))))))))))))))))))))))))))))))))))))))))))))))))))))))))))))))))))))))))))))))))))))))))))

(** val in_rfc_fuel : nat -> str -> bool **)

let in_rfc_fuel fuel s =
  accepts rfc_grammar fuel (r R_jsonpath_query) s

(** val in_rfc : str -> bool **)

let in_rfc s =
  in_rfc_fuel (rfc_fuel s) s

(** val singular_seg : seg -> bool **)

let singular_seg = function
| Child ss ->
  (match ss with
   | [] -> false
   | s :: l ->
     (match s with
      | SName _ -> (match l with
                    | [] -> true
                    | _ :: _ -> false)
      | SIndex _ -> (match l with
                     | [] -> true
                     | _ :: _ -> false)
      | _ -> false))
| Desc _ -> false

(** val singular : seg list -> bool **)

let singular q =
  forallb singular_seg q

(** val is_logical : ty3 -> bool **)

let is_logical = function
| TLogical -> true
| _ -> false

(** val ret_ok : ty3 -> ty3 -> bool **)

let ret_ok want ret =
  match want with
  | TValue -> (match ret with
               | TValue -> true
               | _ -> false)
  | TLogical -> (match ret with
                 | TValue -> false
                 | _ -> true)
  | TNodes -> (match ret with
               | TNodes -> true
               | _ -> false)

(** val wt_seg : registry -> seg -> bool **)

let wt_seg rg =
  let rec wt_sel = function
  | SFilter e -> wt_expr TLogical e
  | _ -> true
  and wt_expr want = function
  | ELit v -> (match want with
               | TValue -> negb (is_container v)
               | _ -> false)
  | ERel q ->
    (&&)
      (let rec go = function
       | [] -> true
       | sg :: q' -> (&&) (wt_seg0 sg) (go q')
       in go q) (match want with
                 | TValue -> singular q
                 | _ -> true)
  | EAbs q ->
    (&&)
      (let rec go = function
       | [] -> true
       | sg :: q' -> (&&) (wt_seg0 sg) (go q')
       in go q) (match want with
                 | TValue -> singular q
                 | _ -> true)
  | ECall (f, args) ->
    (match find_assoc f rg with
     | Some d ->
       (&&) (ret_ok want d.f_ret)
         (let rec go tys = function
          | [] -> (match tys with
                   | [] -> true
                   | _ :: _ -> false)
          | a :: args' ->
            (match tys with
             | [] -> false
             | t :: tys' -> (&&) (wt_expr t a) (go tys' args'))
          in go d.f_args args)
     | None -> false)
  | ENot a -> (&&) (is_logical want) (wt_expr TLogical a)
  | EAnd (a, b) ->
    (&&) ((&&) (is_logical want) (wt_expr TLogical a)) (wt_expr TLogical b)
  | EOr (a, b) ->
    (&&) ((&&) (is_logical want) (wt_expr TLogical a)) (wt_expr TLogical b)
  | ECmp (_, a, b) ->
    (&&) ((&&) (is_logical want) (wt_expr TValue a)) (wt_expr TValue b)
  and wt_seg0 = function
  | Child ss ->
    let rec go = function
    | [] -> true
    | s :: ss' -> (&&) (wt_sel s) (go ss')
    in go ss
  | Desc ss ->
    let rec go = function
    | [] -> true
    | s :: ss' -> (&&) (wt_sel s) (go ss')
    in go ss
  in wt_seg0

(** val wt_query : registry -> query -> bool **)

let wt_query rg q =
  forallb (wt_seg rg) q

(** val zr : z -> z -> z -> bool **)

let zr lo hi i =
  (&&) (Z.leb lo i) (Z.leb i hi)

(** val ozr : z -> z -> z option -> bool **)

let ozr lo hi = function
| Some i -> zr lo hi i
| None -> true

(** val ir_seg : z -> z -> seg -> bool **)

let ir_seg lo hi =
  let rec ir_sel = function
  | SIndex i -> zr lo hi i
  | SSlice (a, b, c0) ->
    (&&) ((&&) (ozr lo hi a) (ozr lo hi b)) (ozr lo hi c0)
  | SFilter e -> ir_expr e
  | _ -> true
  and ir_expr = function
  | ELit _ -> true
  | ERel q ->
    let rec go = function
    | [] -> true
    | g :: q' -> (&&) (ir_seg0 g) (go q')
    in go q
  | EAbs q ->
    let rec go = function
    | [] -> true
    | g :: q' -> (&&) (ir_seg0 g) (go q')
    in go q
  | ECall (_, args) ->
    let rec go = function
    | [] -> true
    | a :: l' -> (&&) (ir_expr a) (go l')
    in go args
  | ENot a -> ir_expr a
  | EAnd (a, b) -> (&&) (ir_expr a) (ir_expr b)
  | EOr (a, b) -> (&&) (ir_expr a) (ir_expr b)
  | ECmp (_, a, b) -> (&&) (ir_expr a) (ir_expr b)
  and ir_seg0 = function
  | Child ss ->
    let rec go = function
    | [] -> true
    | s :: l' -> (&&) (ir_sel s) (go l')
    in go ss
  | Desc ss ->
    let rec go = function
    | [] -> true
    | s :: l' -> (&&) (ir_sel s) (go l')
    in go ss
  in ir_seg0

(** val ints_in_range : z -> z -> query -> bool **)

let ints_in_range lo hi q =
  forallb (ir_seg lo hi) q

(** val hexv : n -> z option **)

let hexv c0 =
  if (&&) (N.leb (Npos (XO (XO (XO (XO (XI XH)))))) c0)
       (N.leb c0 (Npos (XI (XO (XO (XI (XI XH)))))))
  then Some (Z.sub (Z.of_N c0) (Zpos (XO (XO (XO (XO (XI XH)))))))
  else if (&&) (N.leb (Npos (XI (XO (XO (XO (XO (XO XH))))))) c0)
            (N.leb c0 (Npos (XO (XI (XI (XO (XO (XO XH))))))))
       then Some (Z.sub (Z.of_N c0) (Zpos (XI (XI (XI (XO (XI XH)))))))
       else if (&&) (N.leb (Npos (XI (XO (XO (XO (XO (XI XH))))))) c0)
                 (N.leb c0 (Npos (XO (XI (XI (XO (XO (XI XH))))))))
            then Some
                   (Z.sub (Z.of_N c0) (Zpos (XI (XI (XI (XO (XI (XO XH))))))))
            else None

(** val hex4 : n -> n -> n -> n -> z option **)

let hex4 a b c0 d =
  match hexv a with
  | Some a' ->
    (match hexv b with
     | Some b' ->
       (match hexv c0 with
        | Some c' ->
          (match hexv d with
           | Some d' ->
             Some
               (Z.add
                 (Z.add
                   (Z.add
                     (Z.mul a' (Zpos (XO (XO (XO (XO (XO (XO (XO (XO (XO (XO
                       (XO (XO XH))))))))))))))
                     (Z.mul b' (Zpos (XO (XO (XO (XO (XO (XO (XO (XO
                       XH))))))))))) (Z.mul c' (Zpos (XO (XO (XO (XO XH)))))))
                 d')
           | None -> None)
        | None -> None)
     | None -> None)
  | None -> None

(** val is_high : z -> bool **)

let is_high x =
  (&&)
    (Z.leb (Zpos (XO (XO (XO (XO (XO (XO (XO (XO (XO (XO (XO (XI (XI (XO (XI
      XH)))))))))))))))) x)
    (Z.leb x (Zpos (XI (XI (XI (XI (XI (XI (XI (XI (XI (XI (XO (XI (XI (XO
      (XI XH)))))))))))))))))

(** val is_low : z -> bool **)

let is_low x =
  (&&)
    (Z.leb (Zpos (XO (XO (XO (XO (XO (XO (XO (XO (XO (XO (XI (XI (XI (XO (XI
      XH)))))))))))))))) x)
    (Z.leb x (Zpos (XI (XI (XI (XI (XI (XI (XI (XI (XI (XI (XI (XI (XI (XO
      (XI XH)))))))))))))))))

(** val raw_ok : n -> n -> bool **)

let raw_ok q c0 =
  (&&)
    ((&&)
      ((&&)
        ((&&) (N.leb (Npos (XO (XO (XO (XO (XO XH)))))) c0)
          (negb (N.eqb c0 (Npos (XO (XO (XI (XI (XI (XO XH))))))))))
        (negb (N.eqb c0 q)))
      (negb
        ((&&)
          (N.leb (Npos (XO (XO (XO (XO (XO (XO (XO (XO (XO (XO (XO (XI (XI
            (XO (XI XH)))))))))))))))) c0)
          (N.leb c0 (Npos (XI (XI (XI (XI (XI (XI (XI (XI (XI (XI (XI (XI (XI
            (XO (XI XH))))))))))))))))))))
    (N.leb c0 (Npos (XI (XI (XI (XI (XI (XI (XI (XI (XI (XI (XI (XI (XI (XI
      (XI (XI (XO (XO (XO (XO XH))))))))))))))))))))))

(** val spec_decode : n -> str -> str option **)

let rec spec_decode q = function
| [] -> Some []
| c0 :: r0 ->
  if N.eqb c0 (Npos (XO (XO (XI (XI (XI (XO XH)))))))
  then (match r0 with
        | [] -> None
        | d :: r' ->
          let simple = fun x ->
            match spec_decode q r' with
            | Some t -> Some (x :: t)
            | None -> None
          in
          if N.eqb d q
          then simple q
          else if N.eqb d (Npos (XO (XI (XO (XO (XO (XI XH)))))))
               then simple (Npos (XO (XO (XO XH))))
               else if N.eqb d (Npos (XO (XI (XI (XO (XO (XI XH)))))))
                    then simple (Npos (XO (XO (XI XH))))
                    else if N.eqb d (Npos (XO (XI (XI (XI (XO (XI XH)))))))
                         then simple (Npos (XO (XI (XO XH))))
                         else if N.eqb d (Npos (XO (XI (XO (XO (XI (XI
                                   XH)))))))
                              then simple (Npos (XI (XO (XI XH))))
                              else if N.eqb d (Npos (XO (XO (XI (XO (XI (XI
                                        XH)))))))
                                   then simple (Npos (XI (XO (XO XH))))
                                   else if N.eqb d (Npos (XI (XI (XI (XI (XO
                                             XH))))))
                                        then simple (Npos (XI (XI (XI (XI (XO
                                               XH))))))
                                        else if N.eqb d (Npos (XO (XO (XI (XI
                                                  (XI (XO XH)))))))
                                             then simple (Npos (XO (XO (XI
                                                    (XI (XI (XO XH)))))))
                                             else if N.eqb d (Npos (XI (XO
                                                       (XI (XO (XI (XI
                                                       XH)))))))
                                                  then (match r' with
                                                        | [] -> None
                                                        | h1 :: l ->
                                                          (match l with
                                                           | [] -> None
                                                           | h2 :: l0 ->
                                                             (match l0 with
                                                              | [] -> None
                                                              | h3 :: l1 ->
                                                                (match l1 with
                                                                 | [] -> None
                                                                 | h4 :: r2 ->
                                                                   (match 
                                                                    hex4 h1
                                                                    h2 h3 h4 with
                                                                    | Some x ->
                                                                    if 
                                                                    is_low x
                                                                    then None
                                                                    else 
                                                                    if 
                                                                    is_high x
                                                                    then 
                                                                    (match r2 with
                                                                    | [] ->
                                                                    None
                                                                    | b :: l2 ->
                                                                    (match l2 with
                                                                    | [] ->
                                                                    None
                                                                    | u :: l3 ->
                                                                    (match l3 with
                                                                    | [] ->
                                                                    None
                                                                    | l4 :: l5 ->
                                                                    (match l5 with
                                                                    | [] ->
                                                                    None
                                                                    | l6 :: l7 ->
                                                                    (match l7 with
                                                                    | [] ->
                                                                    None
                                                                    | l8 :: l9 ->
                                                                    (match l9 with
                                                                    | [] ->
                                                                    None
                                                                    | l10 :: r3 ->
                                                                    if 
                                                                    (&&)
                                                                    (N.eqb b
                                                                    (Npos (XO
                                                                    (XO (XI
                                                                    (XI (XI
                                                                    (XO
                                                                    XH))))))))
                                                                    (N.eqb u
                                                                    (Npos (XI
                                                                    (XO (XI
                                                                    (XO (XI
                                                                    (XI
                                                                    XH))))))))
                                                                    then 
                                                                    (match 
                                                                    hex4 l4
                                                                    l6 l8 l10 with
                                                                    | Some y ->
                                                                    if 
                                                                    is_low y
                                                                    then 
                                                                    (match 
                                                                    spec_decode
                                                                    q r3 with
                                                                    | Some t ->
                                                                    Some
                                                                    ((Z.to_N
                                                                    (Z.add
                                                                    (Z.add
                                                                    (Zpos (XO
                                                                    (XO (XO
                                                                    (XO (XO
                                                                    (XO (XO
                                                                    (XO (XO
                                                                    (XO (XO
                                                                    (XO (XO
                                                                    (XO (XO
                                                                    (XO
                                                                    XH)))))))))))))))))
                                                                    (Z.mul
                                                                    (Z.sub x
                                                                    (Zpos (XO
                                                                    (XO (XO
                                                                    (XO (XO
                                                                    (XO (XO
                                                                    (XO (XO
                                                                    (XO (XO
                                                                    (XI (XI
                                                                    (XO (XI
                                                                    XH)))))))))))))))))
                                                                    (Zpos (XO
                                                                    (XO (XO
                                                                    (XO (XO
                                                                    (XO (XO
                                                                    (XO (XO
                                                                    (XO
                                                                    XH)))))))))))))
                                                                    (Z.sub y
                                                                    (Zpos (XO
                                                                    (XO (XO
                                                                    (XO (XO
                                                                    (XO (XO
                                                                    (XO (XO
                                                                    (XO (XI
                                                                    (XI (XI
                                                                    (XO (XI
                                                                    XH))))))))))))))))))) :: t)
                                                                    | None ->
                                                                    None)
                                                                    else None
                                                                    | None ->
                                                                    None)
                                                                    else None))))))
                                                                    else 
                                                                    (match 
                                                                    spec_decode
                                                                    q r2 with
                                                                    | Some t ->
                                                                    Some
                                                                    ((Z.to_N
                                                                    x) :: t)
                                                                    | None ->
                                                                    None)
                                                                    | None ->
                                                                    None)))))
                                                  else None)
  else if raw_ok q c0
       then (match spec_decode q r0 with
             | Some t -> Some (c0 :: t)
             | None -> None)
       else None

(** val count_lf : str -> z -> z **)

let rec count_lf s stop =
  match s with
  | [] -> Z0
  | c0 :: r0 ->
    if Z.leb stop Z0
    then Z0
    else Z.add (if N.eqb c0 (Npos (XO (XI (XO XH)))) then Zpos XH else Z0)
           (count_lf r0 (Z.sub stop (Zpos XH)))

(** val rfind_lf_from : str -> z -> z -> z -> z **)

let rec rfind_lf_from s pos stop last =
  match s with
  | [] -> last
  | c0 :: r0 ->
    if Z.leb stop pos
    then last
    else rfind_lf_from r0 (Z.add pos (Zpos XH)) stop
           (if N.eqb c0 (Npos (XO (XI (XO XH)))) then pos else last)

(** val rfind_lf : str -> z -> z **)

let rfind_lf s stop =
  rfind_lf_from s Z0 stop (Zneg XH)

(** val m_position : str -> z -> z * z **)

let m_position query0 index =
  let line_number = Z.add (count_lf query0 index) (Zpos XH) in
  let column_number = Z.sub index (rfind_lf query0 index) in
  (line_number, (Z.sub column_number (Zpos XH)))

(** val is_lf : n -> bool **)

let is_lf c0 =
  N.eqb c0 (Npos (XO (XI (XO XH))))

(** val line_of : str -> nat -> z **)

let line_of text off =
  Z.add (Zpos XH) (Z.of_nat (length (filter is_lf (firstn off text))))

(** val since_last_lf : str -> z -> z **)

let rec since_last_lf prefix acc =
  match prefix with
  | [] -> acc
  | c0 :: r0 ->
    since_last_lf r0 (if is_lf c0 then Z0 else Z.add acc (Zpos XH))

(** val col_of : str -> nat -> z **)

let col_of text off =
  since_last_lf (firstn off text) Z0

(** val hex_digit_lower : z -> n **)

let hex_digit_lower d =
  if Z.ltb d (Zpos (XO (XI (XO XH))))
  then Z.to_N (Z.add (Zpos (XO (XO (XO (XO (XI XH)))))) d)
  else Z.to_N (Z.add (Zpos (XI (XI (XI (XO (XI (XO XH))))))) d)

(** val dumps_char : n -> str **)

let dumps_char c0 =
  if N.eqb c0 (Npos (XO (XO (XI (XI (XI (XO XH)))))))
  then (Npos (XO (XO (XI (XI (XI (XO XH))))))) :: ((Npos (XO (XO (XI (XI (XI
         (XO XH))))))) :: [])
  else if N.eqb c0 (Npos (XO (XI (XO (XO (XO XH))))))
       then (Npos (XO (XO (XI (XI (XI (XO XH))))))) :: ((Npos (XO (XI (XO (XO
              (XO XH)))))) :: [])
       else if N.eqb c0 (Npos (XO (XO (XO XH))))
            then (Npos (XO (XO (XI (XI (XI (XO XH))))))) :: ((Npos (XO (XI
                   (XO (XO (XO (XI XH))))))) :: [])
            else if N.eqb c0 (Npos (XO (XO (XI XH))))
                 then (Npos (XO (XO (XI (XI (XI (XO XH))))))) :: ((Npos (XO
                        (XI (XI (XO (XO (XI XH))))))) :: [])
                 else if N.eqb c0 (Npos (XO (XI (XO XH))))
                      then (Npos (XO (XO (XI (XI (XI (XO XH))))))) :: ((Npos
                             (XO (XI (XI (XI (XO (XI XH))))))) :: [])
                      else if N.eqb c0 (Npos (XI (XO (XI XH))))
                           then (Npos (XO (XO (XI (XI (XI (XO
                                  XH))))))) :: ((Npos (XO (XI (XO (XO (XI (XI
                                  XH))))))) :: [])
                           else if N.eqb c0 (Npos (XI (XO (XO XH))))
                                then (Npos (XO (XO (XI (XI (XI (XO
                                       XH))))))) :: ((Npos (XO (XO (XI (XO
                                       (XI (XI XH))))))) :: [])
                                else if N.ltb c0 (Npos (XO (XO (XO (XO (XO
                                          XH))))))
                                     then (Npos (XO (XO (XI (XI (XI (XO
                                            XH))))))) :: ((Npos (XI (XO (XI
                                            (XO (XI (XI XH))))))) :: ((Npos
                                            (XO (XO (XO (XO (XI
                                            XH)))))) :: ((Npos (XO (XO (XO
                                            (XO (XI
                                            XH)))))) :: ((hex_digit_lower
                                                           (Z.div (Z.of_N c0)
                                                             (Zpos (XO (XO
                                                             (XO (XO XH))))))) :: (
                                            (hex_digit_lower
                                              (Z.modulo (Z.of_N c0) (Zpos (XO
                                                (XO (XO (XO XH))))))) :: [])))))
                                     else c0 :: []

(** val dumps_body : str -> str **)

let dumps_body s =
  flat_map dumps_char s

(** val replace_bq : str -> str **)

let rec replace_bq = function
| [] -> []
| c0 :: r0 ->
  (match r0 with
   | [] -> c0 :: []
   | d :: r' ->
     if (&&) (N.eqb c0 (Npos (XO (XO (XI (XI (XI (XO XH))))))))
          (N.eqb d (Npos (XO (XI (XO (XO (XO XH)))))))
     then (Npos (XO (XI (XO (XO (XO XH)))))) :: (replace_bq r')
     else c0 :: (replace_bq r0))

(** val replace_sq : str -> str **)

let replace_sq s =
  flat_map (fun c0 ->
    if N.eqb c0 (Npos (XI (XI (XI (XO (XO XH))))))
    then (Npos (XO (XO (XI (XI (XI (XO XH))))))) :: ((Npos (XI (XI (XI (XO
           (XO XH)))))) :: [])
    else c0 :: []) s

(** val m_canonical_string : str -> str **)

let m_canonical_string s =
  (Npos (XI (XI (XI (XO (XO
    XH)))))) :: (app (replace_sq (replace_bq (dumps_body s))) ((Npos (XI (XI
                  (XI (XO (XO XH)))))) :: []))

(** val digits_of_pos : nat -> z -> str -> str **)

let rec digits_of_pos fuel n0 acc =
  match fuel with
  | O -> acc
  | S f ->
    if Z.ltb n0 (Zpos (XO (XI (XO XH))))
    then (Z.to_N (Z.add (Zpos (XO (XO (XO (XO (XI XH)))))) n0)) :: acc
    else digits_of_pos f (Z.div n0 (Zpos (XO (XI (XO XH)))))
           ((Z.to_N
              (Z.add (Zpos (XO (XO (XO (XO (XI XH))))))
                (Z.modulo n0 (Zpos (XO (XI (XO XH))))))) :: acc)

(** val repr_nat : z -> str **)

let repr_nat n0 =
  digits_of_pos (S (Z.to_nat (Z.log2 n0))) n0 []

(** val repr_int : z -> str **)

let repr_int z0 =
  if Z.ltb z0 Z0
  then (Npos (XI (XO (XI (XI (XO XH)))))) :: (repr_nat (Z.opp z0))
  else repr_nat z0

(** val lt_ratio : z -> z -> z -> z -> bool **)

let lt_ratio n1 d1 n2 d2 =
  Z.ltb (Z.mul n1 d2) (Z.mul n2 d1)

(** val pow10 : z -> z * z **)

let pow10 k =
  if Z.leb Z0 k
  then ((Z.pow (Zpos (XO (XI (XO XH)))) k), (Zpos XH))
  else ((Zpos XH), (Z.pow (Zpos (XO (XI (XO XH)))) (Z.opp k)))

(** val floor_log10 : z -> z -> z **)

let floor_log10 num0 den =
  let est =
    Z.div
      (Z.mul (Z.sub (Z.log2 num0) (Z.log2 den)) (Zpos (XI (XI (XI (XO (XI (XO
        (XO (XI (XI (XO (XI (XO (XI (XI XH)))))))))))))))) (Zpos (XO (XO (XO
      (XO (XO (XI (XO (XI (XO (XI (XI (XO (XO (XO (XO (XI XH)))))))))))))))))
  in
  let fix_down = fun e ->
    let (pn, pd) = pow10 e in
    if lt_ratio num0 den pn pd then Z.sub e (Zpos XH) else e
  in
  let fix_up = fun e ->
    let (pn, pd) = pow10 (Z.add e (Zpos XH)) in
    if lt_ratio num0 den pn pd then e else Z.add e (Zpos XH)
  in
  fix_up (fix_up (fix_down (fix_down (Z.add est (Zpos XH)))))

(** val round_sig : z -> z -> z -> z * z **)

let round_sig num0 den n0 =
  let e10 = floor_log10 num0 den in
  let k = Z.sub e10 (Z.sub n0 (Zpos XH)) in
  if Z.leb Z0 k
  then let sd = Z.mul den (Z.pow (Zpos (XO (XI (XO XH)))) k) in
       let q = Z.div num0 sd in
       let r0 = Z.modulo num0 sd in
       let q' =
         if Z.ltb sd (Z.mul (Zpos (XO XH)) r0)
         then Z.add q (Zpos XH)
         else if (&&) (Z.eqb sd (Z.mul (Zpos (XO XH)) r0)) (Z.odd q)
              then Z.add q (Zpos XH)
              else q
       in
       if Z.eqb q' (Z.pow (Zpos (XO (XI (XO XH)))) n0)
       then ((Z.pow (Zpos (XO (XI (XO XH)))) (Z.sub n0 (Zpos XH))),
              (Z.add k (Zpos XH)))
       else (q', k)
  else let sn = Z.mul num0 (Z.pow (Zpos (XO (XI (XO XH)))) (Z.opp k)) in
       let q = Z.div sn den in
       let r0 = Z.modulo sn den in
       let q' =
         if Z.ltb den (Z.mul (Zpos (XO XH)) r0)
         then Z.add q (Zpos XH)
         else if (&&) (Z.eqb den (Z.mul (Zpos (XO XH)) r0)) (Z.odd q)
              then Z.add q (Zpos XH)
              else q
       in
       if Z.eqb q' (Z.pow (Zpos (XO (XI (XO XH)))) n0)
       then ((Z.pow (Zpos (XO (XI (XO XH)))) (Z.sub n0 (Zpos XH))),
              (Z.add k (Zpos XH)))
       else (q', k)

(** val shortest : nat -> z -> z -> z -> z -> z -> z * z **)

let rec shortest fuel n0 m e num0 den =
  match fuel with
  | O -> round_sig num0 den (Zpos (XI (XO (XO (XO XH)))))
  | S f ->
    let (d, k) = round_sig num0 den n0 in
    let back =
      if Z.leb Z0 k
      then round_ratio (Z.mul d (Z.pow (Zpos (XO (XI (XO XH)))) k)) (Zpos XH)
      else round_ratio d (Z.pow (Zpos (XO (XI (XO XH)))) (Z.opp k))
    in
    (match back with
     | Some p ->
       let (m', e') = p in
       if (&&) (Z.eqb m' m) (Z.eqb e' e)
       then (d, k)
       else shortest f (Z.add n0 (Zpos XH)) m e num0 den
     | None -> shortest f (Z.add n0 (Zpos XH)) m e num0 den)

(** val strip_zeros : nat -> z -> z -> z * z **)

let rec strip_zeros fuel d k =
  match fuel with
  | O -> (d, k)
  | S f ->
    if (&&) (Z.eqb (Z.modulo d (Zpos (XO (XI (XO XH))))) Z0)
         (negb (Z.eqb d Z0))
    then strip_zeros f (Z.div d (Zpos (XO (XI (XO XH))))) (Z.add k (Zpos XH))
    else (d, k)

(** val zeros : z -> str **)

let zeros n0 =
  repeat (Npos (XO (XO (XO (XO (XI XH)))))) (Z.to_nat n0)

(** val repr_pos_float : z -> z -> str **)

let repr_pos_float m e =
  if Z.leb Z0 e
  then let num0 = Z.mul m (Z.pow (Zpos (XO XH)) e) in
       let den = Zpos XH in
       let (d0, k0) =
         shortest (S (S (S (S (S (S (S (S (S (S (S (S (S (S (S (S (S
           O))))))))))))))))) (Zpos XH) m e num0 den
       in
       let (d, k) =
         strip_zeros (S (S (S (S (S (S (S (S (S (S (S (S (S (S (S (S (S (S (S
           (S O)))))))))))))))))))) d0 k0
       in
       let ds = repr_nat d in
       let nd = zlen ds in
       let decpt = Z.add nd k in
       if (&&) (Z.ltb (Zneg (XO (XO XH))) decpt)
            (Z.leb decpt (Zpos (XO (XO (XO (XO XH))))))
       then if Z.leb decpt Z0
            then app ((Npos (XO (XO (XO (XO (XI XH)))))) :: ((Npos (XO (XI
                   (XI (XI (XO XH)))))) :: [])) (app (zeros (Z.opp decpt)) ds)
            else if Z.leb nd decpt
                 then app ds
                        (app (zeros (Z.sub decpt nd)) ((Npos (XO (XI (XI (XI
                          (XO XH)))))) :: ((Npos (XO (XO (XO (XO (XI
                          XH)))))) :: [])))
                 else app (firstn (Z.to_nat decpt) ds)
                        (app ((Npos (XO (XI (XI (XI (XO XH)))))) :: [])
                          (skipn (Z.to_nat decpt) ds))
       else let ex = Z.sub decpt (Zpos XH) in
            let mant =
              match ds with
              | [] -> []
              | d1 :: r0 ->
                (match r0 with
                 | [] -> d1 :: []
                 | _ :: _ -> d1 :: ((Npos (XO (XI (XI (XI (XO XH)))))) :: r0))
            in
            let exs = repr_nat (Z.abs ex) in
            app mant
              (app ((Npos (XI (XO (XI (XO (XO (XI
                XH))))))) :: ((if Z.ltb ex Z0
                               then Npos (XI (XO (XI (XI (XO XH)))))
                               else Npos (XI (XI (XO (XI (XO XH)))))) :: []))
                (if Z.ltb (zlen exs) (Zpos (XO XH))
                 then (Npos (XO (XO (XO (XO (XI XH)))))) :: exs
                 else exs))
  else let den = Z.pow (Zpos (XO XH)) (Z.opp e) in
       let (d0, k0) =
         shortest (S (S (S (S (S (S (S (S (S (S (S (S (S (S (S (S (S
           O))))))))))))))))) (Zpos XH) m e m den
       in
       let (d, k) =
         strip_zeros (S (S (S (S (S (S (S (S (S (S (S (S (S (S (S (S (S (S (S
           (S O)))))))))))))))))))) d0 k0
       in
       let ds = repr_nat d in
       let nd = zlen ds in
       let decpt = Z.add nd k in
       if (&&) (Z.ltb (Zneg (XO (XO XH))) decpt)
            (Z.leb decpt (Zpos (XO (XO (XO (XO XH))))))
       then if Z.leb decpt Z0
            then app ((Npos (XO (XO (XO (XO (XI XH)))))) :: ((Npos (XO (XI
                   (XI (XI (XO XH)))))) :: [])) (app (zeros (Z.opp decpt)) ds)
            else if Z.leb nd decpt
                 then app ds
                        (app (zeros (Z.sub decpt nd)) ((Npos (XO (XI (XI (XI
                          (XO XH)))))) :: ((Npos (XO (XO (XO (XO (XI
                          XH)))))) :: [])))
                 else app (firstn (Z.to_nat decpt) ds)
                        (app ((Npos (XO (XI (XI (XI (XO XH)))))) :: [])
                          (skipn (Z.to_nat decpt) ds))
       else let ex = Z.sub decpt (Zpos XH) in
            let mant =
              match ds with
              | [] -> []
              | d1 :: r0 ->
                (match r0 with
                 | [] -> d1 :: []
                 | _ :: _ -> d1 :: ((Npos (XO (XI (XI (XI (XO XH)))))) :: r0))
            in
            let exs = repr_nat (Z.abs ex) in
            app mant
              (app ((Npos (XI (XO (XI (XO (XO (XI
                XH))))))) :: ((if Z.ltb ex Z0
                               then Npos (XI (XO (XI (XI (XO XH)))))
                               else Npos (XI (XI (XO (XI (XO XH)))))) :: []))
                (if Z.ltb (zlen exs) (Zpos (XO XH))
                 then (Npos (XO (XO (XO (XO (XI XH)))))) :: exs
                 else exs))

(** val repr_float : num -> str **)

let repr_float = function
| NInt z0 -> repr_int z0
| NFlt (m, e) ->
  (match m with
   | Z0 ->
     (Npos (XO (XO (XO (XO (XI XH)))))) :: ((Npos (XO (XI (XI (XI (XO
       XH)))))) :: ((Npos (XO (XO (XO (XO (XI XH)))))) :: []))
   | _ ->
     if Z.ltb m Z0
     then (Npos (XI (XO (XI (XI (XO XH)))))) :: (repr_pos_float (Z.opp m) e)
     else repr_pos_float m e)
| NNegZero ->
  (Npos (XI (XO (XI (XI (XO XH)))))) :: ((Npos (XO (XO (XO (XO (XI
    XH)))))) :: ((Npos (XO (XI (XI (XI (XO XH)))))) :: ((Npos (XO (XO (XO (XO
    (XI XH)))))) :: [])))
| NInf s ->
  if s
  then (Npos (XI (XO (XI (XI (XO XH)))))) :: ((Npos (XI (XO (XO (XI (XO (XI
         XH))))))) :: ((Npos (XO (XI (XI (XI (XO (XI XH))))))) :: ((Npos (XO
         (XI (XI (XO (XO (XI XH))))))) :: [])))
  else (Npos (XI (XO (XO (XI (XO (XI XH))))))) :: ((Npos (XO (XI (XI (XI (XO
         (XI XH))))))) :: ((Npos (XO (XI (XI (XO (XO (XI XH))))))) :: []))

(** val str_join : str -> str list -> str **)

let str_join sep = function
| [] -> []
| p :: ps -> app p (flat_map (fun x -> app sep x) ps)

(** val op_str : cmpop -> str **)

let op_str = function
| OEq ->
  (Npos (XI (XO (XI (XI (XI XH)))))) :: ((Npos (XI (XO (XI (XI (XI
    XH)))))) :: [])
| ONe ->
  (Npos (XI (XO (XO (XO (XO XH)))))) :: ((Npos (XI (XO (XI (XI (XI
    XH)))))) :: [])
| OLt -> (Npos (XO (XO (XI (XI (XI XH)))))) :: []
| OLe ->
  (Npos (XO (XO (XI (XI (XI XH)))))) :: ((Npos (XI (XO (XI (XI (XI
    XH)))))) :: [])
| OGt -> (Npos (XO (XI (XI (XI (XI XH)))))) :: []
| OGe ->
  (Npos (XO (XI (XI (XI (XI XH)))))) :: ((Npos (XI (XO (XI (XI (XI
    XH)))))) :: [])

(** val lit_str : json -> str **)

let lit_str = function
| JNull ->
  (Npos (XO (XI (XI (XI (XO (XI XH))))))) :: ((Npos (XI (XO (XI (XO (XI (XI
    XH))))))) :: ((Npos (XO (XO (XI (XI (XO (XI XH))))))) :: ((Npos (XO (XO
    (XI (XI (XO (XI XH))))))) :: [])))
| JBool b ->
  if b
  then (Npos (XO (XO (XI (XO (XI (XI XH))))))) :: ((Npos (XO (XI (XO (XO (XI
         (XI XH))))))) :: ((Npos (XI (XO (XI (XO (XI (XI XH))))))) :: ((Npos
         (XI (XO (XI (XO (XO (XI XH))))))) :: [])))
  else (Npos (XO (XI (XI (XO (XO (XI XH))))))) :: ((Npos (XI (XO (XO (XO (XO
         (XI XH))))))) :: ((Npos (XO (XO (XI (XI (XO (XI XH))))))) :: ((Npos
         (XI (XI (XO (XO (XI (XI XH))))))) :: ((Npos (XI (XO (XI (XO (XO (XI
         XH))))))) :: []))))
| JNum n0 -> repr_float n0
| JStr s -> m_canonical_string s
| _ -> []

(** val opt_int_str : z option -> str -> str **)

let opt_int_str o dflt =
  match o with
  | Some i -> repr_int i
  | None -> dflt

(** val paren : str -> str **)

let paren s =
  (Npos (XO (XO (XO (XI (XO
    XH)))))) :: (app s ((Npos (XI (XO (XO (XI (XO XH)))))) :: []))

(** val is_cmp_or_not : expr -> bool **)

let is_cmp_or_not = function
| ENot _ -> true
| ECmp (_, _, _) -> true
| _ -> false

(** val sel_str : sel -> str **)

let rec sel_str = function
| SName k -> m_canonical_string k
| SIndex i -> repr_int i
| SSlice (a, b, c0) ->
  app (opt_int_str a [])
    (app ((Npos (XO (XI (XO (XI (XI XH)))))) :: [])
      (app (opt_int_str b [])
        (app ((Npos (XO (XI (XO (XI (XI XH)))))) :: [])
          (opt_int_str c0 ((Npos (XI (XO (XO (XO (XI XH)))))) :: [])))))
| SWild -> (Npos (XO (XI (XO (XI (XO XH)))))) :: []
| SFilter e -> (Npos (XI (XI (XI (XI (XI XH)))))) :: (canon_str e (Zpos XH))

(** val expr_str : expr -> str **)

and expr_str = function
| ELit v -> lit_str v
| ERel q ->
  (Npos (XO (XO (XO (XO (XO (XO
    XH))))))) :: (let rec go = function
                  | [] -> []
                  | g :: q' -> app (seg_str g) (go q')
                  in go q)
| EAbs q ->
  (Npos (XO (XO (XI (XO (XO
    XH)))))) :: (let rec go = function
                 | [] -> []
                 | g :: q' -> app (seg_str g) (go q')
                 in go q)
| ECall (f, args) ->
  app f
    (paren
      (str_join ((Npos (XO (XO (XI (XI (XO XH)))))) :: ((Npos (XO (XO (XO (XO
        (XO XH)))))) :: []))
        (let rec go = function
         | [] -> []
         | a :: l' -> (expr_str a) :: (go l')
         in go args)))
| ENot a ->
  if is_cmp_or_not a
  then (Npos (XI (XO (XO (XO (XO XH)))))) :: (paren (expr_str a))
  else (Npos (XI (XO (XO (XO (XO XH)))))) :: (expr_str a)
| EAnd (a, b) ->
  paren
    (app (expr_str a)
      (app ((Npos (XO (XO (XO (XO (XO XH)))))) :: ((Npos (XO (XI (XI (XO (XO
        XH)))))) :: ((Npos (XO (XI (XI (XO (XO XH)))))) :: ((Npos (XO (XO (XO
        (XO (XO XH)))))) :: [])))) (expr_str b)))
| EOr (a, b) ->
  paren
    (app (expr_str a)
      (app ((Npos (XO (XO (XO (XO (XO XH)))))) :: ((Npos (XO (XO (XI (XI (XI
        (XI XH))))))) :: ((Npos (XO (XO (XI (XI (XI (XI XH))))))) :: ((Npos
        (XO (XO (XO (XO (XO XH)))))) :: [])))) (expr_str b)))
| ECmp (o, a, b) ->
  app (expr_str a)
    (app ((Npos (XO (XO (XO (XO (XO XH)))))) :: [])
      (app (op_str o)
        (app ((Npos (XO (XO (XO (XO (XO XH)))))) :: []) (expr_str b))))

(** val canon_str : expr -> z -> str **)

and canon_str e parent =
  match e with
  | ELit v -> lit_str v
  | ERel q ->
    (Npos (XO (XO (XO (XO (XO (XO
      XH))))))) :: (let rec go = function
                    | [] -> []
                    | g :: q' -> app (seg_str g) (go q')
                    in go q)
  | EAbs q ->
    (Npos (XO (XO (XI (XO (XO
      XH)))))) :: (let rec go = function
                   | [] -> []
                   | g :: q' -> app (seg_str g) (go q')
                   in go q)
  | ECall (f, args) ->
    app f
      (paren
        (str_join ((Npos (XO (XO (XI (XI (XO XH)))))) :: ((Npos (XO (XO (XO
          (XO (XO XH)))))) :: []))
          (let rec go = function
           | [] -> []
           | a :: l' -> (expr_str a) :: (go l')
           in go args)))
  | ENot a ->
    let t = (Npos (XI (XO (XO (XO (XO
      XH)))))) :: (canon_str a (Zpos (XI (XI XH))))
    in
    if Z.leb (Zpos (XI (XI XH))) parent then paren t else t
  | EAnd (a, b) ->
    let t =
      app (canon_str a (Zpos (XO (XO XH))))
        (app ((Npos (XO (XO (XO (XO (XO XH)))))) :: ((Npos (XO (XI (XI (XO
          (XO XH)))))) :: ((Npos (XO (XI (XI (XO (XO XH)))))) :: ((Npos (XO
          (XO (XO (XO (XO XH)))))) :: []))))
          (canon_str b (Zpos (XO (XO XH)))))
    in
    if Z.leb (Zpos (XO (XO XH))) parent then paren t else t
  | EOr (a, b) ->
    let t =
      app (canon_str a (Zpos (XI XH)))
        (app ((Npos (XO (XO (XO (XO (XO XH)))))) :: ((Npos (XO (XO (XI (XI
          (XI (XI XH))))))) :: ((Npos (XO (XO (XI (XI (XI (XI
          XH))))))) :: ((Npos (XO (XO (XO (XO (XO XH)))))) :: []))))
          (canon_str b (Zpos (XI XH))))
    in
    if Z.leb (Zpos (XI XH)) parent then paren t else t
  | ECmp (o, a, b) ->
    let t =
      app (expr_str a)
        (app ((Npos (XO (XO (XO (XO (XO XH)))))) :: [])
          (app (op_str o)
            (app ((Npos (XO (XO (XO (XO (XO XH)))))) :: []) (expr_str b))))
    in
    if Z.leb (Zpos (XI (XI XH))) parent then paren t else t

(** val seg_str : seg -> str **)

and seg_str = function
| Child ss ->
  (Npos (XI (XI (XO (XI (XI (XO
    XH))))))) :: (app
                   (str_join ((Npos (XO (XO (XI (XI (XO XH)))))) :: ((Npos
                     (XO (XO (XO (XO (XO XH)))))) :: []))
                     (let rec go = function
                      | [] -> []
                      | s :: l' -> (sel_str s) :: (go l')
                      in go ss)) ((Npos (XI (XO (XI (XI (XI (XO
                   XH))))))) :: []))
| Desc ss ->
  app ((Npos (XO (XI (XI (XI (XO XH)))))) :: ((Npos (XO (XI (XI (XI (XO
    XH)))))) :: ((Npos (XI (XI (XO (XI (XI (XO XH))))))) :: [])))
    (app
      (str_join ((Npos (XO (XO (XI (XI (XO XH)))))) :: ((Npos (XO (XO (XO (XO
        (XO XH)))))) :: []))
        (let rec go = function
         | [] -> []
         | s :: l' -> (sel_str s) :: (go l')
         in go ss)) ((Npos (XI (XO (XI (XI (XI (XO XH))))))) :: []))

(** val m_str : query -> str **)

let m_str q =
  (Npos (XO (XO (XI (XO (XO XH)))))) :: (flat_map seg_str q)

(** val key_str : key -> str **)

let key_str = function
| KName s ->
  (Npos (XI (XI (XO (XI (XI (XO
    XH))))))) :: (app (m_canonical_string s) ((Npos (XI (XO (XI (XI (XI (XO
                   XH))))))) :: []))
| KIdx i ->
  (Npos (XI (XI (XO (XI (XI (XO
    XH))))))) :: (app (repr_int i) ((Npos (XI (XO (XI (XI (XI (XO
                   XH))))))) :: []))

(** val m_path : key list -> str **)

let m_path loc =
  (Npos (XO (XO (XI (XO (XO XH)))))) :: (flat_map key_str loc)

(** val hexl : z -> n **)

let hexl d =
  if Z.ltb d (Zpos (XO (XI (XO XH))))
  then Z.to_N (Z.add (Zpos (XO (XO (XO (XO (XI XH)))))) d)
  else Z.to_N (Z.add (Zpos (XI (XI (XI (XO (XI (XO XH))))))) d)

(** val norm_char : n -> str **)

let norm_char c0 =
  if N.eqb c0 (Npos (XO (XO (XO XH))))
  then (Npos (XO (XO (XI (XI (XI (XO XH))))))) :: ((Npos (XO (XI (XO (XO (XO
         (XI XH))))))) :: [])
  else if N.eqb c0 (Npos (XO (XO (XI XH))))
       then (Npos (XO (XO (XI (XI (XI (XO XH))))))) :: ((Npos (XO (XI (XI (XO
              (XO (XI XH))))))) :: [])
       else if N.eqb c0 (Npos (XO (XI (XO XH))))
            then (Npos (XO (XO (XI (XI (XI (XO XH))))))) :: ((Npos (XO (XI
                   (XI (XI (XO (XI XH))))))) :: [])
            else if N.eqb c0 (Npos (XI (XO (XI XH))))
                 then (Npos (XO (XO (XI (XI (XI (XO XH))))))) :: ((Npos (XO
                        (XI (XO (XO (XI (XI XH))))))) :: [])
                 else if N.eqb c0 (Npos (XI (XO (XO XH))))
                      then (Npos (XO (XO (XI (XI (XI (XO XH))))))) :: ((Npos
                             (XO (XO (XI (XO (XI (XI XH))))))) :: [])
                      else if N.eqb c0 (Npos (XI (XI (XI (XO (XO XH))))))
                           then (Npos (XO (XO (XI (XI (XI (XO
                                  XH))))))) :: ((Npos (XI (XI (XI (XO (XO
                                  XH)))))) :: [])
                           else if N.eqb c0 (Npos (XO (XO (XI (XI (XI (XO
                                     XH)))))))
                                then (Npos (XO (XO (XI (XI (XI (XO
                                       XH))))))) :: ((Npos (XO (XO (XI (XI
                                       (XI (XO XH))))))) :: [])
                                else if N.ltb c0 (Npos (XO (XO (XO (XO (XO
                                          XH))))))
                                     then (Npos (XO (XO (XI (XI (XI (XO
                                            XH))))))) :: ((Npos (XI (XO (XI
                                            (XO (XI (XI XH))))))) :: ((Npos
                                            (XO (XO (XO (XO (XI
                                            XH)))))) :: ((Npos (XO (XO (XO
                                            (XO (XI
                                            XH)))))) :: ((hexl
                                                           (Z.div (Z.of_N c0)
                                                             (Zpos (XO (XO
                                                             (XO (XO XH))))))) :: (
                                            (hexl
                                              (Z.modulo (Z.of_N c0) (Zpos (XO
                                                (XO (XO (XO XH))))))) :: [])))))
                                     else c0 :: []

(** val norm_name : str -> str **)

let norm_name s =
  (Npos (XI (XI (XI (XO (XO
    XH)))))) :: (app (flat_map norm_char s) ((Npos (XI (XI (XI (XO (XO
                  XH)))))) :: []))

(** val dec_digits : nat -> z -> str -> str **)

let rec dec_digits fuel n0 acc =
  match fuel with
  | O -> acc
  | S f ->
    if Z.ltb n0 (Zpos (XO (XI (XO XH))))
    then (Z.to_N (Z.add (Zpos (XO (XO (XO (XO (XI XH)))))) n0)) :: acc
    else dec_digits f (Z.div n0 (Zpos (XO (XI (XO XH)))))
           ((Z.to_N
              (Z.add (Zpos (XO (XO (XO (XO (XI XH))))))
                (Z.modulo n0 (Zpos (XO (XI (XO XH))))))) :: acc)

(** val norm_index : z -> str **)

let norm_index i =
  dec_digits (S (Z.to_nat (Z.log2 i))) i []

(** val norm_seg : key -> str **)

let norm_seg = function
| KName s ->
  (Npos (XI (XI (XO (XI (XI (XO
    XH))))))) :: (app (norm_name s) ((Npos (XI (XO (XI (XI (XI (XO
                   XH))))))) :: []))
| KIdx i ->
  (Npos (XI (XI (XO (XI (XI (XO
    XH))))))) :: (app (norm_index i) ((Npos (XI (XO (XI (XI (XI (XO
                   XH))))))) :: []))

(** val norm_path : key list -> str **)

let norm_path loc =
  (Npos (XO (XO (XI (XO (XO XH)))))) :: (flat_map norm_seg loc)

type hop =
| HNewEnv of envcfg
| HRegister of nat * str * fdecl
| HCompile of nat * str
| HApply of nat * json
| HFindEnv of nat * str * json
| HFindModule of str * json

type hstate = { envs : envcfg list; compiled : (nat * query) list }

type hout =
| HNone
| HNodes of node list result
| HCompiled of nat result

(** val set_reg : envcfg -> registry -> envcfg **)

let set_reg c0 rg =
  { min_idx = c0.min_idx; max_idx = c0.max_idx; max_depth = c0.max_depth;
    reg = rg; rx = c0.rx }

(** val update_nth : nat -> ('a1 -> 'a1) -> 'a1 list -> 'a1 list **)

let rec update_nth n0 f = function
| [] -> []
| x :: r0 ->
  (match n0 with
   | O -> (f x) :: r0
   | S n' -> x :: (update_nth n' f r0))

(** val hstep : envcfg -> hstate -> hop -> hstate * hout **)

let hstep dflt s = function
| HNewEnv base ->
  ({ envs = (app s.envs (base :: [])); compiled = s.compiled }, HNone)
| HRegister (e, name, d) ->
  ({ envs =
    (update_nth e (fun c0 -> set_reg c0 ((name, d) :: c0.reg)) s.envs);
    compiled = s.compiled }, HNone)
| HCompile (e, text) ->
  (match nth_error s.envs e with
   | Some c0 ->
     (match m_compile c0 text with
      | Ok q ->
        ({ envs = s.envs; compiled = (app s.compiled ((e, q) :: [])) },
          (HCompiled (Ok (length s.compiled))))
      | Err (a, b) -> (s, (HCompiled (Err (a, b))))
      | Crash x -> (s, (HCompiled (Crash x)))
      | OutOfFuel -> (s, (HCompiled OutOfFuel)))
   | None -> (s, HNone))
| HApply (cq, v) ->
  (match nth_error s.compiled cq with
   | Some p ->
     let (e, q) = p in
     (match nth_error s.envs e with
      | Some c0 -> (s, (HNodes (m_find c0 q v)))
      | None -> (s, HNone))
   | None -> (s, HNone))
| HFindEnv (e, text, v) ->
  (match nth_error s.envs e with
   | Some c0 -> (s, (HNodes (m_env_find c0 text v)))
   | None -> (s, HNone))
| HFindModule (text, v) -> (s, (HNodes (m_env_find dflt text v)))

(** val hrun : envcfg -> hstate -> hop list -> hstate * hout list **)

let rec hrun dflt s = function
| [] -> (s, [])
| o :: r0 ->
  let (s1, x) = hstep dflt s o in
  let (s2, xs) = hrun dflt s1 r0 in (s2, (x :: xs))

type cell =
| CScalar
| CArr of nat list
| CObj of (str * nat) list

type graph = cell list

(** val cell_of : graph -> nat -> cell **)

let cell_of g id =
  nth id g CScalar

(** val is_cont : cell -> bool **)

let is_cont = function
| CScalar -> false
| _ -> true

(** val kids_of : cell -> (key * nat) list **)

let kids_of = function
| CScalar -> []
| CArr ks -> map (fun p -> ((KIdx (fst p)), (snd p))) (enum_from Z0 ks)
| CObj ks -> map (fun p -> ((KName (fst p)), (snd p))) ks

(** val gvisit :
    graph -> nat -> key list -> nat -> (key list * nat) list result **)

let rec gvisit g budget loc id =
  match budget with
  | O -> Err (ERecursion, None)
  | S b ->
    bind
      (flat_mapM (fun kc ->
        if is_cont (cell_of g (snd kc))
        then gvisit g b (app loc ((fst kc) :: [])) (snd kc)
        else Ok []) (kids_of (cell_of g id))) (fun rest0 -> Ok ((loc,
      id) :: rest0))

(** val gdesc_wild : graph -> nat -> key list list result **)

let gdesc_wild g limit =
  bind (gvisit g limit [] O) (fun vs -> Ok
    (flat_map (fun v ->
      map (fun kc -> app (fst v) ((fst kc) :: []))
        (kids_of (cell_of g (snd v)))) vs))

(** val take1 : z list -> z * z list **)

let take1 = function
| [] -> (Z0, [])
| x :: r0 -> (x, r0)

(** val remove_nth : nat -> 'a1 list -> 'a1 list **)

let rec remove_nth n0 = function
| [] -> []
| x :: r0 -> (match n0 with
              | O -> r0
              | S n' -> x :: (remove_nth n' r0))

(** val apply_perm : nat -> z -> 'a1 list -> 'a1 list **)

let rec apply_perm fuel idx pool =
  match fuel with
  | O -> []
  | S f ->
    (match pool with
     | [] -> []
     | _ :: _ ->
       let k = zlen pool in
       let j = Z.to_nat (Z.modulo idx k) in
       (match nth_error pool j with
        | Some x -> x :: (apply_perm f (Z.div idx k) (remove_nth j pool))
        | None -> []))

(** val shuffle : z list -> 'a1 list -> 'a1 list * z list **)

let shuffle script items = match items with
| [] -> (items, script)
| _ :: l ->
  (match l with
   | [] -> (items, script)
   | _ :: _ ->
     let (p, r0) = take1 script in ((apply_perm (length items) p items), r0))

type gen_state =
| Unstarted of node
| Remaining of node list

type pending = (gen_state * nat) list

(** val gen_next :
    z list -> gen_state -> (node option * gen_state) * z list **)

let gen_next script = function
| Unstarted n0 ->
  let (items, script') =
    match snd n0 with
    | JObj _ -> shuffle script (children n0)
    | _ -> ((children n0), script)
  in
  (match items with
   | [] -> ((None, (Remaining [])), script')
   | x :: r0 -> (((Some x), (Remaining r0)), script'))
| Remaining ns ->
  (match ns with
   | [] -> ((None, (Remaining [])), script)
   | x :: r0 -> (((Some x), (Remaining r0)), script))

(** val set_nth : nat -> 'a1 -> 'a1 list -> 'a1 list **)

let rec set_nth n0 x = function
| [] -> []
| y :: r0 -> (match n0 with
              | O -> x :: r0
              | S n' -> y :: (set_nth n' x r0))

(** val nd_loop :
    nat -> nat -> z list -> pending -> node list -> node list result **)

let rec nd_loop fuel limit script pend acc =
  match fuel with
  | O -> OutOfFuel
  | S f ->
    (match pend with
     | [] -> Ok (rev acc)
     | _ :: _ ->
       let (r0, script1) = take1 script in
       let idx = Z.to_nat (Z.modulo r0 (zlen pend)) in
       (match nth_error pend idx with
        | Some p ->
          let (g, depth) = p in
          let (p0, script2) = gen_next script1 g in
          let (o, g') = p0 in
          (match o with
           | Some nd ->
             let pend1 = set_nth idx (g', depth) pend in
             if is_container (snd nd)
             then if Nat.ltb limit depth
                  then Err (ERecursion, None)
                  else nd_loop f limit script2
                         (app pend1 (((Unstarted nd), (S depth)) :: []))
                         (nd :: acc)
             else nd_loop f limit script2 pend1 (nd :: acc)
           | None -> nd_loop f limit script2 (remove_nth idx pend) acc)
        | None -> Crash XIndexError))

(** val count_nodes : json -> nat **)

let rec count_nodes = function
| JArr l -> S (fold_right (fun x a -> add (count_nodes x) a) O l)
| JObj m -> S (fold_right (fun kv a -> add (count_nodes (snd kv)) a) O m)
| _ -> S O

(** val nd_visit : nat -> z list -> node -> node list result **)

let nd_visit limit script root =
  if Nat.ltb limit (S O)
  then Err (ERecursion, None)
  else nd_loop (add (mul (S (S O)) (count_nodes (snd root))) (S (S O))) limit
         script (((Unstarted root), (S (S O))) :: []) (root :: [])

(** val loc_eqb : key list -> key list -> bool **)

let rec loc_eqb a b =
  match a with
  | [] -> (match b with
           | [] -> true
           | _ :: _ -> false)
  | x :: a' ->
    (match b with
     | [] -> false
     | y :: b' -> (&&) (key_eqb x y) (loc_eqb a' b'))

(** val index_of : key list -> key list list -> nat -> nat option **)

let rec index_of l ls i =
  match ls with
  | [] -> None
  | x :: r0 -> if loc_eqb l x then Some i else index_of l r0 (S i)

(** val parent_and_prev : key list -> key list option * key list option **)

let parent_and_prev l =
  match rev l with
  | [] -> (None, None)
  | k :: p ->
    (match k with
     | KName _ -> ((Some (rev p)), None)
     | KIdx i ->
       ((Some (rev p)),
         (if Z.ltb Z0 i
          then Some (rev ((KIdx (Z.sub i (Zpos XH))) :: p))
          else None)))

(** val before : key list list -> key list -> key list -> bool **)

let before ls a b =
  match index_of a ls O with
  | Some i ->
    (match index_of b ls O with
     | Some j -> Nat.ltb i j
     | None -> false)
  | None -> false

(** val valid_order : node -> key list list -> bool **)

let valid_order root order =
  let all = map fst (descendants (fst root) (snd root)) in
  (&&)
    ((&&) (Nat.eqb (length order) (length all))
      (forallb (fun l ->
        match index_of l order O with
        | Some _ -> true
        | None -> false) all))
    (forallb (fun l ->
      if loc_eqb l (fst root)
      then true
      else let (o, prev) = parent_and_prev l in
           (match o with
            | Some p ->
              (&&) (before order p l)
                (match prev with
                 | Some q -> before order q l
                 | None -> true)
            | None -> true)) order)

(** val queues_of : node -> node list list **)

let queues_of n0 =
  match snd n0 with
  | JArr _ -> (match children n0 with
               | [] -> []
               | n1 :: l -> (n1 :: l) :: [])
  | JObj _ -> map (fun c0 -> c0 :: []) (children n0)
  | _ -> []

(** val picks :
    'a1 list list -> 'a1 list list -> ('a1 * 'a1 list list) list **)

let rec picks pre = function
| [] -> []
| l :: r0 ->
  (match l with
   | [] -> picks pre r0
   | x :: q ->
     (x,
       (app (rev pre) (app (match q with
                            | [] -> []
                            | _ :: _ -> q :: []) r0))) :: (picks
                                                            ((x :: q) :: pre)
                                                            r0))

(** val all_orders_from : nat -> node list list -> node list list **)

let rec all_orders_from fuel qs =
  match fuel with
  | O -> [] :: []
  | S f ->
    (match picks [] qs with
     | [] -> [] :: []
     | p :: l ->
       flat_map (fun p0 ->
         map (fun rest0 -> (fst p0) :: rest0)
           (all_orders_from f (app (snd p0) (queues_of (fst p0))))) (p :: l))

(** val all_orders : node -> node list list **)

let all_orders root =
  map (fun o -> root :: o)
    (all_orders_from (length (descendants (fst root) (snd root)))
      (queues_of root))

(** val iota_json : z -> json list **)

let iota_json len =
  map (fun k -> JNum (NInt (Z.of_nat k))) (seq O (Z.to_nat len))

(** val enc_sel0 : (z * json) list -> z list **)

let enc_sel0 r0 =
  enc_list (fun p -> (fst p) :: (enc_json (snd p))) r0

(** val mk_cfg : nat -> registry -> rxrow list -> envcfg **)

let mk_cfg depth rg t =
  { min_idx =
    (Z.add (Z.opp (Z.pow (Zpos (XO XH)) (Zpos (XI (XO (XI (XO (XI XH))))))))
      (Zpos XH)); max_idx =
    (Z.sub (Z.pow (Zpos (XO XH)) (Zpos (XI (XO (XI (XO (XI XH))))))) (Zpos
      XH)); max_depth = depth; reg = rg; rx = (rx_lookup t) }

(** val op_find : z list -> z list **)

let op_find r0 =
  match dec_nat r0 with
  | Some p ->
    let (depth, r1) = p in
    (match dec_registry r1 with
     | Some p0 ->
       let (rg, r2) = p0 in
       (match dec_list dec_rxrow r2 with
        | Some p1 ->
          let (t, r3) = p1 in
          (match dec_query r3 with
           | Some p2 ->
             let (q, r4) = p2 in
             (match dec_json r4 with
              | Some p3 ->
                let (v, _) = p3 in
                enc_result (enc_list enc_node)
                  (m_find (mk_cfg depth rg t) q v)
              | None -> bad_request)
           | None -> bad_request)
        | None -> bad_request)
     | None -> bad_request)
  | None -> bad_request

(** val op_sem : z list -> z list **)

let op_sem r0 =
  match dec_registry r0 with
  | Some p ->
    let (rg, r1) = p in
    (match dec_list dec_rxrow r1 with
     | Some p0 ->
       let (t, r2) = p0 in
       (match dec_query r2 with
        | Some p1 ->
          let (q, r3) = p1 in
          (match dec_json r3 with
           | Some p2 ->
             let (v, _) = p2 in
             Z0 :: (enc_list enc_node (sem rg (rx_lookup t) q v))
           | None -> bad_request)
        | None -> bad_request)
     | None -> bad_request)
  | None -> bad_request

(** val dec_comparand : comparand dec **)

let dec_comparand = function
| [] -> None
| z0 :: r0 ->
  (match z0 with
   | Z0 -> Some (Nothing, r0)
   | Zpos p ->
     (match p with
      | XH ->
        (match dec_json r0 with
         | Some p0 -> let (v, r') = p0 in Some ((Val v), r')
         | None -> None)
      | _ -> None)
   | Zneg _ -> None)

(** val op_cmp : z list -> z list **)

let op_cmp r0 =
  match dec_cmpop r0 with
  | Some p ->
    let (o, r1) = p in
    (match dec_comparand r1 with
     | Some p0 ->
       let (a, r2) = p0 in
       (match dec_comparand r2 with
        | Some p1 -> let (b, _) = p1 in enc_bool (cmp o a b)
        | None -> bad_request)
     | None -> bad_request)
  | None -> bad_request

(** val enc_token : token -> z list **)

let enc_token t =
  (ttype_code t.ty) :: (t.tidx :: (enc_str t.tval))

(** val op_tokenize : z list -> z list **)

let op_tokenize r0 =
  match dec_str r0 with
  | Some p -> let (q, _) = p in enc_result (enc_list enc_token) (m_tokenize q)
  | None -> bad_request

(** val op_float : z list -> z list **)

let op_float r0 =
  match dec_str r0 with
  | Some p ->
    let (q, _) = p in
    (match py_float q with
     | Some x ->
       (Zpos
         XH) :: (app (enc_num x)
                  (enc_opt (fun z0 -> z0 :: []) (py_int_of_float x)))
     | None -> Z0 :: [])
  | None -> bad_request

(** val op_compile : z list -> z list **)

let op_compile = function
| [] -> bad_request
| lo :: l ->
  (match l with
   | [] -> bad_request
   | hi :: r1 ->
     (match dec_registry r1 with
      | Some p ->
        let (rg, r2) = p in
        (match dec_str r2 with
         | Some p0 ->
           let (q, _) = p0 in
           enc_result enc_query
             (m_compile { min_idx = lo; max_idx = hi; max_depth = (S (S (S (S
               (S (S (S (S (S (S (S (S (S (S (S (S (S (S (S (S (S (S (S (S (S
               (S (S (S (S (S (S (S (S (S (S (S (S (S (S (S (S (S (S (S (S (S
               (S (S (S (S (S (S (S (S (S (S (S (S (S (S (S (S (S (S (S (S (S
               (S (S (S (S (S (S (S (S (S (S (S (S (S (S (S (S (S (S (S (S (S
               (S (S (S (S (S (S (S (S (S (S (S (S
               O))))))))))))))))))))))))))))))))))))))))))))))))))))))))))))))))))))))))))))))))))))))))))))))))))));
               reg = rg; rx = (fun _ _ _ -> false) } q)
         | None -> bad_request)
      | None -> bad_request))

(** val op_in_rfc : z list -> z list **)

let op_in_rfc = function
| [] -> bad_request
| k :: r1 ->
  (match dec_str r1 with
   | Some p ->
     let (q, _) = p in
     enc_bool (in_rfc_fuel (mul (Z.to_nat k) (rfc_fuel q)) q)
   | None -> bad_request)

(** val op_valid : z list -> z list **)

let op_valid = function
| [] -> bad_request
| lo :: l ->
  (match l with
   | [] -> bad_request
   | hi :: r1 ->
     (match dec_registry r1 with
      | Some p ->
        let (rg, r2) = p in
        (match dec_query r2 with
         | Some p0 ->
           let (q, r3) = p0 in
           (match dec_str r3 with
            | Some p1 ->
              let (t, _) = p1 in
              app (enc_bool (in_rfc t))
                (app (enc_bool (wt_query rg q))
                  (enc_bool (ints_in_range lo hi q)))
            | None -> bad_request)
         | None -> bad_request)
      | None -> bad_request))

(** val op_strlit : z list -> z list **)

let op_strlit = function
| [] -> bad_request
| q :: r1 ->
  (match dec_str r1 with
   | Some p -> let (b, _) = p in enc_opt enc_str (spec_decode (Z.to_N q) b)
   | None -> bad_request)

(** val op_errpos : z list -> z list **)

let op_errpos r0 =
  match dec_str r0 with
  | Some p ->
    let (q, _) = p in
    (match m_compile { min_idx =
             (Z.add
               (Z.opp
                 (Z.pow (Zpos (XO XH)) (Zpos (XI (XO (XI (XO (XI XH))))))))
               (Zpos XH)); max_idx =
             (Z.sub (Z.pow (Zpos (XO XH)) (Zpos (XI (XO (XI (XO (XI XH)))))))
               (Zpos XH)); max_depth = (S (S (S (S (S (S (S (S (S (S (S (S (S
             (S (S (S (S (S (S (S (S (S (S (S (S (S (S (S (S (S (S (S (S (S
             (S (S (S (S (S (S (S (S (S (S (S (S (S (S (S (S (S (S (S (S (S
             (S (S (S (S (S (S (S (S (S (S (S (S (S (S (S (S (S (S (S (S (S
             (S (S (S (S (S (S (S (S (S (S (S (S (S (S (S (S (S (S (S (S (S
             (S (S (S
             O))))))))))))))))))))))))))))))))))))))))))))))))))))))))))))))))))))))))))))))))))))))))))))))))))));
             reg = builtin_registry; rx = (fun _ _ _ -> false) } q with
     | Ok _ -> Z0 :: []
     | Err (c0, off) ->
       (match off with
        | Some o ->
          let (ln, col) = m_position q o in
          (Zpos XH) :: ((jperr_code c0) :: (o :: (ln :: (col :: []))))
        | None ->
          (Zpos XH) :: ((jperr_code c0) :: ((Zneg (XI (XI (XO (XO (XO (XI
            XH))))))) :: [])))
     | Crash x -> (Zpos (XO XH)) :: ((pyexn_code x) :: [])
     | OutOfFuel -> (Zpos (XI XH)) :: [])
  | None -> bad_request

(** val op_linecol : z list -> z list **)

let op_linecol = function
| [] -> bad_request
| o :: r1 ->
  (match dec_str r1 with
   | Some p ->
     let (q, _) = p in
     (line_of q (Z.to_nat o)) :: ((col_of q (Z.to_nat o)) :: [])
   | None -> bad_request)

(** val op_env_find : z list -> z list **)

let op_env_find r0 =
  match dec_nat r0 with
  | Some p ->
    let (depth, r1) = p in
    (match dec_registry r1 with
     | Some p0 ->
       let (rg, r2) = p0 in
       (match dec_list dec_rxrow r2 with
        | Some p1 ->
          let (t, r3) = p1 in
          (match dec_str r3 with
           | Some p2 ->
             let (q, r4) = p2 in
             (match dec_json r4 with
              | Some p3 ->
                let (v, _) = p3 in
                enc_result (enc_list enc_node)
                  (m_env_find (mk_cfg depth rg t) q v)
              | None -> bad_request)
           | None -> bad_request)
        | None -> bad_request)
     | None -> bad_request)
  | None -> bad_request

(** val op_str_query : z list -> z list **)

let op_str_query r0 =
  match dec_registry r0 with
  | Some p ->
    let (rg, r1) = p in
    (match dec_str r1 with
     | Some p0 ->
       let (q, _) = p0 in
       enc_result enc_str
         (bind
           (m_compile
             (mk_cfg (S (S (S (S (S (S (S (S (S (S (S (S (S (S (S (S (S (S (S
               (S (S (S (S (S (S (S (S (S (S (S (S (S (S (S (S (S (S (S (S (S
               (S (S (S (S (S (S (S (S (S (S (S (S (S (S (S (S (S (S (S (S (S
               (S (S (S (S (S (S (S (S (S (S (S (S (S (S (S (S (S (S (S (S (S
               (S (S (S (S (S (S (S (S (S (S (S (S (S (S (S (S (S (S
               O))))))))))))))))))))))))))))))))))))))))))))))))))))))))))))))))))))))))))))))))))))))))))))))))))))
               rg []) q) (fun c0 -> Ok (m_str c0)))
     | None -> bad_request)
  | None -> bad_request

(** val op_path : z list -> z list **)

let op_path r0 =
  match dec_list dec_key r0 with
  | Some p -> let (loc, _) = p in enc_str (m_path loc)
  | None -> bad_request

(** val dec_num : num dec **)

let dec_num = function
| [] -> None
| z0 :: r0 ->
  (match z0 with
   | Zpos p ->
     (match p with
      | XI p0 ->
        (match p0 with
         | XI _ -> None
         | XO p1 ->
           (match p1 with
            | XH ->
              (match r0 with
               | [] -> None
               | b :: r1 -> Some ((NInf (negb (Z.eqb b Z0))), r1))
            | _ -> None)
         | XH ->
           (match r0 with
            | [] -> None
            | m :: l0 ->
              (match l0 with
               | [] -> None
               | e :: r1 -> Some ((NFlt (m, e)), r1))))
      | XO p0 ->
        (match p0 with
         | XI _ -> None
         | XO p1 -> (match p1 with
                     | XH -> Some (NNegZero, r0)
                     | _ -> None)
         | XH -> (match r0 with
                  | [] -> None
                  | z1 :: r1 -> Some ((NInt z1), r1)))
      | XH -> None)
   | _ -> None)

(** val op_repr : z list -> z list **)

let op_repr r0 =
  match dec_num r0 with
  | Some p -> let (n0, _) = p in enc_str (repr_float n0)
  | None -> bad_request

(** val op_norm_path : z list -> z list **)

let op_norm_path r0 =
  match dec_list dec_key r0 with
  | Some p -> let (loc, _) = p in enc_str (norm_path loc)
  | None -> bad_request

(** val dec_hop : rxrow list -> hop dec **)

let dec_hop t = function
| [] -> None
| z0 :: r0 ->
  (match z0 with
   | Z0 ->
     (match r0 with
      | [] -> None
      | depth :: l0 ->
        (match l0 with
         | [] -> None
         | lo :: l1 ->
           (match l1 with
            | [] -> None
            | hi :: r1 ->
              (match dec_registry r1 with
               | Some p ->
                 let (rg, r') = p in
                 Some ((HNewEnv { min_idx = lo; max_idx = hi; max_depth =
                 (Z.to_nat depth); reg = (app rg builtin_registry); rx =
                 (rx_lookup t) }), r')
               | None -> None))))
   | Zpos p ->
     (match p with
      | XI p0 ->
        (match p0 with
         | XI _ -> None
         | XO p1 ->
           (match p1 with
            | XH ->
              (match dec_str r0 with
               | Some p2 ->
                 let (t', r1) = p2 in
                 (match dec_json r1 with
                  | Some p3 ->
                    let (v, r') = p3 in Some ((HFindModule (t', v)), r')
                  | None -> None)
               | None -> None)
            | _ -> None)
         | XH ->
           (match r0 with
            | [] -> None
            | c0 :: r1 ->
              (match dec_json r1 with
               | Some p1 ->
                 let (v, r') = p1 in Some ((HApply ((Z.to_nat c0), v)), r')
               | None -> None)))
      | XO p0 ->
        (match p0 with
         | XI _ -> None
         | XO p1 ->
           (match p1 with
            | XH ->
              (match r0 with
               | [] -> None
               | e :: r1 ->
                 (match dec_str r1 with
                  | Some p2 ->
                    let (t', r2) = p2 in
                    (match dec_json r2 with
                     | Some p3 ->
                       let (v, r') = p3 in
                       Some ((HFindEnv ((Z.to_nat e), t', v)), r')
                     | None -> None)
                  | None -> None))
            | _ -> None)
         | XH ->
           (match r0 with
            | [] -> None
            | e :: r1 ->
              (match dec_str r1 with
               | Some p1 ->
                 let (t', r') = p1 in Some ((HCompile ((Z.to_nat e), t')), r')
               | None -> None)))
      | XH ->
        (match r0 with
         | [] -> None
         | e :: r1 ->
           (match dec_fdecl r1 with
            | Some p0 ->
              let (p1, r') = p0 in
              let (nm, d) = p1 in Some ((HRegister ((Z.to_nat e), nm, d)), r')
            | None -> None)))
   | Zneg _ -> None)

(** val enc_hout : hout -> z list **)

let enc_hout = function
| HNone -> Z0 :: []
| HNodes r0 -> (Zpos XH) :: (enc_result (enc_list enc_node) r0)
| HCompiled r0 ->
  (Zpos (XO XH)) :: (enc_result (fun n0 -> (Z.of_nat n0) :: []) r0)

(** val op_history : z list -> z list **)

let op_history r0 =
  match dec_list dec_rxrow r0 with
  | Some p ->
    let (t, r1) = p in
    (match dec_list (dec_hop t) r1 with
     | Some p0 ->
       let (ops, _) = p0 in
       enc_list enc_hout
         (snd
           (hrun
             (mk_cfg (S (S (S (S (S (S (S (S (S (S (S (S (S (S (S (S (S (S (S
               (S (S (S (S (S (S (S (S (S (S (S (S (S (S (S (S (S (S (S (S (S
               (S (S (S (S (S (S (S (S (S (S (S (S (S (S (S (S (S (S (S (S (S
               (S (S (S (S (S (S (S (S (S (S (S (S (S (S (S (S (S (S (S (S (S
               (S (S (S (S (S (S (S (S (S (S (S (S (S (S (S (S (S (S
               O))))))))))))))))))))))))))))))))))))))))))))))))))))))))))))))))))))))))))))))))))))))))))))))))))))
               builtin_registry t) { envs = []; compiled = [] } ops))
     | None -> bad_request)
  | None -> bad_request

(** val enc_loc : key list -> z list **)

let enc_loc l =
  enc_list enc_key l

(** val op_nd_visit : z list -> z list **)

let op_nd_visit r0 =
  match dec_nat r0 with
  | Some p ->
    let (limit, r1) = p in
    (match dec_list dec_z r1 with
     | Some p0 ->
       let (script, r2) = p0 in
       (match dec_json r2 with
        | Some p1 ->
          let (v, _) = p1 in
          enc_result (enc_list (fun n0 -> enc_loc (fst n0)))
            (nd_visit limit script ([], v))
        | None -> bad_request)
     | None -> bad_request)
  | None -> bad_request

(** val dec_cell : cell dec **)

let dec_cell = function
| [] -> None
| z0 :: r0 ->
  (match z0 with
   | Z0 -> Some (CScalar, r0)
   | Zpos p ->
     (match p with
      | XI _ -> None
      | XO p0 ->
        (match p0 with
         | XH ->
           (match dec_list (dec_pair dec_str dec_nat) r0 with
            | Some p1 -> let (ks, r') = p1 in Some ((CObj ks), r')
            | None -> None)
         | _ -> None)
      | XH ->
        (match dec_list dec_nat r0 with
         | Some p0 -> let (ks, r') = p0 in Some ((CArr ks), r')
         | None -> None))
   | Zneg _ -> None)

(** val op_graph : z list -> z list **)

let op_graph r0 =
  match dec_nat r0 with
  | Some p ->
    let (limit, r1) = p in
    (match dec_list dec_cell r1 with
     | Some p0 ->
       let (g, _) = p0 in enc_result (enc_list enc_loc) (gdesc_wild g limit)
     | None -> bad_request)
  | None -> bad_request

(** val op_valid_order : z list -> z list **)

let op_valid_order r0 =
  match dec_json r0 with
  | Some p ->
    let (v, r1) = p in
    (match dec_list (dec_list dec_key) r1 with
     | Some p0 -> let (o, _) = p0 in enc_bool (valid_order ([], v) o)
     | None -> bad_request)
  | None -> bad_request

(** val op_all_orders : z list -> z list **)

let op_all_orders r0 =
  match dec_json r0 with
  | Some p ->
    let (v, _) = p in
    enc_list (enc_list (fun n0 -> enc_loc (fst n0))) (all_orders ([], v))
  | None -> bad_request

(** val dispatch : z list -> z list **)

let dispatch = function
| [] -> bad_request
| z0 :: r0 ->
  (match z0 with
   | Zpos p ->
     (match p with
      | XI p0 ->
        (match p0 with
         | XI p1 ->
           (match p1 with
            | XI p2 ->
              (match p2 with
               | XO p3 ->
                 (match p3 with
                  | XI p4 ->
                    (match p4 with
                     | XI p5 ->
                       (match p5 with
                        | XH -> op_linecol r0
                        | _ -> bad_request)
                     | _ -> bad_request)
                  | XO p4 ->
                    (match p4 with
                     | XI p5 ->
                       (match p5 with
                        | XH -> op_sem r0
                        | _ -> bad_request)
                     | _ -> bad_request)
                  | XH -> bad_request)
               | _ -> bad_request)
            | XO p2 ->
              (match p2 with
               | XI p3 ->
                 (match p3 with
                  | XO p4 ->
                    (match p4 with
                     | XI p5 ->
                       (match p5 with
                        | XH ->
                          (match r0 with
                           | [] -> bad_request
                           | len :: r1 ->
                             (match dec_opt dec_z r1 with
                              | Some p6 ->
                                let (s, r2) = p6 in
                                (match dec_opt dec_z r2 with
                                 | Some p7 ->
                                   let (e, r3) = p7 in
                                   (match dec_opt dec_z r3 with
                                    | Some p8 ->
                                      let (t, _) = p8 in
                                      enc_list (fun z1 -> z1 :: [])
                                        (rfc_slice len s e t)
                                    | None -> bad_request)
                                 | None -> bad_request)
                              | None -> bad_request))
                        | _ -> bad_request)
                     | _ -> bad_request)
                  | _ -> bad_request)
               | XO p3 ->
                 (match p3 with
                  | XH -> op_errpos r0
                  | _ -> bad_request)
               | XH -> op_graph r0)
            | XH ->
              (match r0 with
               | [] -> bad_request
               | len :: r1 ->
                 (match dec_opt dec_z r1 with
                  | Some p2 ->
                    let (s, r2) = p2 in
                    (match dec_opt dec_z r2 with
                     | Some p3 ->
                       let (e, r3) = p3 in
                       (match dec_opt dec_z r3 with
                        | Some p4 ->
                          let (t, _) = p4 in
                          enc_sel0 (m_slice_select (iota_json len) s e t)
                        | None -> bad_request)
                     | None -> bad_request)
                  | None -> bad_request)))
         | XO p1 ->
           (match p1 with
            | XI p2 ->
              (match p2 with
               | XI p3 ->
                 (match p3 with
                  | XO p4 ->
                    (match p4 with
                     | XI p5 ->
                       (match p5 with
                        | XH -> op_valid r0
                        | _ -> bad_request)
                     | _ -> bad_request)
                  | _ -> bad_request)
               | XO p3 ->
                 (match p3 with
                  | XI p4 ->
                    (match p4 with
                     | XI p5 ->
                       (match p5 with
                        | XH -> op_all_orders r0
                        | _ -> bad_request)
                     | _ -> bad_request)
                  | XO _ -> bad_request
                  | XH -> op_repr r0)
               | XH -> bad_request)
            | XO _ -> bad_request
            | XH -> op_str_query r0)
         | XH -> op_find r0)
      | XO p0 ->
        (match p0 with
         | XI p1 ->
           (match p1 with
            | XI p2 ->
              (match p2 with
               | XI p3 ->
                 (match p3 with
                  | XO p4 ->
                    (match p4 with
                     | XI p5 ->
                       (match p5 with
                        | XH -> op_strlit r0
                        | _ -> bad_request)
                     | _ -> bad_request)
                  | _ -> bad_request)
               | XO p3 ->
                 (match p3 with
                  | XI p4 ->
                    (match p4 with
                     | XI p5 ->
                       (match p5 with
                        | XH -> op_norm_path r0
                        | _ -> bad_request)
                     | _ -> bad_request)
                  | _ -> bad_request)
               | XH -> bad_request)
            | XO p2 ->
              (match p2 with
               | XI p3 ->
                 (match p3 with
                  | XO p4 ->
                    (match p4 with
                     | XI p5 ->
                       (match p5 with
                        | XH -> op_cmp r0
                        | _ -> bad_request)
                     | _ -> bad_request)
                  | _ -> bad_request)
               | XO _ -> bad_request
               | XH -> op_nd_visit r0)
            | XH -> op_path r0)
         | XO p1 ->
           (match p1 with
            | XI p2 ->
              (match p2 with
               | XI p3 ->
                 (match p3 with
                  | XO p4 ->
                    (match p4 with
                     | XI p5 ->
                       (match p5 with
                        | XH ->
                          (match r0 with
                           | [] -> bad_request
                           | len :: l ->
                             (match l with
                              | [] -> bad_request
                              | i :: _ ->
                                enc_list (fun z1 -> z1 :: [])
                                  (rfc_index len i)))
                        | _ -> bad_request)
                     | _ -> bad_request)
                  | _ -> bad_request)
               | XO p3 ->
                 (match p3 with
                  | XI p4 ->
                    (match p4 with
                     | XI p5 ->
                       (match p5 with
                        | XH -> op_valid_order r0
                        | _ -> bad_request)
                     | _ -> bad_request)
                  | XO _ -> bad_request
                  | XH -> op_float r0)
               | XH -> op_history r0)
            | XO p2 ->
              (match p2 with
               | XI p3 ->
                 (match p3 with
                  | XO p4 ->
                    (match p4 with
                     | XI p5 ->
                       (match p5 with
                        | XH -> op_in_rfc r0
                        | _ -> bad_request)
                     | _ -> bad_request)
                  | _ -> bad_request)
               | XO _ -> bad_request
               | XH ->
                 (match r0 with
                  | [] -> bad_request
                  | len :: l ->
                    (match l with
                     | [] -> bad_request
                     | i :: _ -> enc_sel0 (m_index_select (iota_json len) i))))
            | XH -> op_env_find r0)
         | XH -> op_compile r0)
      | XH -> op_tokenize r0)
   | _ -> bad_request)
