
type nat =
| O
| S of nat

(** val fst : ('a1 * 'a2) -> 'a1 **)

let fst = function
| (x, _) -> x

(** val snd : ('a1 * 'a2) -> 'a2 **)

let snd = function
| (_, y) -> y

(** val length : 'a1 list -> nat **)

let rec length = function
| [] -> O
| _ :: l' -> S (length l')

(** val app : 'a1 list -> 'a1 list -> 'a1 list **)

let rec app l m =
  match l with
  | [] -> m
  | a :: l1 -> a :: (app l1 m)

type comparison =
| Eq
| Lt
| Gt

(** val compOpp : comparison -> comparison **)

let compOpp = function
| Eq -> Eq
| Lt -> Gt
| Gt -> Lt

module Coq__1 = struct
 (** val add : nat -> nat -> nat **)
 let rec add n0 m =
   match n0 with
   | O -> m
   | S p -> S (add p m)
end
include Coq__1

(** val map : ('a1 -> 'a2) -> 'a1 list -> 'a2 list **)

let rec map f = function
| [] -> []
| a :: t -> (f a) :: (map f t)

(** val flat_map : ('a1 -> 'a2 list) -> 'a1 list -> 'a2 list **)

let rec flat_map f = function
| [] -> []
| x :: t -> app (f x) (flat_map f t)

(** val combine : 'a1 list -> 'a2 list -> ('a1 * 'a2) list **)

let rec combine l l' =
  match l with
  | [] -> []
  | x :: tl ->
    (match l' with
     | [] -> []
     | y :: tl' -> (x, y) :: (combine tl tl'))

(** val seq : nat -> nat -> nat list **)

let rec seq start = function
| O -> []
| S len0 -> start :: (seq (S start) len0)

type positive =
| XI of positive
| XO of positive
| XH

type n =
| N0
| Npos of positive

type z =
| Z0
| Zpos of positive
| Zneg of positive

module Pos =
 struct
  (** val succ : positive -> positive **)

  let rec succ = function
  | XI p -> XO (succ p)
  | XO p -> XI p
  | XH -> XO XH

  (** val add : positive -> positive -> positive **)

  let rec add x y =
    match x with
    | XI p ->
      (match y with
       | XI q -> XO (add_carry p q)
       | XO q -> XI (add p q)
       | XH -> XO (succ p))
    | XO p ->
      (match y with
       | XI q -> XI (add p q)
       | XO q -> XO (add p q)
       | XH -> XI p)
    | XH -> (match y with
             | XI q -> XO (succ q)
             | XO q -> XI q
             | XH -> XO XH)

  (** val add_carry : positive -> positive -> positive **)

  and add_carry x y =
    match x with
    | XI p ->
      (match y with
       | XI q -> XI (add_carry p q)
       | XO q -> XO (add_carry p q)
       | XH -> XI (succ p))
    | XO p ->
      (match y with
       | XI q -> XO (add_carry p q)
       | XO q -> XI (add p q)
       | XH -> XO (succ p))
    | XH ->
      (match y with
       | XI q -> XI (succ q)
       | XO q -> XO (succ q)
       | XH -> XI XH)

  (** val pred_double : positive -> positive **)

  let rec pred_double = function
  | XI p -> XI (XO p)
  | XO p -> XI (pred_double p)
  | XH -> XH

  (** val mul : positive -> positive -> positive **)

  let rec mul x y =
    match x with
    | XI p -> add y (XO (mul p y))
    | XO p -> XO (mul p y)
    | XH -> y

  (** val compare_cont : comparison -> positive -> positive -> comparison **)

  let rec compare_cont r x y =
    match x with
    | XI p ->
      (match y with
       | XI q -> compare_cont r p q
       | XO q -> compare_cont Gt p q
       | XH -> Gt)
    | XO p ->
      (match y with
       | XI q -> compare_cont Lt p q
       | XO q -> compare_cont r p q
       | XH -> Gt)
    | XH -> (match y with
             | XH -> r
             | _ -> Lt)

  (** val compare : positive -> positive -> comparison **)

  let compare =
    compare_cont Eq

  (** val eqb : positive -> positive -> bool **)

  let rec eqb p q =
    match p with
    | XI p0 -> (match q with
                | XI q0 -> eqb p0 q0
                | _ -> false)
    | XO p0 -> (match q with
                | XO q0 -> eqb p0 q0
                | _ -> false)
    | XH -> (match q with
             | XH -> true
             | _ -> false)

  (** val iter_op : ('a1 -> 'a1 -> 'a1) -> positive -> 'a1 -> 'a1 **)

  let rec iter_op op p a =
    match p with
    | XI p0 -> op a (iter_op op p0 (op a a))
    | XO p0 -> iter_op op p0 (op a a)
    | XH -> a

  (** val to_nat : positive -> nat **)

  let to_nat x =
    iter_op Coq__1.add x (S O)

  (** val of_succ_nat : nat -> positive **)

  let rec of_succ_nat = function
  | O -> XH
  | S x -> succ (of_succ_nat x)
 end

module Z =
 struct
  (** val double : z -> z **)

  let double = function
  | Z0 -> Z0
  | Zpos p -> Zpos (XO p)
  | Zneg p -> Zneg (XO p)

  (** val succ_double : z -> z **)

  let succ_double = function
  | Z0 -> Zpos XH
  | Zpos p -> Zpos (XI p)
  | Zneg p -> Zneg (Pos.pred_double p)

  (** val pred_double : z -> z **)

  let pred_double = function
  | Z0 -> Zneg XH
  | Zpos p -> Zpos (Pos.pred_double p)
  | Zneg p -> Zneg (XI p)

  (** val pos_sub : positive -> positive -> z **)

  let rec pos_sub x y =
    match x with
    | XI p ->
      (match y with
       | XI q -> double (pos_sub p q)
       | XO q -> succ_double (pos_sub p q)
       | XH -> Zpos (XO p))
    | XO p ->
      (match y with
       | XI q -> pred_double (pos_sub p q)
       | XO q -> double (pos_sub p q)
       | XH -> Zpos (Pos.pred_double p))
    | XH ->
      (match y with
       | XI q -> Zneg (XO q)
       | XO q -> Zneg (Pos.pred_double q)
       | XH -> Z0)

  (** val add : z -> z -> z **)

  let add x y =
    match x with
    | Z0 -> y
    | Zpos x' ->
      (match y with
       | Z0 -> x
       | Zpos y' -> Zpos (Pos.add x' y')
       | Zneg y' -> pos_sub x' y')
    | Zneg x' ->
      (match y with
       | Z0 -> x
       | Zpos y' -> pos_sub y' x'
       | Zneg y' -> Zneg (Pos.add x' y'))

  (** val opp : z -> z **)

  let opp = function
  | Z0 -> Z0
  | Zpos x0 -> Zneg x0
  | Zneg x0 -> Zpos x0

  (** val sub : z -> z -> z **)

  let sub m n0 =
    add m (opp n0)

  (** val mul : z -> z -> z **)

  let mul x y =
    match x with
    | Z0 -> Z0
    | Zpos x' ->
      (match y with
       | Z0 -> Z0
       | Zpos y' -> Zpos (Pos.mul x' y')
       | Zneg y' -> Zneg (Pos.mul x' y'))
    | Zneg x' ->
      (match y with
       | Z0 -> Z0
       | Zpos y' -> Zneg (Pos.mul x' y')
       | Zneg y' -> Zpos (Pos.mul x' y'))

  (** val compare : z -> z -> comparison **)

  let compare x y =
    match x with
    | Z0 -> (match y with
             | Z0 -> Eq
             | Zpos _ -> Lt
             | Zneg _ -> Gt)
    | Zpos x' -> (match y with
                  | Zpos y' -> Pos.compare x' y'
                  | _ -> Gt)
    | Zneg x' ->
      (match y with
       | Zneg y' -> compOpp (Pos.compare x' y')
       | _ -> Lt)

  (** val leb : z -> z -> bool **)

  let leb x y =
    match compare x y with
    | Gt -> false
    | _ -> true

  (** val ltb : z -> z -> bool **)

  let ltb x y =
    match compare x y with
    | Lt -> true
    | _ -> false

  (** val eqb : z -> z -> bool **)

  let eqb x y =
    match x with
    | Z0 -> (match y with
             | Z0 -> true
             | _ -> false)
    | Zpos p -> (match y with
                 | Zpos q -> Pos.eqb p q
                 | _ -> false)
    | Zneg p -> (match y with
                 | Zneg q -> Pos.eqb p q
                 | _ -> false)

  (** val max : z -> z -> z **)

  let max n0 m =
    match compare n0 m with
    | Lt -> m
    | _ -> n0

  (** val min : z -> z -> z **)

  let min n0 m =
    match compare n0 m with
    | Gt -> m
    | _ -> n0

  (** val abs : z -> z **)

  let abs = function
  | Zneg p -> Zpos p
  | x -> x

  (** val to_nat : z -> nat **)

  let to_nat = function
  | Zpos p -> Pos.to_nat p
  | _ -> O

  (** val of_nat : nat -> z **)

  let of_nat = function
  | O -> Z0
  | S n1 -> Zpos (Pos.of_succ_nat n1)

  (** val of_N : n -> z **)

  let of_N = function
  | N0 -> Z0
  | Npos p -> Zpos p

  (** val pos_div_eucl : positive -> z -> z * z **)

  let rec pos_div_eucl a b =
    match a with
    | XI a' ->
      let (q, r) = pos_div_eucl a' b in
      let r' = add (mul (Zpos (XO XH)) r) (Zpos XH) in
      if ltb r' b
      then ((mul (Zpos (XO XH)) q), r')
      else ((add (mul (Zpos (XO XH)) q) (Zpos XH)), (sub r' b))
    | XO a' ->
      let (q, r) = pos_div_eucl a' b in
      let r' = mul (Zpos (XO XH)) r in
      if ltb r' b
      then ((mul (Zpos (XO XH)) q), r')
      else ((add (mul (Zpos (XO XH)) q) (Zpos XH)), (sub r' b))
    | XH -> if leb (Zpos (XO XH)) b then (Z0, (Zpos XH)) else ((Zpos XH), Z0)

  (** val div_eucl : z -> z -> z * z **)

  let div_eucl a b =
    match a with
    | Z0 -> (Z0, Z0)
    | Zpos a' ->
      (match b with
       | Z0 -> (Z0, a)
       | Zpos _ -> pos_div_eucl a' b
       | Zneg b' ->
         let (q, r) = pos_div_eucl a' (Zpos b') in
         (match r with
          | Z0 -> ((opp q), Z0)
          | _ -> ((opp (add q (Zpos XH))), (add b r))))
    | Zneg a' ->
      (match b with
       | Z0 -> (Z0, a)
       | Zpos _ ->
         let (q, r) = pos_div_eucl a' b in
         (match r with
          | Z0 -> ((opp q), Z0)
          | _ -> ((opp (add q (Zpos XH))), (sub b r)))
       | Zneg b' -> let (q, r) = pos_div_eucl a' (Zpos b') in (q, (opp r)))

  (** val div : z -> z -> z **)

  let div a b =
    let (q, _) = div_eucl a b in q
 end

type str = n list

(** val zlen : 'a1 list -> z **)

let zlen l =
  Z.of_nat (length l)

(** val znth_aux : 'a1 list -> z -> 'a1 option **)

let rec znth_aux l i =
  match l with
  | [] -> None
  | x :: xs -> if Z.eqb i Z0 then Some x else znth_aux xs (Z.sub i (Zpos XH))

(** val znth : 'a1 list -> z -> 'a1 option **)

let znth l i =
  if Z.ltb i Z0 then None else znth_aux l i

type num =
| NInt of z
| NFlt of z * z
| NNegZero
| NInf of bool

type json =
| JNull
| JBool of bool
| JNum of num
| JStr of str
| JArr of json list
| JObj of (str * json) list

type 'a dec = z list -> ('a * z list) option

(** val dec_z : z dec **)

let dec_z = function
| [] -> None
| x :: r -> Some (x, r)

(** val dec_opt : 'a1 dec -> 'a1 option dec **)

let dec_opt d = function
| [] -> None
| z0 :: r ->
  (match z0 with
   | Z0 -> Some (None, r)
   | _ ->
     (match d r with
      | Some p -> let (x, r') = p in Some ((Some x), r')
      | None -> None))

(** val enc_bool : bool -> z list **)

let enc_bool b =
  (if b then Zpos XH else Z0) :: []

(** val enc_list : ('a1 -> z list) -> 'a1 list -> z list **)

let enc_list e l =
  (zlen l) :: (flat_map e l)

(** val enc_str : str -> z list **)

let enc_str s =
  (zlen s) :: (map Z.of_N s)

(** val enc_num : num -> z list **)

let enc_num = function
| NInt z0 -> (Zpos (XO XH)) :: (z0 :: [])
| NFlt (m, e) -> (Zpos (XI XH)) :: (m :: (e :: []))
| NNegZero -> (Zpos (XO (XO XH))) :: []
| NInf b -> (Zpos (XI (XO XH))) :: (enc_bool b)

(** val enc_json : json -> z list **)

let rec enc_json = function
| JNull -> Z0 :: []
| JBool b -> (Zpos XH) :: (enc_bool b)
| JNum n0 -> enc_num n0
| JStr s -> (Zpos (XO (XI XH))) :: (enc_str s)
| JArr l -> (Zpos (XI (XI XH))) :: ((zlen l) :: (flat_map enc_json l))
| JObj m ->
  (Zpos (XO (XO (XO
    XH)))) :: ((zlen m) :: (flat_map (fun kv ->
                             app (enc_str (fst kv)) (enc_json (snd kv))) m))

(** val bad_request : z list **)

let bad_request =
  (Zneg XH) :: []

(** val py_slice_indices :
    z -> z option -> z option -> z option -> (z * z) * z **)

let py_slice_indices len start stop step =
  let st = match step with
           | Some s -> s
           | None -> Zpos XH in
  let neg = Z.ltb st Z0 in
  let lower = if neg then Zneg XH else Z0 in
  let upper = if neg then Z.sub len (Zpos XH) else len in
  let clamp = fun x dflt ->
    match x with
    | Some v ->
      if Z.ltb v Z0
      then let v' = Z.add v len in if Z.ltb v' lower then lower else v'
      else if Z.ltb upper v then upper else v
    | None -> dflt
  in
  (((clamp start (if neg then upper else lower)),
  (clamp stop (if neg then lower else upper))), st)

(** val py_range_len : z -> z -> z -> z **)

let py_range_len lo hi step =
  if Z.ltb Z0 step
  then if Z.ltb lo hi
       then Z.add (Z.div (Z.sub (Z.sub hi lo) (Zpos XH)) step) (Zpos XH)
       else Z0
  else if Z.ltb hi lo
       then Z.add (Z.div (Z.sub (Z.sub lo hi) (Zpos XH)) (Z.opp step)) (Zpos
              XH)
       else Z0

(** val py_range : z -> z -> z -> z list **)

let py_range lo hi step =
  map (fun k -> Z.add lo (Z.mul (Z.of_nat k) step))
    (seq O (Z.to_nat (py_range_len lo hi step)))

(** val py_list_getitem : 'a1 list -> z -> 'a1 option **)

let py_list_getitem l i =
  znth l (if Z.ltb i Z0 then Z.add i (zlen l) else i)

(** val m_normalized_index : z -> z -> z **)

let m_normalized_index len i =
  if (&&) (Z.ltb i Z0) (Z.leb (Z.abs i) len) then Z.add len i else i

(** val m_index_select : json list -> z -> (z * json) list **)

let m_index_select l i =
  match py_list_getitem l i with
  | Some x -> ((m_normalized_index (zlen l) i), x) :: []
  | None -> []

(** val m_slice_select :
    json list -> z option -> z option -> z option -> (z * json) list **)

let m_slice_select l s e t = match t with
| Some z0 ->
  (match z0 with
   | Z0 -> []
   | Zpos _ ->
     let (p, st) = py_slice_indices (zlen l) s e t in
     let (lo, hi) = p in
     let idxs = py_range lo hi st in
     let elems =
       flat_map (fun i -> match znth l i with
                          | Some x -> x :: []
                          | None -> []) idxs
     in
     combine idxs elems
   | Zneg _ ->
     let (p, st) = py_slice_indices (zlen l) s e t in
     let (lo, hi) = p in
     let idxs = py_range lo hi st in
     let elems =
       flat_map (fun i -> match znth l i with
                          | Some x -> x :: []
                          | None -> []) idxs
     in
     combine idxs elems)
| None ->
  let (p, st) = py_slice_indices (zlen l) s e t in
  let (lo, hi) = p in
  let idxs = py_range lo hi st in
  let elems =
    flat_map (fun i -> match znth l i with
                       | Some x -> x :: []
                       | None -> []) idxs
  in
  combine idxs elems

(** val normalize : z -> z -> z **)

let normalize i len =
  if Z.leb Z0 i then i else Z.add len i

(** val bounds : z -> z -> z -> z -> z * z **)

let bounds start end_ step len =
  let n_start = normalize start len in
  let n_end = normalize end_ len in
  if Z.leb Z0 step
  then ((Z.min (Z.max n_start Z0) len), (Z.min (Z.max n_end Z0) len))
  else ((Z.min (Z.max n_end (Zneg XH)) (Z.sub len (Zpos XH))),
         (Z.min (Z.max n_start (Zneg XH)) (Z.sub len (Zpos XH))))

(** val loop_up : nat -> z -> z -> z -> z list **)

let rec loop_up fuel i upper step =
  match fuel with
  | O -> []
  | S f ->
    if Z.ltb i upper then i :: (loop_up f (Z.add i step) upper step) else []

(** val loop_down : nat -> z -> z -> z -> z list **)

let rec loop_down fuel i lower step =
  match fuel with
  | O -> []
  | S f ->
    if Z.ltb lower i then i :: (loop_down f (Z.add i step) lower step) else []

(** val slice_fuel : z -> nat **)

let slice_fuel len =
  S (Z.to_nat len)

(** val rfc_slice_fuel :
    nat -> z -> z option -> z option -> z option -> z list **)

let rfc_slice_fuel fuel len s e t =
  let step = match t with
             | Some x -> x
             | None -> Zpos XH in
  if Z.eqb step Z0
  then []
  else let start =
         match s with
         | Some x -> x
         | None -> if Z.leb Z0 step then Z0 else Z.sub len (Zpos XH)
       in
       let end_ =
         match e with
         | Some x -> x
         | None -> if Z.leb Z0 step then len else Z.sub (Z.opp len) (Zpos XH)
       in
       let (lower, upper) = bounds start end_ step len in
       if Z.ltb Z0 step
       then loop_up fuel lower upper step
       else loop_down fuel upper lower step

(** val rfc_slice : z -> z option -> z option -> z option -> z list **)

let rfc_slice len s e t =
  rfc_slice_fuel (slice_fuel len) len s e t

(** val rfc_index : z -> z -> z list **)

let rfc_index len i =
  let n0 = normalize i len in
  if (&&) (Z.leb Z0 n0) (Z.ltb n0 len) then n0 :: [] else []

(** val iota_json : z -> json list **)

let iota_json len =
  map (fun k -> JNum (NInt (Z.of_nat k))) (seq O (Z.to_nat len))

(** val enc_sel : (z * json) list -> z list **)

let enc_sel r =
  enc_list (fun p -> (fst p) :: (enc_json (snd p))) r

(** val dispatch : z list -> z list **)

let dispatch = function
| [] -> bad_request
| z0 :: l ->
  (match z0 with
   | Zpos p ->
     (match p with
      | XI p0 ->
        (match p0 with
         | XI p1 ->
           (match p1 with
            | XI _ -> bad_request
            | XO p2 ->
              (match p2 with
               | XI p3 ->
                 (match p3 with
                  | XO p4 ->
                    (match p4 with
                     | XI p5 ->
                       (match p5 with
                        | XH ->
                          (match l with
                           | [] -> bad_request
                           | len :: r ->
                             (match dec_opt dec_z r with
                              | Some p6 ->
                                let (s, r1) = p6 in
                                (match dec_opt dec_z r1 with
                                 | Some p7 ->
                                   let (e, r2) = p7 in
                                   (match dec_opt dec_z r2 with
                                    | Some p8 ->
                                      let (t, _) = p8 in
                                      enc_list (fun z1 -> z1 :: [])
                                        (rfc_slice len s e t)
                                    | None -> bad_request)
                                 | None -> bad_request)
                              | None -> bad_request))
                        | _ -> bad_request)
                     | _ -> bad_request)
                  | _ -> bad_request)
               | _ -> bad_request)
            | XH ->
              (match l with
               | [] -> bad_request
               | len :: r ->
                 (match dec_opt dec_z r with
                  | Some p2 ->
                    let (s, r1) = p2 in
                    (match dec_opt dec_z r1 with
                     | Some p3 ->
                       let (e, r2) = p3 in
                       (match dec_opt dec_z r2 with
                        | Some p4 ->
                          let (t, _) = p4 in
                          enc_sel (m_slice_select (iota_json len) s e t)
                        | None -> bad_request)
                     | None -> bad_request)
                  | None -> bad_request)))
         | _ -> bad_request)
      | XO p0 ->
        (match p0 with
         | XO p1 ->
           (match p1 with
            | XI p2 ->
              (match p2 with
               | XI p3 ->
                 (match p3 with
                  | XO p4 ->
                    (match p4 with
                     | XI p5 ->
                       (match p5 with
                        | XH ->
                          (match l with
                           | [] -> bad_request
                           | len :: l0 ->
                             (match l0 with
                              | [] -> bad_request
                              | i :: _ ->
                                enc_list (fun z1 -> z1 :: [])
                                  (rfc_index len i)))
                        | _ -> bad_request)
                     | _ -> bad_request)
                  | _ -> bad_request)
               | _ -> bad_request)
            | XO p2 ->
              (match p2 with
               | XH ->
                 (match l with
                  | [] -> bad_request
                  | len :: l0 ->
                    (match l0 with
                     | [] -> bad_request
                     | i :: _ -> enc_sel (m_index_select (iota_json len) i)))
               | _ -> bad_request)
            | XH -> bad_request)
         | _ -> bad_request)
      | XH -> bad_request)
   | _ -> bad_request)
